package p_kv

import (
	"bytes"
	"context"
	"fmt"
	"sort"
	"testing"
	"time"

	gerrors "github.com/acquirecloud/golibs/errors"
	"github.com/acquirecloud/golibs/kvs"
	"pgregory.net/rapid"
	"verifharness/internal/vstat"
)

// BulkCase: one big batch. N records are written with PutMany (in chunks of Chunk), read back with one GetMany over all
// keys plus absent ones in a permuted order, listed, partly deleted and read again - on both backends against a map.
type BulkCase struct {
	N      int  `json:"n"`
	Chunk  int  `json:"chunk"`  // PutMany batch size (0 = everything in one call)
	Stride int  `json:"stride"` // permutation of the GetMany key order: i -> (i*Stride+Shift) mod M, Stride coprime to M
	Shift  int  `json:"shift"`
	Absent int  `json:"absent"` // number of absent keys mixed into the GetMany
	Exp    bool `json:"exp"`    // every 3rd record carries a far-future expiry (forces the per-record Redis path)
	DelMod int  `json:"delmod"` // afterwards delete every key with index % DelMod == 0 (0 = none)
}

func gcd(a, b int) int {
	for b != 0 {
		a, b = b, a%b
	}
	return a
}

func runBulk(c BulkCase, d *Driver) *vstat.Violation {
	ctx := context.Background()
	st := d.St
	far := time.Now().Add(100 * time.Hour)
	key := func(i int) string { return fmt.Sprintf("b%05d", i) }
	val := func(i int) []byte { return []byte(fmt.Sprintf("v%d", i*7+1)) }
	recs := make([]kvs.Record, c.N)
	for i := range recs {
		recs[i] = kvs.Record{Key: key(i), Value: val(i)}
		if c.Exp && i%3 == 0 {
			recs[i].ExpiresAt = &far
		}
	}
	chunk := c.Chunk
	if chunk <= 0 || chunk > c.N {
		chunk = max(c.N, 1)
	}
	for lo := 0; lo < c.N; lo += chunk {
		hi := min(c.N, lo+chunk)
		if err := st.PutMany(ctx, recs[lo:hi]); err != nil {
			return vstat.V(d.Name+":putmany-error", "PutMany of records %d..%d of %d failed: %s", lo, hi, c.N, errName(err))
		}
	}
	present := map[string]bool{}
	for i := 0; i < c.N; i++ {
		present[key(i)] = true
	}
	check := func(stage string) *vstat.Violation {
		m := c.N + c.Absent
		if m == 0 {
			return nil
		}
		stride := c.Stride%m + 1
		for gcd(stride, m) != 1 {
			stride++
		}
		keys := make([]string, m)
		for i := 0; i < m; i++ {
			j := (i*stride + c.Shift) % m
			keys[i] = key(j) // indexes >= N are absent keys
		}
		got, err := st.GetMany(ctx, keys...)
		if err != nil {
			return vstat.V(d.Name+":getmany-error", "%s: GetMany over %d keys failed: %s", stage, m, errName(err))
		}
		if len(got) != m {
			return vstat.V(d.Name+":getmany-len", "%s: GetMany returned %d entries for %d keys", stage, len(got), m)
		}
		versions := map[string]string{}
		for i, k := range keys {
			if !present[k] {
				if got[i] != nil {
					return vstat.V(d.Name+":getmany-missing", "%s: GetMany over %d keys: position %d (absent key %q) holds a record with key %q", stage, m, i, k, got[i].Key)
				}
				continue
			}
			if got[i] == nil {
				return vstat.V(d.Name+":getmany-present", "%s: GetMany over %d keys: position %d (present key %q) is nil", stage, m, i, k)
			}
			var idx int
			fmt.Sscanf(k, "b%d", &idx)
			if got[i].Key != k || !bytes.Equal(got[i].Value, val(idx)) {
				return vstat.V(d.Name+":getmany-record", "%s: GetMany over %d keys: position %d asked for %q, got key %q value %q (want value %q)", stage, m, i, k, got[i].Key, got[i].Value, val(idx))
			}
			if got[i].Version == "" {
				return vstat.V(d.Name+":version-empty", "%s: key %q is stored with an empty version", stage, k)
			}
			if other, dup := versions[got[i].Version]; dup && other != k {
				return vstat.V(d.Name+":version-not-fresh", "%s: keys %q and %q carry the same version %q", stage, other, k, got[i].Version)
			}
			versions[got[i].Version] = k
		}
		// spot check against Get
		for _, i := range []int{0, m / 2, m - 1} {
			r, err := st.Get(ctx, keys[i])
			if present[keys[i]] {
				if err != nil || r.Version != got[i].Version {
					return vstat.V(d.Name+":get-vs-getmany", "%s: Get(%q) = (version %q, %s) but GetMany reported version %q", stage, keys[i], r.Version, errName(err), got[i].Version)
				}
			} else if !isClass(err, gerrors.ErrNotExist) {
				return vstat.V(d.Name+":get-missing", "%s: Get of absent key %q returned %s", stage, keys[i], errName(err))
			}
		}
		// listing
		it, err := st.ListKeys(ctx, "b*")
		if err != nil {
			return vstat.V(d.Name+":list-error", "%s: ListKeys failed: %s", stage, errName(err))
		}
		var listed []string
		for it.HasNext() {
			k, ok := it.Next()
			if !ok {
				break
			}
			listed = append(listed, k)
		}
		it.Close()
		sort.Strings(listed)
		var want []string
		for k := range present {
			want = append(want, k)
		}
		sort.Strings(want)
		if len(listed) != len(want) {
			return vstat.V(d.Name+":list-keys", "%s: ListKeys(b*) returned %d keys, %d are present", stage, len(listed), len(want))
		}
		for i := range want {
			if listed[i] != want[i] {
				return vstat.V(d.Name+":list-keys", "%s: ListKeys(b*) differs from the present keys at sorted position %d: %q vs %q", stage, i, listed[i], want[i])
			}
		}
		return nil
	}
	if v := check("after the bulk write"); v != nil {
		return v
	}
	if c.DelMod > 0 {
		for i := 0; i < c.N; i += c.DelMod {
			if err := st.Delete(ctx, key(i)); err != nil {
				return vstat.V(d.Name+":delete-present", "Delete(%q) failed: %s", key(i), errName(err))
			}
			delete(present, key(i))
		}
		if v := check("after deleting every " + fmt.Sprint(c.DelMod) + "th key"); v != nil {
			return v
		}
	}
	return nil
}

var bulkSizes = []int{0, 1, 2, 3, 63, 64, 65, 127, 128, 129, 255, 256, 257, 499, 500, 501, 511, 512, 513, 999, 1000, 1001, 1023, 1024, 1025, 1999, 2000, 2001, 2047, 2048, 2049, 2999, 3000, 3001, 4095, 4096, 4097}

func runBulkBoth(t vstat.TB, test string, c BulkCase) {
	st := vstat.For("C03")
	for _, d := range c03Drivers(t) {
		d.reset()
		v := vstat.Guard(d.Name+":panic", func() *vstat.Violation { return runBulk(c, d) })
		st.Report(t, test, c, v)
	}
	cl := "bulk:n<=64"
	switch {
	case c.N > 1000:
		cl = "bulk:n>1000"
	case c.N > 64:
		cl = "bulk:65..1000"
	}
	st.Case(c.N > 1, vstat.Hash(c), func() any { return c }, cl)
}

func TestC03Bulk(t *testing.T) {
	shard, shards := vstat.Shard()
	// systematic: every boundary size, one call
	for i, n := range bulkSizes {
		if i%shards != shard {
			continue
		}
		if !vstat.Thorough() && n > 2100 {
			continue
		}
		runBulkBoth(t, "TestC03Bulk", BulkCase{N: n, Stride: 7, Shift: 3, Absent: n % 5, Exp: i%2 == 1, DelMod: 3})
	}
	rapid.Check(t, func(rt *rapid.T) {
		c := BulkCase{
			N:      rapid.SampledFrom(bulkSizes).Draw(rt, "n") + rapid.IntRange(-1, 1).Draw(rt, "jitter"),
			Chunk:  rapid.SampledFrom([]int{0, 0, 1, 100, 1000, 1001}).Draw(rt, "chunk"),
			Stride: rapid.IntRange(0, 5000).Draw(rt, "stride"),
			Shift:  rapid.IntRange(0, 5000).Draw(rt, "shift"),
			Absent: rapid.IntRange(0, 20).Draw(rt, "absent"),
			Exp:    rapid.Bool().Draw(rt, "exp"),
			DelMod: rapid.SampledFrom([]int{0, 2, 7, 1000}).Draw(rt, "delmod"),
		}
		if c.N < 0 {
			c.N = 0
		}
		if !vstat.Thorough() && c.N > 2100 {
			c.N = c.N % 2100
		}
		runBulkBoth(rt, "TestC03Bulk", c)
	})
}
