package p_kv

import (
	"testing"

	"github.com/acquirecloud/golibs/kvs"
	"github.com/acquirecloud/golibs/kvs/inmem"
	"pgregory.net/rapid"
	"verifharness/internal/vstat"
)

func genProgram(t *rapid.T, nkeys, maxOps int) []COp {
	kinds := []string{"create", "create", "get", "get", "put", "put", "cas", "cas", "cas", "cas", "delete", "getmany", "putmany", "putmany"}
	n := rapid.IntRange(1, maxOps).Draw(t, "nops")
	prog := make([]COp, 0, n)
	for i := 0; i < n; i++ {
		op := COp{K: rapid.SampledFrom(kinds).Draw(t, "kind"), Key: rapid.IntRange(0, nkeys-1).Draw(t, "key")}
		op.Yield = rapid.IntRange(0, 2).Draw(t, "yield")
		op.Same = rapid.IntRange(0, 3).Draw(t, "sameValue") == 0
		switch op.K {
		case "cas":
			op.Ver = rapid.SampledFrom([]int{0, 0, 0, 1, 2}).Draw(t, "ver")
			op.Exp = rapid.Bool().Draw(t, "exp")
		case "create", "put":
			op.Exp = rapid.Bool().Draw(t, "exp")
		case "getmany", "putmany":
			// a non-empty subset of the keys, no repeats (repeats are C03's business)
			mask := rapid.IntRange(1, (1<<nkeys)-1).Draw(t, "subset")
			for k := 0; k < nkeys; k++ {
				if mask&(1<<k) != 0 {
					op.Keys = append(op.Keys, k)
				}
			}
			op.Exp = rapid.Bool().Draw(t, "exp")
			if op.K == "putmany" && rapid.IntRange(0, 3).Draw(t, "mixed") == 0 {
				// a batch with per-record expiry flags in which keys may repeat (getmany keeps distinct keys)
				n := rapid.IntRange(2, 4).Draw(t, "batch")
				op.Keys, op.Exps = nil, nil
				for j := 0; j < n; j++ {
					op.Keys = append(op.Keys, rapid.IntRange(0, nkeys-1).Draw(t, "bkey"))
					op.Exps = append(op.Exps, rapid.Bool().Draw(t, "bexp"))
				}
			}
		}
		prog = append(prog, op)
	}
	return prog
}

func genCCase(t *rapid.T, backend string) CCase {
	c := genCCase0(t, backend)
	if backend == "inmem" && rapid.IntRange(0, 2).Draw(t, "pastWrites") == 0 {
		// some writes carry an expiry that has already passed: they leave the key absent (in-memory only: Redis keeps such a
		// record for its minimum TTL)
		for ti := range c.Programs {
			for oi := range c.Programs[ti] {
				op := &c.Programs[ti][oi]
				if (op.K == "put" || op.K == "create" || op.K == "cas" || (op.K == "putmany" && op.Exps == nil)) && rapid.IntRange(0, 3).Draw(t, "past") == 0 {
					op.Past, op.Exp = true, false
				}
			}
		}
	}
	return c
}

func genCCase0(t *rapid.T, backend string) CCase {
	c := CCase{Backend: backend, Slash: rapid.SampledFrom([]int{0, 0, 0, 1, 2}).Draw(t, "leadingSlashes")}
	shape := rapid.SampledFrom([]string{"mixed", "mixed", "mixed", "creators", "cas_race"}).Draw(t, "shape")
	maxT := vstat.Pick(6, 8)
	nt := rapid.IntRange(2, maxT).Draw(t, "threads")
	switch shape {
	case "creators": // everybody creates the same fresh key, nobody deletes: exactly one must win
		c.NKeys = 1
		for i := 0; i < nt; i++ {
			p := []COp{{K: "create", Yield: rapid.IntRange(0, 2).Draw(t, "yield"), Exp: rapid.Bool().Draw(t, "exp")}, {K: "get"}}
			c.Programs = append(c.Programs, p)
		}
	case "cas_race": // everybody reads the version and CASes it: at most one winner per version
		c.NKeys = 1
		c.Programs = append(c.Programs, []COp{{K: "put"}, {K: "get"}, {K: "cas"}, {K: "get"}})
		rounds := rapid.IntRange(1, 3).Draw(t, "rounds")
		for i := 1; i < nt; i++ {
			var p []COp
			for r := 0; r < rounds; r++ {
				p = append(p, COp{K: "get", Yield: rapid.IntRange(0, 2).Draw(t, "yield")}, COp{K: "cas", Exp: rapid.Bool().Draw(t, "exp")})
			}
			c.Programs = append(c.Programs, p)
		}
	default:
		c.NKeys = rapid.IntRange(1, 3).Draw(t, "nkeys")
		for i := 0; i < nt; i++ {
			c.Programs = append(c.Programs, genProgram(t, c.NKeys, vstat.Pick(8, 12)))
		}
	}
	return c
}

func storageFor(t vstat.TB, backend string) kvs.Storage {
	if backend == "inmem" {
		return inmem.New()
	}
	m, st, err := Redis()
	if err != nil {
		t.Fatalf("INFRA: cannot start miniredis: %v", err)
	}
	m.FlushAll()
	return st
}

func runC02(t vstat.TB, test string, c CCase) {
	st := vstat.For("C02")
	hist := Execute(c, storageFor(t, c.Backend))
	info, v := CheckHistory(c.Backend, hist)
	if v != nil {
		c.History = hist
		st.Report(t, test, c, v)
		return
	}
	if info.Inconclusive {
		st.Inconclusivef("porcupine gave up on a history of %d operations (not a violation)", len(hist))
	}
	cl := append(info.Classes, "backend:"+c.Backend)
	if c.Slash > 0 {
		cl = append(cl, "keys_spelled_with_leading_slashes")
	}
	// distinct = the program plus the overlap pattern actually observed
	type ov struct{ A, B int64 }
	sig := make([]ov, 0, len(hist))
	for _, h := range hist {
		sig = append(sig, ov{h.Call, h.Ret})
	}
	st.Case(info.Overlap, vstat.Hash(c)^vstat.Hash(sig), func() any {
		cc := c
		cc.History = hist
		return cc
	}, cl...)
}

func TestC02InmemRapid(t *testing.T) {
	rapid.Check(t, func(rt *rapid.T) { runC02(rt, "TestC02InmemRapid", genCCase(rt, "inmem")) })
}

func TestC02RedisRapid(t *testing.T) {
	rapid.Check(t, func(rt *rapid.T) { runC02(rt, "TestC02RedisRapid", genCCase(rt, "redis")) })
}

// replayC02 re-checks the recorded history (deterministic) and then re-executes the programs a number
// of times (the schedule is not reproducible, the programs are).
func replayC02(t *testing.T, p string) {
	var c CCase
	if _, err := vstat.LoadReplay(p, &c); err != nil {
		t.Fatalf("cannot decode %s: %v", p, err)
	}
	st := vstat.For("C02")
	if len(c.History) > 0 {
		_, v := CheckHistory(c.Backend, c.History)
		if v != nil && storageMatchesRecorded() {
			st.Report(t, "TestReplay", c, v)
		}
	}
	for i := 0; i < 300; i++ {
		cc := c
		cc.History = nil
		runC02(t, "TestReplay", cc)
	}
}

// storageMatchesRecorded: a recorded history is evidence about the tree it was recorded on; when a replay
// is run against another tree (e.g. the repaired one) only the re-execution counts.
func storageMatchesRecorded() bool { return vstat.EnvInt("VERIF_REPLAY_TRUST_HISTORY", 0) == 1 }

// ---------------------------------------------------------------------------------------------
// wire-scheduled histories over the Redis backend (see wiresched.go)

func genSchedCase(t *rapid.T) SchedCase {
	var c SchedCase
	c.Backend = "redis"
	c.Slash = rapid.SampledFrom([]int{0, 0, 1, 2}).Draw(t, "leadingSlashes")
	shape := rapid.SampledFrom([]string{"mixed", "mixed", "pairs", "creators", "cas_race"}).Draw(t, "shape")
	nt := rapid.IntRange(2, 4).Draw(t, "threads")
	switch shape {
	case "creators":
		c.NKeys = 1
		for i := 0; i < nt; i++ {
			p := []COp{{K: rapid.SampledFrom([]string{"create", "create", "delete", "put"}).Draw(t, "k"), Exp: rapid.Bool().Draw(t, "exp")}, {K: "get"}}
			if i == 0 {
				p = append([]COp{{K: "put"}}, p...)
			}
			c.Programs = append(c.Programs, p)
		}
	case "cas_race":
		c.NKeys = 1
		c.Programs = append(c.Programs, []COp{{K: "put"}, {K: "get"}, {K: "cas"}, {K: "get"}})
		for i := 1; i < nt; i++ {
			c.Programs = append(c.Programs, []COp{{K: "get"}, {K: rapid.SampledFrom([]string{"cas", "cas", "put", "delete", "create"}).Draw(t, "k"), Exp: rapid.Bool().Draw(t, "exp")}, {K: "get"}})
		}
	case "pairs": // two single calls against each other on a prepared key
		c.NKeys = 1
		nt = 2
		kinds := []string{"create", "put", "cas", "delete", "get", "putmany", "getmany"}
		for i := 0; i < 2; i++ {
			op := COp{K: rapid.SampledFrom(kinds).Draw(t, "k"), Exp: rapid.Bool().Draw(t, "exp"), Keys: []int{0}}
			p := []COp{op}
			if op.K == "cas" {
				p = []COp{{K: "get"}, op}
			}
			if i == 0 && rapid.Bool().Draw(t, "prepared") {
				p = append([]COp{{K: "put"}}, p...)
			}
			c.Programs = append(c.Programs, p)
		}
	default:
		c.NKeys = rapid.IntRange(1, 2).Draw(t, "nkeys")
		for i := 0; i < nt; i++ {
			c.Programs = append(c.Programs, genProgram(t, c.NKeys, 4))
		}
	}
	// in a third of the cases some writes carry an expiry 1 ms ahead: miniredis is not aged here, so such a record stays in
	// Redis with an ExpiresAt in the past (what a server with a lagging clock holds); later writes without expiry must stick
	if rapid.IntRange(0, 2).Draw(t, "lagging") == 0 {
		for ti := range c.Programs {
			for oi := range c.Programs[ti] {
				op := &c.Programs[ti][oi]
				if (op.K == "put" || op.K == "create" || op.K == "cas") && rapid.IntRange(0, 2).Draw(t, "short") == 0 {
					op.Short, op.Exp = true, false
				}
			}
		}
	}
	c.Order = rapid.SliceOfN(rapid.IntRange(0, 11), 0, 60).Draw(t, "order")
	return c
}

func runC02Wire(t vstat.TB, test string, c SchedCase) {
	st := vstat.For("C02")
	hist, cmdlog, v := RunWireSched(c)
	var info CInfo
	if v == nil {
		info, v = CheckHistory("redis", hist)
	}
	if v != nil {
		c.History = hist
		v.Msg += "\n  redis commands in the order they were let through: " + joinMax(cmdlog, 120)
		st.Report(t, test, c, v)
		return
	}
	if info.Inconclusive {
		st.Inconclusivef("porcupine gave up on a history of %d operations (not a violation)", len(hist))
	}
	cl := append(info.Classes, "backend:redis", "wire_scheduled")
	if c.Slash > 0 {
		cl = append(cl, "keys_spelled_with_leading_slashes")
	}
	// non-trivial: commands of different threads really alternated inside a multi-command call
	switches := 0
	for i := 1; i < len(cmdlog); i++ {
		if cmdlog[i][:2] != cmdlog[i-1][:2] {
			switches++
		}
	}
	st.Case(info.Overlap && switches >= 2, vstat.Hash(c), func() any { return c }, cl...)
	st.AddExtra("wire_commands_scheduled", int64(len(cmdlog)))
}

func joinMax(xs []string, n int) string {
	if len(xs) > n {
		xs = append(append([]string{}, xs[:n]...), "...")
	}
	out := ""
	for i, x := range xs {
		if i > 0 {
			out += " "
		}
		out += x
	}
	return out
}

func TestC02RedisWire(t *testing.T) {
	rapid.Check(t, func(rt *rapid.T) { runC02Wire(rt, "TestC02RedisWire", genSchedCase(rt)) })
}
