package p_kv

import (
	"context"
	"fmt"
	"sort"
	"sync"
	"time"

	gerrors "github.com/acquirecloud/golibs/errors"
	"github.com/acquirecloud/golibs/kvs"
	"verifharness/internal/vstat"
)

// ---------------------------------------------------------------------------------------------
// C07: WaitForVersionChange scripts

// WOp is one step of a waiter script.
type WOp struct {
	K    string `json:"k"` // start cancel put putmany casok casbad delete create advance
	Key  int    `json:"key,omitempty"`
	W    int    `json:"w,omitempty"`    // cancel: index into the live waiters (modulo)
	Ver  int    `json:"ver,omitempty"`  // start: 0 current version, 1 a stale version, 2 unknown (garbage) version, 4.. a near miss of the current version (other letter case, blanks, one character off)
	Pre  bool   `json:"pre,omitempty"`  // start: the context is already cancelled
	Gate bool   `json:"gate,omitempty"` // start: the waiter is held at its first ctx.Done() (after it registered, before it parks) until an "ungate" step
	Two  bool   `json:"two,omitempty"`  // putmany: both keys
	Exp  bool   `json:"exp,omitempty"`  // write with expiry +1h (only where the clock is controlled)
	Past bool   `json:"past,omitempty"` // write a record whose expiry is already in the past: the key is gone for every waiter (in-memory only)
	Min  int    `json:"min,omitempty"`  // advance
	// Journal (put, casok): the value written is what the storage held for the key just before (the raw stored bytes where the
	// environment can read them, else the previous version string): a writer that keeps the previous record as undo information
	Journal bool `json:"journal,omitempty"`
	// Lag (put, where the server's clock does not follow the real one): the record carries an expiry a few milliseconds ahead
	// of the CLIENT's clock and real time then passes it, while the server, whose clock lags, keeps and serves the
	// record: for every waiter the key exists
	Lag   bool `json:"lag,omitempty"`
	Quiet int  `json:"quiet,omitempty"` // quiet: nothing happens for that many milliseconds (real time where the clock is real)
}

// WCase is a waiter script.
type WCase struct {
	Ops []WOp `json:"ops"`
}

// WEnv is where a script runs.
type WEnv struct {
	Name          string
	St            kvs.Storage
	Prefix        string
	Settle        func(mustReturn []chan struct{}) bool // reach quiescence; false = a waiter that must return did not (bounded real time only)
	Advance       func(time.Duration)                   // nil: no clock control (advance/Exp are skipped)
	Now           func() time.Time
	Table         func() (int, int, bool)
	Gates         bool                    // gated starts are possible (deterministic environment only)
	Fault         func()                  // makes the storage behind the backend fail for a moment (nil: not available)
	PastWrites    bool                    // records may be written with an expiry that is already in the past (backends without TTL clamping)
	LaggingServer bool                    // the storage's server ages records by its own clock, which stands still unless Advance is called
	Raw           func(key string) []byte // the bytes the storage behind the backend holds for the key (nil: not readable)
	Quiet         func(time.Duration)     // lets time pass with nothing happening (nil: time.Sleep)
}

type wkey struct {
	exists bool
	gen    int
	ver    string
	old    []string
	hasExp bool
	expAt  time.Duration
}

// gateCtx parks the goroutine that asks for Done() the first time - inside WaitForVersionChange that is the moment
// between the registration of the waiter and its select - until the script lets it go.
type gateCtx struct {
	context.Context
	once    sync.Once
	reached chan struct{}
	gate    chan struct{}
}

func (g *gateCtx) Done() <-chan struct{} {
	g.once.Do(func() {
		close(g.reached)
		<-g.gate
	})
	return g.Context.Done()
}

type wtr struct {
	gctx      *gateCtx // nil: not gated
	gated     bool     // currently held at the gate
	id        int
	key       int
	argGen    int // generation the version argument belongs to; -1 = matches nothing
	cancelled bool
	cancel    context.CancelFunc
	done      chan struct{}
	err       error
}

// WInfo classifies a script.
type WInfo struct {
	CancelBesideParked bool // a waiter was cancelled while another one on the same key stayed parked
	MultiWake          bool // one mutation woke >= 2 waiters
	Classes            map[string]bool
}

func (i *WInfo) class(c string) {
	if i.Classes == nil {
		i.Classes = map[string]bool{}
	}
	i.Classes[c] = true
}

// ClassList for the histogram.
func (i *WInfo) ClassList() []string {
	var r []string
	for c := range i.Classes {
		r = append(r, c)
	}
	sort.Strings(r)
	return r
}

// RunWait plays the script and checks the exact expectation for every waiter after every step.
func RunWait(c WCase, env *WEnv) (info WInfo, v *vstat.Violation) {
	var live []*wtr
	v = vstat.Guard(env.Name+":wait-panic", func() *vstat.Violation { return runWait(c, env, &info, &live) })
	// teardown: nobody may be left parked
	var chans []chan struct{}
	for _, w := range live {
		w.cancel()
		if w.gated {
			w.gated = false
			close(w.gctx.gate)
		}
		chans = append(chans, w.done)
	}
	if ok := env.Settle(chans); !ok && v == nil {
		v = vstat.V(env.Name+":wait-ignores-cancel", "a WaitForVersionChange did not return after its context was cancelled")
	}
	if v == nil && env.Table != nil {
		if e, n, ok := env.Table(); ok && (e != 0 || n != 0) {
			v = vstat.V(env.Name+":waiter-table-residue", "all waiters are gone but the waiter table still has %d entries / %d waiters", e, n)
		}
	}
	return
}

func runWait(c WCase, env *WEnv, info *WInfo, livep *[]*wtr) *vstat.Violation {
	ctx := context.Background()
	keys := [2]*wkey{{}, {}}
	name := func(k int) string { return env.Prefix + []string{"wa", "wb"}[k] }
	elapsed := time.Duration(0)
	alive := func(k int) bool {
		s := keys[k]
		if s.exists && s.hasExp && s.expAt < elapsed {
			s.exists = false
		}
		return s.exists
	}
	nextID := 0
	pastNow := false
	wrote := func(k int, ver string, exp bool) {
		if exp && pastNow {
			// the record was written already expired: as if the key had been deleted
			keys[k].exists = false
			if keys[k].ver != "" {
				keys[k].old = append(keys[k].old, keys[k].ver)
			}
			keys[k].ver = ""
			keys[k].gen++
			return
		}
		s := keys[k]
		if s.ver != "" {
			s.old = append(s.old, s.ver)
		}
		s.exists, s.ver = true, ver
		s.gen++
		s.hasExp = exp
		if exp {
			s.expAt = elapsed + time.Hour
		}
	}
	expiry := func(exp bool) *time.Time {
		if !exp || env.Advance == nil {
			return nil
		}
		t := env.Now().Add(time.Hour)
		if pastNow {
			t = env.Now().Add(-time.Hour)
		}
		return &t
	}
	readVer := func(k int) (string, *vstat.Violation) {
		r, err := env.St.Get(ctx, name(k))
		if err != nil {
			return "", vstat.V(env.Name+":get-after-write", "Get(%q) right after a write failed: %s", name(k), errName(err))
		}
		return r.Version, nil
	}
	value := func(op WOp, k int, plain string) []byte {
		if !op.Journal {
			return []byte(plain)
		}
		info.class("journal_value_holds_previous_record")
		if env.Raw != nil {
			if b := env.Raw(name(k)); len(b) > 0 {
				return b
			}
		}
		return []byte("undo:" + keys[k].ver)
	}
	for i, op := range c.Ops {
		where := fmt.Sprintf("step #%d %s", i, describeW(op))
		k := op.Key & 1
		cause := op.K
		faulted := false
		pastNow = op.Past && env.PastWrites && env.Advance != nil
		switch op.K {
		case "start":
			if len(*livep) >= 4 {
				continue
			}
			s := keys[k]
			w := &wtr{id: nextID, key: k, argGen: -1, done: make(chan struct{})}
			nextID++
			arg := garbageVer
			switch {
			case op.Ver == 0 && alive(k) && s.ver != "":
				arg, w.argGen = s.ver, s.gen
			case op.Ver == 1 && len(s.old) > 0:
				arg = s.old[len(s.old)-1]
			case op.Ver == 3:
				arg = "" // the empty version: never the version of a record
				info.class("empty_version")
			case op.Ver >= 4 && alive(k) && s.ver != "":
				arg = NearMiss(s.ver, op.Ver-4)
				info.class("near_miss_version")
			}
			wctx, cancel := context.WithCancel(ctx)
			w.cancel = cancel
			if op.Pre {
				cancel()
				w.cancelled = true
			}
			var use context.Context = wctx
			if op.Gate && env.Gates {
				w.gctx = &gateCtx{Context: wctx, reached: make(chan struct{}), gate: make(chan struct{})}
				use = w.gctx
				info.class("gated_waiter")
			}
			key := name(k)
			go func() {
				w.err = env.St.WaitForVersionChange(use, key, arg)
				close(w.done)
			}()
			*livep = append(*livep, w)
			cause = "immediate"
		case "fault":
			if env.Fault == nil {
				continue
			}
			env.Fault() // every storage command fails for a short while; waiters that poll meanwhile see an error
			faulted = true
			info.class("storage_fault_while_waiting")
		case "ungate":
			var held []*wtr
			for _, w := range *livep {
				if w.gated {
					held = append(held, w)
				}
			}
			if len(held) == 0 {
				continue
			}
			w := held[op.W%len(held)]
			w.gated = false
			close(w.gctx.gate)
			cause = "ungate"
		case "cancel":
			if len(*livep) == 0 {
				continue
			}
			w := (*livep)[op.W%len(*livep)]
			w.cancel()
			w.cancelled = true
			for _, o := range *livep {
				if o != w && o.key == w.key && !o.cancelled {
					info.CancelBesideParked = true
				}
			}
		case "put":
			exp := (op.Exp || pastNow) && env.Advance != nil
			if op.Lag && env.LaggingServer && !pastNow {
				t := env.Now().Add(15 * time.Millisecond)
				r, err := env.St.Put(ctx, kvs.Record{Key: name(k), Value: value(op, k, "p"), ExpiresAt: &t})
				if err != nil {
					return vstat.V(env.Name+":put-error", "%s: Put failed: %s", where, errName(err))
				}
				time.Sleep(time.Until(t) + 10*time.Millisecond)
				if _, err := env.St.Get(ctx, name(k)); err != nil {
					return vstat.V(env.Name+":wait-harness", "internal: the lagging server does not serve the record any more: %s", errName(err))
				}
				info.class("record_expired_by_the_client_clock_served_by_a_lagging_server")
				// the server keeps it as long as ITS clock stands still: the first advance of the server clock (minutes) drops it
				wrote(k, r.Version, false)
				keys[k].hasExp, keys[k].expAt = true, elapsed+15*time.Millisecond
				break
			}
			r, err := env.St.Put(ctx, kvs.Record{Key: name(k), Value: value(op, k, "p"), ExpiresAt: expiry(exp)})
			if err != nil {
				return vstat.V(env.Name+":put-error", "%s: Put failed: %s", where, errName(err))
			}
			wrote(k, r.Version, exp)
		case "putmany":
			ks := []int{k}
			if op.Two {
				ks = []int{0, 1}
			}
			exp := (op.Exp || pastNow) && env.Advance != nil
			var recs []kvs.Record
			for _, kk := range ks {
				recs = append(recs, kvs.Record{Key: name(kk), Value: []byte("m"), ExpiresAt: expiry(exp)})
			}
			if err := env.St.PutMany(ctx, recs); err != nil {
				return vstat.V(env.Name+":putmany-error", "%s: PutMany failed: %s", where, errName(err))
			}
			for _, kk := range ks {
				if pastNow {
					wrote(kk, "", exp)
					continue
				}
				ver, v := readVer(kk)
				if v != nil {
					return v
				}
				wrote(kk, ver, exp)
			}
		case "casok", "casbad":
			if !alive(k) {
				continue
			}
			s := keys[k]
			arg := s.ver
			if op.K == "casbad" {
				arg = garbageVer
			}
			exp := (op.Exp || (pastNow && op.K == "casok")) && env.Advance != nil
			r, err := env.St.CasByVersion(ctx, kvs.Record{Key: name(k), Value: value(op, k, "c"), Version: arg, ExpiresAt: expiry(exp)})
			if op.K == "casbad" {
				if !isClass(err, gerrors.ErrConflict) {
					return vstat.V(env.Name+":cas-conflict", "%s: CasByVersion with a wrong version returned %s", where, errName(err))
				}
			} else {
				if err != nil {
					return vstat.V(env.Name+":cas-match", "%s: CasByVersion with the current version failed: %s", where, errName(err))
				}
				wrote(k, r.Version, exp)
			}
		case "delete":
			err := env.St.Delete(ctx, name(k))
			if alive(k) {
				if err != nil {
					return vstat.V(env.Name+":delete-present", "%s: Delete failed: %s", where, errName(err))
				}
				keys[k].exists = false
				keys[k].old = append(keys[k].old, keys[k].ver)
				keys[k].ver = ""
			}
		case "create":
			if alive(k) {
				continue
			}
			exp := op.Exp && env.Advance != nil
			ver, err := env.St.Create(ctx, kvs.Record{Key: name(k), Value: []byte("n"), ExpiresAt: expiry(exp)})
			if err != nil {
				return vstat.V(env.Name+":create-on-absent", "%s: Create on an absent key failed: %s", where, errName(err))
			}
			wrote(k, ver, exp)
		case "quiet":
			d := time.Duration(op.Quiet) * time.Millisecond
			if env.Quiet != nil {
				env.Quiet(d)
			} else {
				time.Sleep(d) // the clock of the storage moves along
				elapsed += d
			}
			if len(*livep) > 0 {
				info.class("quiet_period_with_parked_waiters")
			}
			cause = "nothing"
		case "advance":
			if env.Advance == nil {
				continue
			}
			adv := time.Duration(op.Min) * time.Minute
			for _, s := range keys {
				if s.exists && s.hasExp && s.expAt == elapsed+adv {
					adv += time.Minute
				}
			}
			elapsed += adv
			env.Advance(adv)
			cause = "expiry"
		default:
			panic("bad op " + op.K)
		}

		if pastNow && (op.K == "put" || op.K == "putmany" || op.K == "casok") {
			cause = "write_of_expired_record"
		}
		// expectation for every live waiter
		var must []chan struct{}
		for _, w := range *livep {
			if !w.gated && !(op.K == "start" && w.gctx != nil && w == (*livep)[len(*livep)-1]) && (w.cancelled || !alive(w.key) || keys[w.key].gen != w.argGen) {
				must = append(must, w.done)
			}
		}
		if !env.Settle(must) {
			return vstat.V(env.Name+":wait-not-woken", "after %s: a WaitForVersionChange that must return (key absent, version changed or context cancelled) is still blocked", where)
		}
		keep := (*livep)[:0]
		woken := 0
		for _, w := range *livep {
			if w.gctx != nil && !w.gated && op.K == "start" && w == (*livep)[len(*livep)-1] {
				// a gated start: either the call returned before it ever looked at the context, or it sits at the gate now
				select {
				case <-w.gctx.reached:
					w.gated = true
				default:
				}
			}
			if w.gated {
				select {
				case <-w.done:
					return vstat.V(env.Name+":wait-harness", "internal: a gated waiter returned")
				default:
				}
				keep = append(keep, w)
				continue
			}
			absent := !alive(w.key)
			changed := !absent && keys[w.key].gen != w.argGen
			returned := false
			select {
			case <-w.done:
				returned = true
			default:
			}
			if !(absent || changed || w.cancelled) {
				if returned && faulted && w.err != nil && !isClass(w.err, gerrors.ErrNotExist) && !gerrors.Is(w.err, context.Canceled) {
					w.cancel()
					info.class("waiter_gave_up_on_storage_error")
					continue // legitimate: it reports the storage's error, it does not claim a change
				}
				if returned {
					return vstat.V(env.Name+":wait-spurious", "after %s: waiter #%d on %q returned %s although the key exists with the awaited version and its context is live", where, w.id, name(w.key), errName(w.err))
				}
				keep = append(keep, w)
				continue
			}
			if !returned {
				return vstat.V(env.Name+":wait-not-woken", "after %s: waiter #%d on %q is still blocked (absent=%v changed=%v cancelled=%v)", where, w.id, name(w.key), absent, changed, w.cancelled)
			}
			ok := (w.err == nil && changed) || (absent && isClass(w.err, gerrors.ErrNotExist)) ||
				(w.cancelled && w.err != nil && (w.err == context.Canceled || gerrors.Is(w.err, context.Canceled)))
			if !ok && faulted && w.err != nil && !isClass(w.err, gerrors.ErrNotExist) && !gerrors.Is(w.err, context.Canceled) {
				ok = true // the waiter gave up with the storage's own error: not one of the three verdicts, nothing is claimed
			}
			if !ok {
				return vstat.V(env.Name+":wait-result", "after %s: waiter #%d on %q returned %s but absent=%v changed=%v cancelled=%v", where, w.id, name(w.key), errName(w.err), absent, changed, w.cancelled)
			}
			w.cancel()
			if cause != "cancel" && cause != "immediate" {
				woken++
			}
			info.class("woken_by:" + cause)
		}
		*livep = keep
		if woken >= 2 {
			info.MultiWake = true
		}
		// bookkeeping of the in-memory backend: exactly the parked waiters are registered
		if env.Table != nil {
			if e, n, ok := env.Table(); ok {
				parkedKeys := map[int]bool{}
				parked, atGate := 0, 0
				for _, w := range keep {
					parkedKeys[w.key] = true
					if w.gated {
						atGate++ // registered when it reached the gate; its record may have been notified and dropped since
					} else {
						parked++
					}
				}
				if n < parked || n > parked+atGate || e > len(parkedKeys) {
					return vstat.V(env.Name+":waiter-table", "after %s: %d waiters are parked (+%d held between registration and parking) on %d keys but the waiter table has %d entries / %d waiters", where, parked, atGate, len(parkedKeys), e, n)
				}
			}
		}
	}
	return nil
}

func describeW(o WOp) string {
	switch o.K {
	case "start":
		return fmt.Sprintf("start(key%d,ver%d,precancelled=%v,gated=%v)", o.Key&1, o.Ver, o.Pre, o.Gate)
	case "cancel":
		return fmt.Sprintf("cancel(%d)", o.W)
	case "ungate":
		return fmt.Sprintf("ungate(%d)", o.W)
	case "fault":
		return "storage-fault"
	case "advance":
		return fmt.Sprintf("advance(%dmin)", o.Min)
	case "quiet":
		return fmt.Sprintf("quiet(%dms)", o.Quiet)
	case "putmany":
		return fmt.Sprintf("putmany(key%d,two=%v,exp=%v)", o.Key&1, o.Two, o.Exp)
	}
	if o.Journal {
		return fmt.Sprintf("%s(key%d,exp=%v,value=previous stored record)", o.K, o.Key&1, o.Exp)
	}
	return fmt.Sprintf("%s(key%d,exp=%v)", o.K, o.Key&1, o.Exp)
}
