package p_kv

import (
	"bytes"
	"context"
	"fmt"
	"net"
	"strconv"
	"strings"
	"sync"
)

// A Redis server may answer SCAN in any number of pages, empty ones included (a MATCH pattern over sparse matches does that
// all the time); miniredis always answers in one page with cursor 0. The pager sits in the client's connection (go-redis
// lets the caller supply it: Options.Dialer), forwards the first SCAN of a listing to the server, cuts the answer into pages
// - which pages is a pure function of the answer - and serves the continuation cursors itself. Everything else passes through.

type scanPager struct {
	mu    sync.Mutex
	next  uint64
	pages map[string][]byte // continuation cursor -> complete RESP reply
	Cut   int64             // listings that were cut into several pages
	Empty int64             // empty pages served with a non-zero cursor
}

func newScanPager() *scanPager { return &scanPager{next: 7000, pages: map[string][]byte{}} }

func (p *scanPager) dialer() func(ctx context.Context, network, addr string) (net.Conn, error) {
	return func(ctx context.Context, network, addr string) (net.Conn, error) {
		cn, err := (&net.Dialer{}).DialContext(ctx, network, addr)
		if err != nil {
			return nil, err
		}
		return &pagerConn{Conn: cn, p: p}, nil
	}
}

type pagerConn struct {
	net.Conn
	p        *scanPager
	pending  []byte // a reply made up here, to be handed out by Read
	fromScan bool   // the next reply of the server answers a forwarded "SCAN 0"
}

// scanCursor returns the cursor argument when b is exactly one SCAN command.
func scanCursor(b []byte) (string, bool) {
	head := b
	if len(head) > 24 {
		head = head[:24]
	}
	if !bytes.Contains(bytes.ToLower(head), []byte("scan")) {
		return "", false
	}
	args := respArgs(b)
	if len(args) < 2 || strings.ToLower(args[0]) != "scan" {
		return "", false
	}
	return args[1], true
}

// respArgs decodes one RESP array of bulk strings (nil if b is anything else or holds more than that).
func respArgs(b []byte) []string {
	if len(b) == 0 || b[0] != '*' {
		return nil
	}
	i := bytes.Index(b, []byte("\r\n"))
	if i < 0 {
		return nil
	}
	n, err := strconv.Atoi(string(b[1:i]))
	if err != nil {
		return nil
	}
	b = b[i+2:]
	var out []string
	for k := 0; k < n; k++ {
		if len(b) == 0 || b[0] != '$' {
			return nil
		}
		i = bytes.Index(b, []byte("\r\n"))
		if i < 0 {
			return nil
		}
		l, err := strconv.Atoi(string(b[1:i]))
		if err != nil || len(b) < i+2+l+2 {
			return nil
		}
		out = append(out, string(b[i+2:i+2+l]))
		b = b[i+2+l+2:]
	}
	if len(b) != 0 {
		return nil
	}
	return out
}

func scanReply(cursor string, keys []string) []byte {
	var w bytes.Buffer
	fmt.Fprintf(&w, "*2\r\n$%d\r\n%s\r\n*%d\r\n", len(cursor), cursor, len(keys))
	for _, k := range keys {
		fmt.Fprintf(&w, "$%d\r\n%s\r\n", len(k), k)
	}
	return w.Bytes()
}

// parseScanReply decodes a complete SCAN reply; ok=false while it is incomplete (or not one).
func parseScanReply(b []byte) (cursor string, keys []string, ok bool) {
	if !bytes.HasPrefix(b, []byte("*2\r\n$")) {
		return "", nil, false
	}
	rest := b[4:]
	bulk := func() (string, bool) {
		if len(rest) == 0 || rest[0] != '$' {
			return "", false
		}
		i := bytes.Index(rest, []byte("\r\n"))
		if i < 0 {
			return "", false
		}
		l, err := strconv.Atoi(string(rest[1:i]))
		if err != nil || len(rest) < i+2+l+2 {
			return "", false
		}
		s := string(rest[i+2 : i+2+l])
		rest = rest[i+2+l+2:]
		return s, true
	}
	cursor, ok = bulk()
	if !ok || len(rest) == 0 || rest[0] != '*' {
		return "", nil, false
	}
	i := bytes.Index(rest, []byte("\r\n"))
	if i < 0 {
		return "", nil, false
	}
	n, err := strconv.Atoi(string(rest[1:i]))
	if err != nil {
		return "", nil, false
	}
	rest = rest[i+2:]
	for k := 0; k < n; k++ {
		s, ok := bulk()
		if !ok {
			return "", nil, false
		}
		keys = append(keys, s)
	}
	return cursor, keys, len(rest) == 0
}

func (c *pagerConn) Write(b []byte) (int, error) {
	cur, isScan := scanCursor(b)
	if !isScan {
		return c.Conn.Write(b)
	}
	if cur == "0" {
		c.fromScan = true
		return c.Conn.Write(b)
	}
	// a continuation cursor: answered from the pages cut earlier
	c.p.mu.Lock()
	rep, ok := c.p.pages[cur]
	delete(c.p.pages, cur)
	c.p.mu.Unlock()
	if !ok {
		rep = []byte("-ERR invalid cursor\r\n")
	}
	c.pending = append(c.pending, rep...)
	return len(b), nil
}

func (c *pagerConn) Read(b []byte) (int, error) {
	if len(c.pending) == 0 && c.fromScan {
		c.fromScan = false
		var buf []byte
		tmp := make([]byte, 64<<10)
		for {
			n, err := c.Conn.Read(tmp)
			buf = append(buf, tmp[:n]...)
			if cursor, keys, ok := parseScanReply(buf); ok {
				c.pending = c.p.cut(cursor, keys, buf)
				break
			}
			if err != nil {
				return 0, err
			}
			if len(buf) > 0 && buf[0] != '*' { // an error reply or anything unexpected: hand it on
				c.pending = buf
				break
			}
		}
	}
	if len(c.pending) > 0 {
		n := copy(b, c.pending)
		c.pending = c.pending[n:]
		return n, nil
	}
	return c.Conn.Read(b)
}

// cut turns the server's one-page answer into pages; returns the first page's reply.
func (p *scanPager) cut(cursor string, keys []string, whole []byte) []byte {
	if cursor != "0" || len(keys) == 0 {
		return whole
	}
	var plan [][]string
	switch (len(keys) + len(keys[0])) % 3 {
	case 0:
		return whole
	case 1: // one key, an empty page, the rest
		plan = [][]string{keys[:1], {}, keys[1:]}
	default: // an empty page first, all but the last key, two empty pages, the last key
		plan = [][]string{{}, keys[:len(keys)-1], {}, {}, keys[len(keys)-1:]}
	}
	p.mu.Lock()
	defer p.mu.Unlock()
	p.Cut++
	ids := make([]string, len(plan))
	for i := 1; i < len(plan); i++ {
		p.next++
		ids[i] = strconv.FormatUint(p.next, 10)
	}
	for i := len(plan) - 1; i >= 1; i-- {
		nxt := "0"
		if i+1 < len(plan) {
			nxt = ids[i+1]
		}
		if len(plan[i]) == 0 && nxt != "0" {
			p.Empty++
		}
		p.pages[ids[i]] = scanReply(nxt, plan[i])
	}
	if len(plan[0]) == 0 {
		p.Empty++
	}
	return scanReply(ids[1], plan[0])
}
