package p_kv

import (
	"context"
	"fmt"
	"runtime"
	"sync"
	"sync/atomic"
	"testing"
	"time"

	gerrors "github.com/acquirecloud/golibs/errors"
	"github.com/acquirecloud/golibs/kvs"
	"pgregory.net/rapid"
	"verifharness/internal/vstat"
)

// ---------------------------------------------------------------------------------------------
// C03: the in-memory backend alone against the model, with records written already expired
// (Redis cannot take part: it clamps TTLs to >= 1 ms)

func TestC03InmemExpired(t *testing.T) {
	st := vstat.For("C03")
	rapid.Check(t, func(rt *rapid.T) {
		c := genSeq(rt, genOpts{maxLen: vstat.Pick(30, 50), bornExpired: true})
		info, v := RunSeq(c, []*Driver{InmemDriver()})
		st.Report(rt, "TestC03InmemExpired", c, v)
		cl := append(info.ClassList(), "unit:inmem_with_born_expired_records")
		st.Case(info.HitExisting, vstat.Hash(c)^0x5eed, func() any { return c }, cl...)
	})
}

// ---------------------------------------------------------------------------------------------
// C02 hammer: tight races on one key with direct winner counters (no checker) - the brute-force probe of
// interleavings inside one storage call, which the program-level generator reaches only by luck.

// HammerCase is the generated configuration.
type HammerCase struct {
	Backend string `json:"backend"`
	Kind    string `json:"kind"` // create | cas | createdelete
	Threads int    `json:"threads"`
	Rounds  int    `json:"rounds"`
	Yield   bool   `json:"yield"` // pass a context whose Err()/Done() yield the processor
}

// yieldCtx widens the window wherever the backend consults the context in the middle of an operation.
type yieldCtx struct{ context.Context }

func (y yieldCtx) Err() error {
	runtime.Gosched()
	return y.Context.Err()
}

type spinBarrier struct {
	n     int64
	count atomic.Int64
	gen   atomic.Int64
	abort atomic.Bool
}

// wait returns false when the run was aborted.
func (b *spinBarrier) wait() bool {
	g := b.gen.Load()
	if b.count.Add(1) == b.n {
		b.count.Store(0)
		b.gen.Add(1)
		return !b.abort.Load()
	}
	for b.gen.Load() == g {
		if b.abort.Load() {
			return false
		}
		runtime.Gosched()
	}
	return !b.abort.Load()
}

func runHammer(c HammerCase, st kvs.Storage) *vstat.Violation {
	ctx := context.Background()
	var octx context.Context = ctx
	if c.Yield {
		octx = yieldCtx{ctx}
	}
	bar := &spinBarrier{n: int64(c.Threads)}
	var viol atomic.Pointer[vstat.Violation]
	fail := func(v *vstat.Violation) {
		viol.CompareAndSwap(nil, v)
		bar.abort.Store(true)
	}
	wins := make([]atomic.Int32, c.Rounds)
	vers := make([]atomic.Value, c.Rounds+1)
	if c.Kind == "cas" {
		r, err := st.Put(ctx, kvs.Record{Key: "hammer", Value: []byte("0")})
		if err != nil {
			return vstat.V(c.Backend+":put-error", "Put failed: %v", err)
		}
		vers[0].Store(r.Version)
	}
	var wg sync.WaitGroup
	for ti := 0; ti < c.Threads; ti++ {
		wg.Add(1)
		go func(ti int) {
			defer wg.Done()
			defer func() {
				if p := recover(); p != nil {
					fail(vstat.V(c.Backend+":panic", "thread %d panicked: %v", ti, p))
				}
			}()
			for r := 0; r < c.Rounds; r++ {
				if !bar.wait() { // everybody starts round r together
					return
				}
				switch c.Kind {
				case "create":
					key := fmt.Sprintf("hk%d", r)
					_, err := st.Create(octx, kvs.Record{Key: key, Value: []byte{byte(ti)}})
					switch {
					case err == nil:
						wins[r].Add(1)
					case gerrors.Is(err, gerrors.ErrExist):
					default:
						fail(vstat.V(c.Backend+":undocumented-outcome:create", "round %d: Create returned %v", r, err))
					}
				case "cas":
					ver, _ := vers[r].Load().(string) // the version that won the previous round
					res, err := st.CasByVersion(octx, kvs.Record{Key: "hammer", Value: []byte{byte(ti)}, Version: ver})
					switch {
					case err == nil:
						if wins[r].Add(1) == 1 {
							vers[r+1].Store(res.Version)
						}
					case gerrors.Is(err, gerrors.ErrConflict):
					default:
						fail(vstat.V(c.Backend+":undocumented-outcome:cas", "round %d: CasByVersion returned %v", r, err))
					}
				}
				if !bar.wait() { // end of round: the winner's version is published
					return
				}
				if c.Kind == "cas" && vers[r+1].Load() == nil {
					fail(vstat.V(c.Backend+":cas-no-winner", "round %d: none of %d CasByVersion calls against the current version succeeded", r, c.Threads))
					return
				}
			}
		}(ti)
	}
	wg.Wait()
	if v := viol.Load(); v != nil {
		return v
	}
	for r := 0; r < c.Rounds; r++ {
		w := wins[r].Load()
		switch c.Kind {
		case "create":
			if w != 1 {
				return vstat.V(c.Backend+":create-two-winners", "round %d: %d of %d racing Create calls on one fresh key succeeded (want exactly 1)", r, w, c.Threads)
			}
		case "cas":
			if w > 1 {
				return vstat.V(c.Backend+":cas-two-winners", "round %d: %d racing CasByVersion calls against one version succeeded", r, w)
			}
		}
	}
	return nil
}

func TestC02Hammer(t *testing.T) {
	st := vstat.For("C02")
	rapid.Check(t, func(rt *rapid.T) {
		c := HammerCase{
			Backend: rapid.SampledFrom([]string{"inmem", "inmem", "inmem", "redis"}).Draw(rt, "backend"),
			Kind:    rapid.SampledFrom([]string{"create", "create", "cas"}).Draw(rt, "kind"),
			Threads: rapid.IntRange(2, 8).Draw(rt, "threads"),
			Yield:   rapid.Bool().Draw(rt, "yield"),
		}
		c.Rounds = rapid.IntRange(200, vstat.Pick(1500, 4000)).Draw(rt, "rounds")
		if c.Backend == "redis" {
			c.Rounds = rapid.IntRange(20, vstat.Pick(150, 500)).Draw(rt, "redisRounds")
		}
		v := runHammer(c, storageFor(rt, c.Backend))
		st.Report(rt, "TestC02Hammer", c, v)
		st.Case(true, vstat.Hash(c), func() any { return c }, "hammer:"+c.Kind+":"+c.Backend)
		st.AddExtra("hammer_race_rounds", int64(c.Rounds))
	})
}

// ---------------------------------------------------------------------------------------------
// C07 hammer: a waiter registering while a writer changes the key, thousands of times. After the write
// has returned the waiter must return nil (the version differs) within a generous bound.

type WaitHammerCase struct {
	Pairs  int  `json:"pairs"`
	Rounds int  `json:"rounds"`
	Yields int  `json:"yields"`
	Cas    bool `json:"cas"`
}

func runWaitHammer(c WaitHammerCase, st kvs.Storage) *vstat.Violation {
	ctx := context.Background()
	var viol atomic.Pointer[vstat.Violation]
	var wg sync.WaitGroup
	for p := 0; p < c.Pairs; p++ {
		wg.Add(1)
		go func(p int) {
			defer wg.Done()
			key := fmt.Sprintf("wh%d", p)
			r, err := st.Put(ctx, kvs.Record{Key: key, Value: []byte("0")})
			if err != nil {
				viol.CompareAndSwap(nil, vstat.V("inmem:put-error", "Put failed: %v", err))
				return
			}
			for i := 0; i < c.Rounds && viol.Load() == nil; i++ {
				cur := r.Version
				done := make(chan error, 1)
				started := make(chan struct{})
				wctx, cancel := context.WithCancel(ctx)
				go func() {
					close(started)
					done <- st.WaitForVersionChange(wctx, key, cur)
				}()
				<-started
				for y := 0; y < (i+p)%(c.Yields+1); y++ {
					runtime.Gosched()
				}
				if c.Cas {
					r, err = st.CasByVersion(ctx, kvs.Record{Key: key, Value: []byte("c"), Version: cur})
				} else {
					r, err = st.Put(ctx, kvs.Record{Key: key, Value: []byte("p")})
				}
				if err != nil {
					cancel()
					viol.CompareAndSwap(nil, vstat.V("inmem:write-error", "round %d: write failed: %v", i, err))
					return
				}
				select {
				case werr := <-done:
					if werr != nil {
						viol.CompareAndSwap(nil, vstat.V("inmem:wait-result", "round %d: WaitForVersionChange(%q, old version) returned %v although the key exists with a new version", i, key, werr))
					}
				case <-time.After(5 * time.Second):
					viol.CompareAndSwap(nil, vstat.V("inmem:wait-not-woken", "round %d: the key %q was given a new version while a WaitForVersionChange for the old one was starting; 5 s after the write returned the waiter is still blocked (lost wake-up)", i, key))
				}
				cancel()
			}
		}(p)
	}
	wg.Wait()
	return viol.Load()
}

func TestC07Hammer(t *testing.T) {
	st := vstat.For("C07")
	rapid.Check(t, func(rt *rapid.T) {
		c := WaitHammerCase{Pairs: rapid.IntRange(1, 6).Draw(rt, "pairs"), Rounds: rapid.IntRange(300, vstat.Pick(2000, 6000)).Draw(rt, "rounds"),
			Yields: rapid.IntRange(0, 3).Draw(rt, "yields"), Cas: rapid.Bool().Draw(rt, "cas")}
		s := InmemDriver().St
		v := runWaitHammer(c, s)
		if v == nil {
			if e, n, ok := waiterTable(s); ok && (e != 0 || n != 0) {
				v = vstat.V("inmem:waiter-table-residue", "all waiters are gone but the waiter table still has %d entries / %d waiters", e, n)
			}
		}
		st.Report(rt, "TestC07Hammer", c, v)
		st.Case(true, vstat.Hash(c), func() any { return map[string]any{"env": "inmem-free-running", "hammer": c} }, "env:inmem-free-running-hammer")
		st.AddExtra("hammer_register_vs_write_rounds", int64(c.Rounds*c.Pairs))
	})
}
