package p_kv

import (
	"context"
	"fmt"
	"github.com/acquirecloud/golibs/container/iterable"
	"runtime"
	"strings"
	"sync"
	"sync/atomic"
	"testing"
	"time"

	gerrors "github.com/acquirecloud/golibs/errors"
	"github.com/acquirecloud/golibs/kvs"
	"pgregory.net/rapid"
	"verifharness/internal/lockstep"
	"verifharness/internal/vstat"
)

// lockstepSqueeze waits up to 10 s for both operations; false = one of them did not return.
func lockstepSqueeze(withLock func(func()), first, second func()) bool {
	select {
	case <-lockstep.Squeeze(withLock, first, second):
		return true
	case <-time.After(10 * time.Second):
		return false
	}
}

// ---------------------------------------------------------------------------------------------
// C03: the in-memory backend alone against the model, with records written already expired
// (Redis cannot take part: it clamps TTLs to >= 1 ms)

func TestC03InmemExpired(t *testing.T) {
	st := vstat.For("C03")
	rapid.Check(t, func(rt *rapid.T) {
		c := genSeq(rt, genOpts{maxLen: vstat.Pick(30, 50), bornExpired: true})
		info, v := RunSeq(c, []*Driver{InmemDriver()})
		st.Report(rt, "TestC03InmemExpired", c, v)
		cl := append(info.ClassList(), "unit:inmem_with_born_expired_records")
		st.Case(info.HitExisting, vstat.Hash(c)^0x5eed, func() any { return c }, cl...)
	})
}

// ---------------------------------------------------------------------------------------------
// C02 hammer: tight races on one key with direct winner counters (no checker) - the brute-force probe of
// interleavings inside one storage call, which the program-level generator reaches only by luck.

// HammerCase is the generated configuration.
type HammerCase struct {
	Backend string `json:"backend"`
	Kind    string `json:"kind"` // create | cas | createdelete
	Threads int    `json:"threads"`
	Rounds  int    `json:"rounds"`
	Yield   bool   `json:"yield"` // pass a context whose Err()/Done() yield the processor
}

// yieldCtx widens the window wherever the backend consults the context in the middle of an operation.
type yieldCtx struct{ context.Context }

func (y yieldCtx) Err() error {
	runtime.Gosched()
	return y.Context.Err()
}

type spinBarrier struct {
	n     int64
	count atomic.Int64
	gen   atomic.Int64
	abort atomic.Bool
}

// wait returns false when the run was aborted.
func (b *spinBarrier) wait() bool {
	g := b.gen.Load()
	if b.count.Add(1) == b.n {
		b.count.Store(0)
		b.gen.Add(1)
		return !b.abort.Load()
	}
	for b.gen.Load() == g {
		if b.abort.Load() {
			return false
		}
		runtime.Gosched()
	}
	return !b.abort.Load()
}

func runHammer(c HammerCase, st kvs.Storage) *vstat.Violation {
	ctx := context.Background()
	var octx context.Context = ctx
	if c.Yield {
		octx = yieldCtx{ctx}
	}
	bar := &spinBarrier{n: int64(c.Threads)}
	var viol atomic.Pointer[vstat.Violation]
	fail := func(v *vstat.Violation) {
		viol.CompareAndSwap(nil, v)
		bar.abort.Store(true)
	}
	wins := make([]atomic.Int32, c.Rounds)
	vers := make([]atomic.Value, c.Rounds+1)
	if c.Kind == "expired" {
		past := time.Now().Add(-time.Hour)
		for r := 0; r < c.Rounds; r++ {
			st.PutMany(ctx, []kvs.Record{{Key: fmt.Sprintf("he%d-a", r), Value: []byte("x"), ExpiresAt: &past}, {Key: fmt.Sprintf("he%d-b", r), Value: []byte("x"), ExpiresAt: &past},
				{Key: fmt.Sprintf("he%d-live", r), Value: []byte("y")}})
		}
	}
	if c.Kind == "cas" {
		r, err := st.Put(ctx, kvs.Record{Key: "hammer", Value: []byte("0")})
		if err != nil {
			return vstat.V(c.Backend+":put-error", "Put failed: %v", err)
		}
		vers[0].Store(r.Version)
	}
	var wg sync.WaitGroup
	for ti := 0; ti < c.Threads; ti++ {
		wg.Add(1)
		go func(ti int) {
			defer wg.Done()
			defer func() {
				if p := recover(); p != nil {
					fail(vstat.V(c.Backend+":panic", "thread %d panicked: %v", ti, p))
				}
			}()
			for r := 0; r < c.Rounds; r++ {
				if !bar.wait() { // everybody starts round r together
					return
				}
				switch c.Kind {
				case "expired":
					// every thread meets the same born-expired records at the same moment (whoever is first clears them away):
					// all of them must find the keys absent, and a fresh record next to them must be found by all
					keys := []string{fmt.Sprintf("he%d-a", r), fmt.Sprintf("he%d-b", r), fmt.Sprintf("he%d-live", r)}
					var err error
					switch (ti + r) % 3 {
					case 0:
						_, err = st.Get(octx, keys[0])
						if err == nil || !gerrors.Is(err, gerrors.ErrNotExist) {
							fail(vstat.V(c.Backend+":expired-record-visible", "round %d: Get of a record written already expired returned %v", r, err))
						}
					case 1:
						var rs []*kvs.Record
						rs, err = st.GetMany(octx, keys...)
						if err != nil || len(rs) != 3 || rs[0] != nil || rs[1] != nil || rs[2] == nil {
							fail(vstat.V(c.Backend+":expired-record-visible", "round %d: GetMany over two born-expired records and a live one returned %v (err %v)", r, rs, err))
						}
					default:
						var it iterable.Iterator[string]
						it, err = st.ListKeys(octx, fmt.Sprintf("he%d-*", r))
						if err == nil {
							n := 0
							for it.HasNext() {
								if k, ok := it.Next(); ok && k != keys[2] {
									fail(vstat.V(c.Backend+":expired-record-visible", "round %d: ListKeys lists %q, a record written already expired", r, k))
								}
								n++
							}
							it.Close()
							if n != 1 {
								fail(vstat.V(c.Backend+":list-keys", "round %d: ListKeys found %d keys, want the one live key", r, n))
							}
						}
					}
				case "create":
					key := fmt.Sprintf("hk%d", r)
					_, err := st.Create(octx, kvs.Record{Key: key, Value: []byte{byte(ti)}})
					switch {
					case err == nil:
						wins[r].Add(1)
					case gerrors.Is(err, gerrors.ErrExist):
					default:
						fail(vstat.V(c.Backend+":undocumented-outcome:create", "round %d: Create returned %v", r, err))
					}
				case "cas":
					ver, _ := vers[r].Load().(string) // the version that won the previous round
					res, err := st.CasByVersion(octx, kvs.Record{Key: "hammer", Value: []byte{byte(ti)}, Version: ver})
					switch {
					case err == nil:
						if wins[r].Add(1) == 1 {
							vers[r+1].Store(res.Version)
						}
					case gerrors.Is(err, gerrors.ErrConflict):
					default:
						fail(vstat.V(c.Backend+":undocumented-outcome:cas", "round %d: CasByVersion returned %v", r, err))
					}
				}
				if !bar.wait() { // end of round: the winner's version is published
					return
				}
				if c.Kind == "cas" && vers[r+1].Load() == nil {
					fail(vstat.V(c.Backend+":cas-no-winner", "round %d: none of %d CasByVersion calls against the current version succeeded", r, c.Threads))
					return
				}
			}
		}(ti)
	}
	wg.Wait()
	if v := viol.Load(); v != nil {
		return v
	}
	for r := 0; r < c.Rounds; r++ {
		w := wins[r].Load()
		switch c.Kind {
		case "create":
			if w != 1 {
				return vstat.V(c.Backend+":create-two-winners", "round %d: %d of %d racing Create calls on one fresh key succeeded (want exactly 1)", r, w, c.Threads)
			}
		case "cas":
			if w > 1 {
				return vstat.V(c.Backend+":cas-two-winners", "round %d: %d racing CasByVersion calls against one version succeeded", r, w)
			}
		}
	}
	return nil
}

// hammerBudget bounds the wall time of a hammer unit: on an overloaded machine the spinning rounds take many times longer,
// and the cases drawn after the budget is used up are not run (they are counted as skipped, never as a verdict).
type hammerBudget struct{ start time.Time }

func newBudget() *hammerBudget { return &hammerBudget{start: time.Now()} }

func (b *hammerBudget) spent(prop string) bool {
	if time.Since(b.start) < vstat.Pick(25*time.Second, 5*time.Minute) {
		return false
	}
	vstat.For(prop).AddExtra("hammer_cases_skipped_after_time_budget", 1)
	return true
}

func TestC02Hammer(t *testing.T) {
	st := vstat.For("C02")
	budget := newBudget()
	rapid.Check(t, func(rt *rapid.T) {
		c := HammerCase{
			Backend: rapid.SampledFrom([]string{"inmem", "inmem", "inmem", "redis"}).Draw(rt, "backend"),
			Kind:    rapid.SampledFrom([]string{"create", "create", "cas", "expired"}).Draw(rt, "kind"),
			Threads: rapid.IntRange(2, 8).Draw(rt, "threads"),
			Yield:   rapid.Bool().Draw(rt, "yield"),
		}
		c.Rounds = rapid.IntRange(200, vstat.Pick(1500, 4000)).Draw(rt, "rounds")
		if c.Backend == "redis" {
			c.Rounds = rapid.IntRange(20, vstat.Pick(150, 500)).Draw(rt, "redisRounds")
		}
		if c.Kind == "expired" {
			c.Backend = "inmem" // Redis has no "already expired" write
			c.Rounds = min(c.Rounds, 600)
		}
		if budget.spent("C02") {
			return
		}
		v := runHammer(c, storageFor(rt, c.Backend))
		st.Report(rt, "TestC02Hammer", c, v)
		st.Case(true, vstat.Hash(c), func() any { return c }, "hammer:"+c.Kind+":"+c.Backend)
		st.AddExtra("hammer_race_rounds", int64(c.Rounds))
	})
}

// ---------------------------------------------------------------------------------------------
// C07 hammer: a waiter registering while a writer changes the key, thousands of times. After the write
// has returned the waiter must return nil (the version differs) within a generous bound.

type WaitHammerCase struct {
	Pairs  int  `json:"pairs"`
	Rounds int  `json:"rounds"`
	Yields int  `json:"yields"`
	Cas    bool `json:"cas"`
}

func runWaitHammer(c WaitHammerCase, st kvs.Storage) *vstat.Violation {
	ctx := context.Background()
	var viol atomic.Pointer[vstat.Violation]
	var wg sync.WaitGroup
	for p := 0; p < c.Pairs; p++ {
		wg.Add(1)
		go func(p int) {
			defer wg.Done()
			key := fmt.Sprintf("wh%d", p)
			r, err := st.Put(ctx, kvs.Record{Key: key, Value: []byte("0")})
			if err != nil {
				viol.CompareAndSwap(nil, vstat.V("inmem:put-error", "Put failed: %v", err))
				return
			}
			for i := 0; i < c.Rounds && viol.Load() == nil; i++ {
				cur := r.Version
				done := make(chan error, 1)
				started := make(chan struct{})
				wctx, cancel := context.WithCancel(ctx)
				go func() {
					close(started)
					done <- st.WaitForVersionChange(wctx, key, cur)
				}()
				<-started
				for y := 0; y < (i+p)%(c.Yields+1); y++ {
					runtime.Gosched()
				}
				if c.Cas {
					r, err = st.CasByVersion(ctx, kvs.Record{Key: key, Value: []byte("c"), Version: cur})
				} else {
					r, err = st.Put(ctx, kvs.Record{Key: key, Value: []byte("p")})
				}
				if err != nil {
					cancel()
					viol.CompareAndSwap(nil, vstat.V("inmem:write-error", "round %d: write failed: %v", i, err))
					return
				}
				select {
				case werr := <-done:
					if werr != nil {
						viol.CompareAndSwap(nil, vstat.V("inmem:wait-result", "round %d: WaitForVersionChange(%q, old version) returned %v although the key exists with a new version", i, key, werr))
					}
				case <-time.After(5 * time.Second):
					viol.CompareAndSwap(nil, vstat.V("inmem:wait-not-woken", "round %d: the key %q was given a new version while a WaitForVersionChange for the old one was starting; 5 s after the write returned the waiter is still blocked (lost wake-up)", i, key))
				}
				cancel()
			}
		}(p)
	}
	wg.Wait()
	return viol.Load()
}

func TestC07Hammer(t *testing.T) {
	st := vstat.For("C07")
	budget := newBudget()
	rapid.Check(t, func(rt *rapid.T) {
		c := WaitHammerCase{Pairs: rapid.IntRange(1, 6).Draw(rt, "pairs"), Rounds: rapid.IntRange(300, vstat.Pick(2000, 6000)).Draw(rt, "rounds"),
			Yields: rapid.IntRange(0, 3).Draw(rt, "yields"), Cas: rapid.Bool().Draw(rt, "cas")}
		if budget.spent("C07") {
			return
		}
		s := InmemDriver().St
		v := runWaitHammer(c, s)
		if v == nil {
			if e, n, ok := waiterTable(s); ok && (e != 0 || n != 0) {
				v = vstat.V("inmem:waiter-table-residue", "all waiters are gone but the waiter table still has %d entries / %d waiters", e, n)
			}
		}
		st.Report(rt, "TestC07Hammer", c, v)
		st.Case(true, vstat.Hash(c), func() any { return map[string]any{"env": "inmem-free-running", "hammer": c} }, "env:inmem-free-running-hammer")
		st.AddExtra("hammer_register_vs_write_rounds", int64(c.Rounds*c.Pairs))
	})
}

// ---------------------------------------------------------------------------------------------
// squeeze: the in-memory backend's operations forced into "A's first critical section, all of B, A's next critical
// section" through the storage mutex (internal/lockstep). Every operation of the real backend is one critical section,
// so it simply runs A then B; a check-then-act split shows at once.

// SqueezeCase names the two racing operations.
type SqueezeCase struct {
	A, B string `json:"-"`
	Pair string `json:"pair"`
	Exp  bool   `json:"exp"`
}

func runSqueeze(pair string) *vstat.Violation {
	ctx := context.Background()
	st := InmemDriver().St
	lock := func(f func()) { withStorageLock(st, f) }
	switch pair {
	case "create-create", "create-put":
		var e1, e2 error
		completed := lockstepSqueeze(lock, func() { _, e1 = st.Create(ctx, kvs.Record{Key: "k", Value: []byte("a")}) },
			func() {
				if pair == "create-put" {
					_, e2 = st.Put(ctx, kvs.Record{Key: "k", Value: []byte("b")})
				} else {
					_, e2 = st.Create(ctx, kvs.Record{Key: "k", Value: []byte("b")})
				}
			})
		if !completed {
			return vstat.V("inmem:call-never-returns", "%s forced to overlap: one of the two calls did not return within 10 s", pair)
		}
		if pair == "create-create" && (e1 == nil) == (e2 == nil) {
			return vstat.V("inmem:create-two-winners", "two Create calls on one fresh key, forced to overlap: results %v and %v (want exactly one nil, one ErrExist)", e1, e2)
		}
		r, err := st.Get(ctx, "k")
		if err != nil {
			return vstat.V("inmem:get-after-write", "Get after the race failed: %v", err)
		}
		if pair == "create-put" && e1 == nil && string(r.Value) == "a" && e2 == nil {
			// Create succeeded => it ran first => the Put came second and must have overwritten it
			return vstat.V("inmem:create-overwrote-put", "Create and Put forced to overlap: both succeeded and the stored value is Create's - the Create inserted over the Put's record")
		}
		if (e1 != nil && !gerrors.Is(e1, gerrors.ErrExist)) || (pair == "create-create" && e2 != nil && !gerrors.Is(e2, gerrors.ErrExist)) {
			return vstat.V("inmem:undocumented-outcome:create", "Create returned %v / %v", e1, e2)
		}
	case "cas-cas", "cas-put", "cas-delete":
		r0, _ := st.Put(ctx, kvs.Record{Key: "k", Value: []byte("0")})
		var e1, e2 error
		completed := lockstepSqueeze(lock, func() { _, e1 = st.CasByVersion(ctx, kvs.Record{Key: "k", Value: []byte("a"), Version: r0.Version}) },
			func() {
				switch pair {
				case "cas-cas":
					_, e2 = st.CasByVersion(ctx, kvs.Record{Key: "k", Value: []byte("b"), Version: r0.Version})
				case "cas-put":
					_, e2 = st.Put(ctx, kvs.Record{Key: "k", Value: []byte("b")})
				default:
					e2 = st.Delete(ctx, "k")
				}
			})
		if !completed {
			return vstat.V("inmem:call-never-returns", "%s forced to overlap: one of the two calls did not return within 10 s", pair)
		}
		if pair == "cas-cas" && e1 == nil && e2 == nil {
			return vstat.V("inmem:cas-two-winners", "two CasByVersion calls against one version, forced to overlap, both succeeded")
		}
		if pair == "cas-put" && e1 == nil && e2 == nil {
			if r, err := st.Get(ctx, "k"); err == nil && string(r.Value) == "a" {
				// CAS succeeded => it was ordered before the Put => the Put's value must be the stored one
				return vstat.V("inmem:cas-overwrote-put", "CasByVersion and Put forced to overlap: both succeeded but the stored value is the CAS's although the CAS saw the version from before the Put")
			}
		}
		if pair == "cas-delete" && e1 == nil && e2 == nil {
			if _, err := st.Get(ctx, "k"); err == nil {
				return vstat.V("inmem:cas-resurrected", "CasByVersion and Delete forced to overlap: both succeeded and the record exists afterwards")
			}
		}
	case "wait-expiring":
		// a waiter registers on a record a moment before its expiry and is kept off the processor (GOMAXPROCS(1), the mutex handed
		// over to a goroutine that spins while holding it) until the expiry has passed; it then computes a non-positive time to
		// the expiry. It must end with ErrNotExist (or nil) and leave nothing in the waiter table.
		old := runtime.GOMAXPROCS(1)
		defer runtime.GOMAXPROCS(old)
		e := time.Now().Add(25 * time.Millisecond)
		r0, _ := st.Put(ctx, kvs.Record{Key: "k", Value: []byte("0"), ExpiresAt: &e})
		wctx, cancel := context.WithTimeout(ctx, 5*time.Second)
		defer cancel()
		done := make(chan error, 1)
		time.Sleep(time.Until(e.Add(-8 * time.Millisecond)))
		spun := make(chan struct{})
		lock(func() {
			go func() { done <- st.WaitForVersionChange(wctx, "k", r0.Version) }()
			time.Sleep(1500 * time.Microsecond)
			go func() {
				lock(func() {
					for time.Now().Before(e.Add(2 * time.Millisecond)) {
					}
				})
				close(spun)
			}()
			time.Sleep(time.Until(e.Add(-2500 * time.Microsecond)))
		})
		var werr error
		select {
		case werr = <-done:
		case <-time.After(6 * time.Second):
			return vstat.V("inmem:wait-not-woken", "a waiter registered just before the expiry of its record is still blocked 6 s later")
		}
		<-spun
		if werr != nil && !gerrors.Is(werr, gerrors.ErrNotExist) {
			return vstat.V("inmem:wait-result", "a waiter registered just before the expiry of its record returned %v, want ErrNotExist", werr)
		}
		time.Sleep(time.Millisecond)
		if en, n, ok := waiterTable(st); ok && (en != 0 || n != 0) {
			return vstat.V("inmem:waiter-table-residue", "a waiter registered just before the expiry of its record has returned (%v) but the waiter table still has %d entries / %d waiters", werr, en, n)
		}
	case "waitexpire-put":
		// a waiter is parked on a record whose expiry passes while the storage mutex is held by the harness, with a Put queued on
		// the mutex BEFORE the waiter's expiry timer fires: the Put is applied first, then the waiter's expiry handling runs.
		// The Put's record (no expiry) must survive whatever the waiter does about the expired one.
		e := time.Now().Add(30 * time.Millisecond)
		r0, _ := st.Put(ctx, kvs.Record{Key: "k", Value: []byte("0"), ExpiresAt: &e})
		wctx, cancel := context.WithCancel(ctx)
		defer cancel()
		done := make(chan error, 1)
		go func() { done <- st.WaitForVersionChange(wctx, "k", r0.Version) }()
		time.Sleep(time.Until(e.Add(-10 * time.Millisecond)))
		putDone := make(chan error, 1)
		lock(func() {
			go func() {
				_, err := st.Put(ctx, kvs.Record{Key: "k", Value: []byte("b")})
				putDone <- err
			}()
			time.Sleep(time.Until(e.Add(6 * time.Millisecond)))
		})
		select {
		case err := <-putDone:
			if err != nil {
				return vstat.V("inmem:undocumented-outcome:put", "Put returned %v", err)
			}
		case <-time.After(10 * time.Second):
			return vstat.V("inmem:call-never-returns", "%s: the Put did not return within 10 s", pair)
		}
		select {
		case err := <-done:
			if err != nil && !gerrors.Is(err, gerrors.ErrNotExist) {
				return vstat.V("inmem:wait-result", "the record expired and was then replaced while a waiter was parked on it; the waiter returned %v", err)
			}
		case <-time.After(5 * time.Second):
			return vstat.V("inmem:wait-not-woken", "the record expired and was replaced by a Put; 5 s later the waiter of the old version is still blocked")
		}
		if r, err := st.Get(ctx, "k"); err != nil || string(r.Value) != "b" {
			return vstat.V("inmem:fresh-record-dropped", "a Put (no expiry) was applied right after the expiry of the previous record of the key, on which a waiter was parked; afterwards Get returns (%q, %v) - the Put's record is gone", r.Value, err)
		}
	case "expired-get-put", "expired-getmany-put", "expired-list-put", "expired-create-put", "expired-cas-put", "expired-delete-put", "expired-get-create", "expired-getmany-create":
		// the key holds an expired record; an operation that meets it is forced to overlap with a write of a fresh record
		e := time.Now().Add(-time.Second)
		r0, _ := st.Put(ctx, kvs.Record{Key: "k", Value: []byte("0"), ExpiresAt: &e})
		st.Put(ctx, kvs.Record{Key: "k2", Value: []byte("other")})
		var eA, eB error
		parts := strings.Split(pair, "-")
		completed := lockstepSqueeze(lock, func() {
			switch parts[1] {
			case "get":
				_, eA = st.Get(ctx, "k")
			case "getmany":
				_, eA = st.GetMany(ctx, "k", "k2")
			case "list":
				var it iterable.Iterator[string]
				if it, eA = st.ListKeys(ctx, "*"); eA == nil {
					it.Close()
				}
			case "create":
				_, eA = st.Create(ctx, kvs.Record{Key: "k", Value: []byte("a")})
			case "cas":
				_, eA = st.CasByVersion(ctx, kvs.Record{Key: "k", Value: []byte("a"), Version: r0.Version})
			case "delete":
				eA = st.Delete(ctx, "k")
			}
		}, func() {
			if parts[2] == "create" {
				_, eB = st.Create(ctx, kvs.Record{Key: "k", Value: []byte("b")})
			} else {
				_, eB = st.Put(ctx, kvs.Record{Key: "k", Value: []byte("b")})
			}
		})
		if !completed {
			return vstat.V("inmem:call-never-returns", "%s forced to overlap: one of the two calls did not return within 10 s", pair)
		}
		if eB != nil && !(parts[2] == "create" && parts[1] == "create" && gerrors.Is(eB, gerrors.ErrExist)) {
			return vstat.V("inmem:write-over-expired-failed", "%s: the write of the fresh record over an expired one returned %v", pair, eB)
		}
		r, err := st.Get(ctx, "k")
		deleted := parts[1] == "delete" && eA == nil // Delete ran after the write and removed the fresh record: legitimate
		if !deleted && err != nil {
			return vstat.V("inmem:fresh-record-dropped", "%s forced to overlap on a key that held an expired record: the fresh record (no expiry) was written successfully, %s returned %v, and afterwards Get returns %v - the fresh record was dropped", pair, parts[1], eA, err)
		}
		if err == nil && string(r.Value) == "0" {
			return vstat.V("inmem:expired-record-visible", "%s: Get returns the expired record", pair)
		}
	case "wait-put", "wait-cas", "wait-delete", "wait-putmany":
		r0, _ := st.Put(ctx, kvs.Record{Key: "k", Value: []byte("0")})
		done := make(chan error, 1)
		wctx, cancel := context.WithCancel(ctx)
		defer cancel()
		lockstep.Squeeze(lock, func() { done <- st.WaitForVersionChange(wctx, "k", r0.Version) },
			func() {
				switch pair {
				case "wait-put":
					st.Put(ctx, kvs.Record{Key: "k", Value: []byte("b")})
				case "wait-cas":
					st.CasByVersion(ctx, kvs.Record{Key: "k", Value: []byte("b"), Version: r0.Version})
				case "wait-putmany":
					st.PutMany(ctx, []kvs.Record{{Key: "k", Value: []byte("b")}, {Key: "k2", Value: []byte("c")}})
				default:
					st.Delete(ctx, "k")
				}
			})
		select {
		case err := <-done:
			if pair == "wait-delete" {
				if !gerrors.Is(err, gerrors.ErrNotExist) {
					return vstat.V("inmem:wait-result", "the key was deleted while a WaitForVersionChange for it was starting; the waiter returned %v, want ErrNotExist", err)
				}
			} else if err != nil {
				return vstat.V("inmem:wait-result", "the key was given a new version while a WaitForVersionChange for the old one was starting; the waiter returned %v, want nil", err)
			}
		case <-time.After(5 * time.Second):
			return vstat.V("inmem:wait-not-woken", "the key was changed (%s) while a WaitForVersionChange for the old version was between its check and its registration; 5 s later the waiter is still blocked (lost wake-up)", pair)
		}
		cancel()
		time.Sleep(time.Millisecond)
		if e, n, ok := waiterTable(st); ok && (e != 0 || n != 0) {
			return vstat.V("inmem:waiter-table-residue", "the waiter is gone but the waiter table has %d entries / %d waiters", e, n)
		}
	}
	return nil
}

var squeezePairs = []string{"create-create", "create-put", "cas-cas", "cas-put", "cas-delete", "wait-put", "wait-cas", "wait-delete", "wait-putmany"}

var expiredPairs = []string{"expired-get-put", "expired-getmany-put", "expired-list-put", "expired-create-put", "expired-cas-put", "expired-delete-put", "expired-get-create", "expired-getmany-create", "waitexpire-put"}

func testSqueeze(t *testing.T, prop string, pairs []string) {
	if !hooksOn {
		t.Skip("inmem hooks unavailable")
	}
	st := vstat.For(prop)
	reps := vstat.Pick(15, 200)
	for _, pair := range pairs {
		for i := 0; i < reps; i++ {
			v := vstat.Guard("inmem:panic", func() *vstat.Violation { return runSqueeze(pair) })
			st.Report(t, "Test"+prop+"Squeeze", SqueezeCase{Pair: pair}, v)
			st.Case(true, vstat.Hash(pair)^uint64(prop[2]), func() any { return map[string]any{"squeezed_pair": pair} }, "squeeze:"+pair)
		}
	}
}

func TestC02Squeeze(t *testing.T) {
	testSqueeze(t, "C02", append(append([]string{}, squeezePairs[:5]...), "waitexpire-put", "expired-get-put", "expired-getmany-put"))
}
func TestC06Squeeze(t *testing.T) {
	testSqueeze(t, "C06", append(append([]string{}, expiredPairs...), "wait-expiring", "waitexpire-put"))
}
func TestC07Squeeze(t *testing.T) {
	testSqueeze(t, "C07", append(append([]string{}, squeezePairs[5:]...), "wait-expiring", "waitexpire-put"))
}

// ---------------------------------------------------------------------------------------------
// private keys: many goroutines use one storage object at the same time, each on a key of its own. Per key the calls are
// sequential, so every result must be what a sequential store gives - whatever the goroutines share behind the scenes
// (connection pools, buffer pools, caches) must not let one caller's data reach another's key.

// PrivateCase is the generated configuration.
type PrivateCase struct {
	Backend string `json:"backend"`
	Threads int    `json:"threads"`
	Rounds  int    `json:"rounds"`
	ValLen  int    `json:"val_len"` // length of the values (their content names thread and round)
	// Batch > 0: every thread owns Batch keys and writes them all with one PutMany per round (a tight run of version
	// assignments inside the storage), then reads them back with one GetMany
	Batch int `json:"batch,omitempty"`
}

func runPrivate(c PrivateCase, st kvs.Storage) *vstat.Violation {
	ctx := context.Background()
	var first atomic.Pointer[vstat.Violation]
	fail := func(f string, a ...any) {
		first.CompareAndSwap(nil, vstat.V(c.Backend+":private-key-disturbed", f, a...))
	}
	var wg sync.WaitGroup
	start := make(chan struct{})
	handed := make([][]string, c.Threads) // every version a successful write of the thread was given
	for ti := 0; ti < c.Threads; ti++ {
		wg.Add(1)
		go func(ti int) {
			defer wg.Done()
			key := fmt.Sprintf("private/%d", ti)
			val := func(r int) []byte {
				b := []byte(fmt.Sprintf("t%d-r%d-", ti, r))
				for len(b) < c.ValLen {
					b = append(b, byte('a'+ti%26))
				}
				return b
			}
			<-start
			if c.Batch > 0 {
				keys := make([]string, c.Batch)
				for j := range keys {
					keys[j] = fmt.Sprintf("private/%d/%d", ti, j)
				}
				for r := 0; r < c.Rounds && first.Load() == nil; r++ {
					recs := make([]kvs.Record, c.Batch)
					for j := range recs {
						recs[j] = kvs.Record{Key: keys[j], Value: []byte(fmt.Sprintf("t%d-r%d-k%d", ti, r, j))}
					}
					if err := st.PutMany(ctx, recs); err != nil {
						fail("thread %d round %d: PutMany of its own %d keys returned %v", ti, r, c.Batch, err)
						return
					}
					got, err := st.GetMany(ctx, keys...)
					if err != nil || len(got) != len(keys) {
						fail("thread %d round %d: GetMany of its own %d keys returned %d entries, %v", ti, r, c.Batch, len(got), err)
						return
					}
					for j, g := range got {
						if want := fmt.Sprintf("t%d-r%d-k%d", ti, r, j); g == nil || string(g.Value) != want || g.Version == "" {
							fail("thread %d round %d: only this thread writes key %q; after its PutMany GetMany returns %+v, want value %q", ti, r, keys[j], g, want)
							return
						}
						handed[ti] = append(handed[ti], g.Version)
					}
				}
				return
			}
			ver := ""
			cur := []byte(nil)
			for r := 0; r < c.Rounds && first.Load() == nil; r++ {
				v := val(r)
				switch {
				case ver == "":
					nv, err := st.Create(ctx, kvs.Record{Key: key, Value: v})
					if err != nil || nv == "" {
						fail("thread %d round %d: Create on its own absent key returned (%q, %v)", ti, r, nv, err)
						return
					}
					ver, cur = nv, v
					handed[ti] = append(handed[ti], nv)
				case r%5 == 4:
					if err := st.Delete(ctx, key); err != nil {
						fail("thread %d round %d: Delete of its own key returned %v", ti, r, err)
						return
					}
					ver, cur = "", nil
					continue
				case r%2 == 0:
					far := time.Now().Add(time.Hour)
					nr, err := st.CasByVersion(ctx, kvs.Record{Key: key, Value: v, Version: ver, ExpiresAt: &far})
					if err != nil || nr.Version == "" || nr.Version == ver {
						fail("thread %d round %d: CasByVersion with the current version %s of its own key returned (%q, %v)", ti, r, ver, nr.Version, err)
						return
					}
					ver, cur = nr.Version, v
					handed[ti] = append(handed[ti], nr.Version)
				default:
					nr, err := st.Put(ctx, kvs.Record{Key: key, Value: v})
					if err != nil || nr.Version == "" || nr.Version == ver {
						fail("thread %d round %d: Put on its own key returned (%q, %v)", ti, r, nr.Version, err)
						return
					}
					ver, cur = nr.Version, v
					handed[ti] = append(handed[ti], nr.Version)
				}
				got, err := st.Get(ctx, key)
				if err != nil || got.Version != ver || string(got.Value) != string(cur) || got.Key != key {
					fail("thread %d round %d: only this thread writes key %q; after its write (version %s, value %q) Get returns (key %q, version %s, value %q, err %v)", ti, r, key, ver, trunc(cur), got.Key, got.Version, trunc(got.Value), err)
					return
				}
			}
		}(ti)
	}
	close(start)
	wg.Wait()
	if v := first.Load(); v != nil {
		return v
	}
	// "a version never handed out before": over all keys of the storage
	seen := map[string]int{}
	for ti, vs := range handed {
		for _, ver := range vs {
			if other, dup := seen[ver]; dup {
				return vstat.V(c.Backend+":version-handed-out-twice", "version %s was given to a successful write of thread %d (key private/%d) and to one of thread %d (key private/%d): every successful write must get a version never handed out before", ver, other, other, ti, ti)
			}
			seen[ver] = ti
		}
	}
	return nil
}

func trunc(b []byte) string {
	if len(b) > 40 {
		return string(b[:40]) + "..."
	}
	return string(b)
}

func TestC02Private(t *testing.T) {
	st := vstat.For("C02")
	budget := newBudget()
	rapid.Check(t, func(rt *rapid.T) {
		c := PrivateCase{Backend: rapid.SampledFrom([]string{"redis", "redis", "inmem"}).Draw(rt, "backend"), Threads: rapid.IntRange(2, vstat.Pick(48, 64)).Draw(rt, "threads"),
			Rounds: rapid.IntRange(20, vstat.Pick(300, 600)).Draw(rt, "rounds"), ValLen: rapid.SampledFrom([]int{0, 8, 100, 2000}).Draw(rt, "valLen")}
		if rapid.IntRange(0, 2).Draw(rt, "batches") == 0 {
			c.Batch = rapid.SampledFrom([]int{20, 100, 200}).Draw(rt, "batch")
			c.Threads = min(c.Threads, 24)
			c.Rounds = min(c.Rounds, 4000/c.Batch)
		}
		if budget.spent("C02") {
			return
		}
		v := runPrivate(c, storageFor(rt, c.Backend))
		st.Report(rt, "TestC02Private", c, v)
		cl := []string{"private_keys:" + c.Backend}
		if c.Batch > 0 {
			cl = append(cl, "private_keys_written_in_batches:"+c.Backend)
		}
		st.Case(c.Threads >= 4, vstat.Hash(c), func() any { return c }, cl...)
		st.AddExtra("private_key_calls", int64(c.Threads*c.Rounds*2*max(1, c.Batch)))
	})
}
