package p_kv

import (
	"context"
	"fmt"
	"github.com/acquirecloud/golibs/kvs"
	"testing"
	"testing/synctest"
	"time"

	"pgregory.net/rapid"
	"verifharness/internal/enum"
	"verifharness/internal/vstat"
)

func TestMain(m *testing.M) { vstat.Main(m) }

// ---------------------------------------------------------------------------------------------
// generators

type genOpts struct {
	clock       bool // advance / wait / park ops and expiries the clock will cross
	pastExp     bool // records written already expired (an hour ago, or the zero time)
	bornExpired bool // no clock ops, but some writes carry an expiry that is already in the past
	park        bool
	maxLen      int
	allKinds    []string
}

func genSeq(t *rapid.T, o genOpts) SCase {
	n := rapid.IntRange(1, o.maxLen).Draw(t, "len")
	// light-weight shadow state, only to aim the generator (never used by the oracle)
	expAt := map[int]time.Duration{}
	elapsed := time.Duration(0)
	var crossed []int
	exps := []int{ExpNone, Exp1h, Exp100h, ExpNever}
	if o.pastExp && !o.clock {
		exps = append(exps, ExpPast, ExpZero)
	}
	if o.bornExpired {
		exps = []int{ExpNone, Exp1h, ExpPast, ExpPast, ExpZero}
	}
	if o.clock {
		exps = []int{ExpNone, Exp1h, Exp1h, Exp3h, Exp3h, Exp100h, ExpNever}
		if o.pastExp {
			exps = append(exps, ExpPast, ExpZero)
		}
	}
	kinds := []string{"create", "create", "get", "getmany", "put", "put", "putmany", "putmany", "cas", "cas", "delete", "list"}
	if o.clock {
		kinds = append(kinds, "advance", "advance", "advance", "wait", "wait")
		if o.park {
			kinds = append(kinds, "park", "park")
		}
	}
	var ops []SOp
	for len(ops) < n {
		kind := rapid.SampledFrom(kinds).Draw(t, "kind")
		if rapid.IntRange(0, 19).Draw(t, "fillInstead") == 0 {
			kind = "fill"
		}
		key := rapid.IntRange(0, len(Keys)-1).Draw(t, "key")
		if len(crossed) > 0 && rapid.Bool().Draw(t, "aimAtExpired") {
			key = rapid.SampledFrom(crossed).Draw(t, "expiredKey")
			kind = rapid.SampledFrom([]string{"create", "get", "getmany", "put", "putmany", "cas", "delete", "list", "wait"}).Draw(t, "touchKind")
			crossed = nil
		}
		op := SOp{K: kind}
		note := func(k, e int) {
			if e == ExpNone {
				delete(expAt, k)
			} else {
				expAt[k] = elapsed + ExpOffsets[e]
			}
		}
		switch kind {
		case "create", "put":
			op.Key, op.Val = key, rapid.IntRange(0, len(Vals)-1).Draw(t, "val")
			op.Exp = rapid.SampledFrom(exps).Draw(t, "exp")
			op.Ver = rapid.IntRange(0, 3).Draw(t, "ver")
			note(key, op.Exp)
		case "cas":
			op.Key, op.Val = key, rapid.IntRange(0, len(Vals)-1).Draw(t, "val")
			op.Exp = rapid.SampledFrom(exps).Draw(t, "exp")
			op.Ver = rapid.SampledFrom([]int{0, 0, 0, 0, 1, 2, 3, 4, 5, 6, 7, 8, 9, 10}).Draw(t, "ver")
		case "get", "delete":
			op.Key = key
		case "wait":
			op.Key = key
			op.Ver = rapid.SampledFrom([]int{0, 1, 1, 2, 3, 4, 5, 6, 7, 8, 9, 10}).Draw(t, "ver")
		case "park":
			op.Key = key
		case "getmany":
			op.Keys = rapid.SliceOfN(rapid.IntRange(0, len(Keys)-1), 0, 4).Draw(t, "keys")
			if len(op.Keys) > 0 && rapid.Bool().Draw(t, "withKey") {
				op.Keys[0] = key
			}
		case "putmany":
			op.Keys = rapid.SliceOfN(rapid.IntRange(0, len(Keys)-1), 0, 4).Draw(t, "keys")
			if len(op.Keys) > 0 && rapid.Bool().Draw(t, "withKey") {
				op.Keys[0] = key
			}
			allPlain := rapid.Bool().Draw(t, "noExpiryAtAll") // the Redis backend has a separate code path for that
			for range op.Keys {
				op.Vals = append(op.Vals, rapid.IntRange(0, len(Vals)-1).Draw(t, "val"))
				e := ExpNone
				if !allPlain {
					e = rapid.SampledFrom(exps).Draw(t, "exp")
				}
				op.Exps = append(op.Exps, e)
			}
			for j, k := range op.Keys {
				note(k, op.Exps[j])
			}
		case "fill":
			op.N = rapid.SampledFrom([]int{3, 9, 30, 30, 70, 70, 130}).Draw(t, "fillKeys")
			op.Val = rapid.IntRange(0, len(Vals)-1).Draw(t, "val")
			op.Exp = rapid.SampledFrom(exps).Draw(t, "exp")
		case "list":
			op.Pat = rapid.IntRange(0, len(Patterns)-1).Draw(t, "pat")
			if rapid.IntRange(0, 2).Draw(t, "second") == 0 {
				op.Pat2 = 1 + rapid.IntRange(0, len(Patterns)-1).Draw(t, "pat2")
			}
		case "advance":
			op.Min = rapid.SampledFrom([]int{23, 47, 47, 97, 97, 251}).Draw(t, "min")
			for k, e := range expAt {
				if e >= elapsed && e < elapsed+time.Duration(op.Min)*time.Minute {
					crossed = append(crossed, k)
				}
			}
			elapsed += time.Duration(op.Min) * time.Minute
			sortInts(crossed)
		}
		ops = append(ops, op)
	}
	return SCase{Ops: ops}
}

func sortInts(a []int) {
	for i := 1; i < len(a); i++ {
		for j := i; j > 0 && a[j-1] > a[j]; j-- {
			a[j-1], a[j] = a[j], a[j-1]
		}
	}
}

// ---------------------------------------------------------------------------------------------
// C03: one sequential contract, three-way differential (model, in-memory, Redis)

func c03Drivers(t vstat.TB) []*Driver {
	rd, err := RedisDriver()
	if err != nil {
		t.Fatalf("INFRA: cannot start miniredis: %v", err)
	}
	return []*Driver{InmemDriver(), rd}
}

var lastCut int64

func recordC03(c SCase, info Info) {
	cl := append(info.ClassList(), fmt.Sprintf("redis_logical_database:%d", RedisDB()))
	if n := ScanPagesCut(); n > lastCut {
		lastCut = n
		cl = append(cl, "redis_scan_answered_in_several_pages_with_empty_ones")
	}
	vstat.For("C03").Case(info.HitExisting, vstat.Hash(c), func() any { return c }, cl...)
}

func TestC03Rapid(t *testing.T) {
	st := vstat.For("C03")
	rapid.Check(t, func(t *rapid.T) {
		c := genSeq(t, genOpts{maxLen: vstat.Pick(40, 60), pastExp: true})
		info, v := RunSeq(c, c03Drivers(t))
		st.Report(t, "TestC03Rapid", c, v)
		recordC03(c, info)
	})
}

// C03Alphabet is the finite op alphabet of the exhaustive part: 2 keys, 2 values.
func C03Alphabet() []SOp {
	var a []SOp
	for k := 0; k < 2; k++ {
		for _, v := range []int{0, 2} {
			a = append(a, SOp{K: "create", Key: k, Val: v})
			a = append(a, SOp{K: "put", Key: k, Val: v, Exp: Exp1h * (v / 2)})
		}
		a = append(a, SOp{K: "get", Key: k}, SOp{K: "delete", Key: k})
		for ver := 0; ver < 4; ver++ {
			a = append(a, SOp{K: "cas", Key: k, Val: 3, Ver: ver})
		}
	}
	a = append(a,
		SOp{K: "getmany", Keys: []int{0, 1}}, SOp{K: "getmany"}, SOp{K: "getmany", Keys: []int{0, 0}},
		SOp{K: "putmany", Keys: []int{0, 1}, Vals: []int{2, 2}, Exps: []int{0, 0}},
		SOp{K: "putmany", Keys: []int{0, 1}, Vals: []int{2, 0}, Exps: []int{Exp1h, 0}},
		SOp{K: "putmany"},
		SOp{K: "putmany", Keys: []int{0, 0}, Vals: []int{2, 0}, Exps: []int{0, 0}},
		SOp{K: "list", Pat: 0}, SOp{K: "list", Pat: 2}, SOp{K: "list", Pat: 0, Pat2: 1 + 2},
	)
	return a
}

func TestC03Exhaustive(t *testing.T) {
	st := vstat.For("C03")
	shard, shards := vstat.Shard()
	alpha := C03Alphabet()
	depth := vstat.Pick(2, 3)
	drivers := c03Drivers(t)
	n := enum.Lists(len(alpha), depth, shard, shards, func(idx []int) {
		c := SCase{}
		for _, i := range idx {
			c.Ops = append(c.Ops, alpha[i])
		}
		drivers[0] = InmemDriver()
		mini.FlushAll()
		info, v := RunSeq(c, drivers)
		st.Report(t, "TestC03Exhaustive", c, v)
		recordC03(c, info)
	})
	st.SetExhaustive("kv_oplists", map[string]any{"alphabet": len(alpha), "depth": depth, "lists": n, "shards": shards})
}

// ---------------------------------------------------------------------------------------------
// C06: expired == deleted

func recordC06(c SCase, info Info, driver string) {
	nt := info.Crossed && len(info.FirstTouch) > 0
	cl := info.ClassList()
	cl = append(cl, "driver:"+driver)
	vstat.For("C06").Case(nt, vstat.Hash(c)^vstat.HashBytes([]byte(driver)), func() any { return map[string]any{"driver": driver, "case": c} }, cl...)
}

// RunC06Inmem runs the case on the in-memory backend inside a synctest bubble (fake clock).
func RunC06Inmem(t *testing.T, c SCase) (info Info, v *vstat.Violation) {
	synctest.Test(t, func(*testing.T) {
		d := InmemDriver()
		d.Advance = time.Sleep
		d.Settle = synctest.Wait
		info, v = RunSeq(c, []*Driver{d})
	})
	return
}

func TestC06InmemRapid(t *testing.T) {
	st := vstat.For("C06")
	rapid.Check(t, func(rt *rapid.T) {
		c := genSeq(rt, genOpts{clock: true, pastExp: true, park: true, maxLen: vstat.Pick(30, 50)})
		stop := st.Watch("TestC06InmemRapid", "inmem", c, 40*time.Second)
		info, v := RunC06Inmem(t, c)
		stop()
		st.Report(rt, "TestC06InmemRapid", c, v)
		recordC06(c, info, "inmem")
	})
}

func TestC06RedisRapid(t *testing.T) {
	st := vstat.For("C06")
	rapid.Check(t, func(rt *rapid.T) {
		c := genSeq(rt, genOpts{clock: true, pastExp: true, maxLen: vstat.Pick(25, 40)})
		d, err := RedisDriver()
		if err != nil {
			t.Fatalf("INFRA: cannot start miniredis: %v", err)
		}
		info, v := RunSeq(c, []*Driver{d})
		st.Report(rt, "TestC06RedisRapid", c, v)
		recordC06(c, info, "redis")
	})
}

// TestC06FirstTouch plays, for every operation kind and every expiry shape, the scenario
// "write with expiry; advance past it; <kind> is the first operation to touch the key" (systematic part).
func TestC06FirstTouch(t *testing.T) {
	st := vstat.For("C06")
	touches := []SOp{
		{K: "create", Val: 2}, {K: "create", Val: 2, Exp: Exp1h}, {K: "get"}, {K: "getmany", Keys: []int{0, 1}}, {K: "put", Val: 3},
		{K: "putmany", Keys: []int{0}, Vals: []int{2}, Exps: []int{0}}, {K: "cas", Val: 3, Ver: 0}, {K: "cas", Val: 3, Ver: 3}, {K: "delete"},
		{K: "list", Pat: 0}, {K: "list", Pat: 2}, {K: "wait", Ver: 0}, {K: "wait", Ver: 3},
	}
	writes := []SOp{
		{K: "create", Val: 2, Exp: Exp1h}, {K: "put", Val: 2, Exp: Exp1h}, {K: "putmany", Keys: []int{0, 1}, Vals: []int{2, 3}, Exps: []int{Exp1h, Exp3h}},
		{K: "put", Val: 2, Exp: Exp3h},
	}
	// how the key came by its expiring record: written with the expiry, or stored without one and given it by a later write
	var prefixes [][]SOp
	for _, w := range writes {
		p := []SOp{w}
		if w.K == "put" {
			p = append(p, SOp{K: "cas", Val: 2, Ver: 0, Exp: w.Exp}) // CAS path writes the TTL too
		}
		prefixes = append(prefixes, p)
	}
	prefixes = append(prefixes,
		[]SOp{{K: "put", Val: 2}, {K: "cas", Val: 3, Ver: 0, Exp: Exp1h}},
		[]SOp{{K: "create", Val: 2}, {K: "put", Val: 3, Exp: Exp1h}},
		[]SOp{{K: "putmany", Keys: []int{0, 1}, Vals: []int{2, 3}, Exps: []int{0, 0}}, {K: "cas", Val: 2, Ver: 0, Exp: Exp3h}},
		[]SOp{{K: "put", Val: 2, Exp: Exp100h}, {K: "cas", Val: 3, Ver: 0, Exp: Exp1h}})
	for _, prefix := range prefixes {
		for _, adv := range []int{47, 97, 251} {
			for _, tch := range touches {
				for _, after := range []SOp{{K: "get"}, {K: "list", Pat: 0}, {K: "create", Val: 3}} {
					for _, park := range []bool{false, true} {
						c := SCase{Ops: append([]SOp{}, prefix...)}
						if park {
							c.Ops = append(c.Ops, SOp{K: "park"})
						}
						c.Ops = append(c.Ops, SOp{K: "advance", Min: adv}, tch, after, SOp{K: "get", Key: 1}, SOp{K: "list", Pat: 0})
						info, v := RunC06Inmem(t, c)
						st.Report(t, "TestC06FirstTouch-inmem", c, v)
						recordC06(c, info, "inmem")
						if park {
							continue
						}
						d, err := RedisDriver()
						if err != nil {
							t.Fatalf("INFRA: cannot start miniredis: %v", err)
						}
						info, v = RunSeq(c, []*Driver{d})
						st.Report(t, "TestC06FirstTouch-redis", c, v)
						recordC06(c, info, "redis")
					}
				}
			}
		}
	}
}

// ---------------------------------------------------------------------------------------------

func TestReplay(t *testing.T) {
	p := vstat.ReplayPath()
	if p == "" {
		t.Skip("no replay requested")
	}
	env, err := vstat.LoadReplay(p, nil)
	if err != nil {
		t.Fatalf("cannot load %s: %v", p, err)
	}
	if env.Test == "TestC02Private" {
		var c PrivateCase
		if _, err := vstat.LoadReplay(p, &c); err != nil {
			t.Fatalf("cannot decode %s: %v", p, err)
		}
		for i := 0; i < 10; i++ {
			vstat.For("C02").Report(t, "TestReplay", c, runPrivate(c, storageFor(t, c.Backend)))
		}
		return
	}
	if env.Test == "TestC07Deadline" {
		var c DeadlineCase
		if _, err := vstat.LoadReplay(p, &c); err != nil {
			t.Fatalf("cannot decode %s: %v", p, err)
		}
		for i := 0; i < 5; i++ {
			vstat.For("C07").Report(t, "TestReplay", c, runDeadline(t, c))
		}
		return
	}
	if env.Test == "TestC02RedisWire" {
		var c SchedCase
		if _, err := vstat.LoadReplay(p, &c); err != nil {
			t.Fatalf("cannot decode %s: %v", p, err)
		}
		c.History = nil
		runC02Wire(t, "TestReplay", c)
		return
	}
	if env.Test == "TestC02RedisLostReply" {
		var c WireCase
		if _, err := vstat.LoadReplay(p, &c); err != nil {
			t.Fatalf("cannot decode %s: %v", p, err)
		}
		_, v := RunWire(c)
		vstat.For("C02").Report(t, "TestReplay", c, v)
		return
	}
	if env.Test == "TestC06RedisWire" {
		var c WireCase
		if _, err := vstat.LoadReplay(p, &c); err != nil {
			t.Fatalf("cannot decode %s: %v", p, err)
		}
		_, v := RunWire(c)
		vstat.For("C06").Report(t, "TestReplay", c, v)
		return
	}
	if env.Test == "TestC03Bulk" {
		var c BulkCase
		if _, err := vstat.LoadReplay(p, &c); err != nil {
			t.Fatalf("cannot decode %s: %v", p, err)
		}
		runBulkBoth(t, "TestReplay", c)
		return
	}
	if env.Test == "TestC02Squeeze" || env.Test == "TestC07Squeeze" || env.Test == "TestC06Squeeze" {
		var c SqueezeCase
		if _, err := vstat.LoadReplay(p, &c); err != nil {
			t.Fatalf("cannot decode %s: %v", p, err)
		}
		for i := 0; i < 50; i++ {
			vstat.For(env.Property).Report(t, "TestReplay", c, runSqueeze(c.Pair))
		}
		return
	}
	if env.Test == "TestC02Hammer" {
		var c HammerCase
		if _, err := vstat.LoadReplay(p, &c); err != nil {
			t.Fatalf("cannot decode %s: %v", p, err)
		}
		for i := 0; i < 20; i++ {
			vstat.For("C02").Report(t, "TestReplay", c, runHammer(c, storageFor(t, c.Backend)))
		}
		return
	}
	if env.Test == "TestC07Hammer" {
		var c WaitHammerCase
		if _, err := vstat.LoadReplay(p, &c); err != nil {
			t.Fatalf("cannot decode %s: %v", p, err)
		}
		for i := 0; i < 20; i++ {
			vstat.For("C07").Report(t, "TestReplay", c, runWaitHammer(c, InmemDriver().St))
		}
		return
	}
	if env.Property == "C07" {
		replayC07(t, env, p)
		return
	}
	if env.Property == "C02" {
		replayC02(t, p)
		return
	}
	replaySeq(t, env, p)
}

func replaySeq(t *testing.T, env *vstat.Envelope, p string) {
	var c SCase
	if _, err := vstat.LoadReplay(p, &c); err != nil {
		t.Fatalf("cannot decode %s: %v", p, err)
	}
	switch {
	case env.Property == "C03" && env.Test == "TestC03InmemExpired":
		info, v := RunSeq(c, []*Driver{InmemDriver()})
		vstat.For("C03").Report(t, "TestReplay", c, v)
		recordC03(c, info)
	case env.Property == "C03":
		info, v := RunSeq(c, c03Drivers(t))
		vstat.For("C03").Report(t, "TestReplay", c, v)
		recordC03(c, info)
	case env.Property == "C06" && (env.Test == "TestC06InmemRapid" || env.Test == "TestC06FirstTouch-inmem"):
		info, v := RunC06Inmem(t, c)
		vstat.For("C06").Report(t, "TestReplay", c, v)
		recordC06(c, info, "inmem")
	case env.Property == "C06":
		d, err := RedisDriver()
		if err != nil {
			t.Fatalf("INFRA: %v", err)
		}
		info, v := RunSeq(c, []*Driver{d})
		vstat.For("C06").Report(t, "TestReplay", c, v)
		recordC06(c, info, "redis")
	default:
		t.Fatalf("replay of %s/%s is not handled here", env.Property, env.Test)
	}
}

// TestC06RedisExact: a record must be gone once the server has aged by ExpiresAt - t0, where t0 was read BEFORE the write
// call (any correct TTL is at most ExpiresAt minus the time of the call), and must still be there two milliseconds and
// the duration of the call earlier. Every write path, expiries with odd sub-millisecond parts.
func TestC06RedisExact(t *testing.T) {
	st := vstat.For("C06")
	m, s, err := Redis()
	if err != nil {
		t.Fatalf("INFRA: cannot start miniredis: %v", err)
	}
	ctx := context.Background()
	type ecase struct {
		Write string `json:"write"`
		D     int64  `json:"d_ns"`
	}
	run := func(c ecase) *vstat.Violation {
		m.FlushAll()
		key := "exact"
		d := time.Duration(c.D)
		ver := ""
		if c.Write == "cas" {
			r, err := s.Put(ctx, kvs.Record{Key: key, Value: []byte("0")})
			if err != nil {
				return vstat.V("redis:setup", "Put: %v", err)
			}
			ver = r.Version
		}
		t0 := time.Now()
		exp := t0.Add(d)
		var werr error
		switch c.Write {
		case "put":
			_, werr = s.Put(ctx, kvs.Record{Key: key, Value: []byte("v"), ExpiresAt: &exp})
		case "putmany":
			werr = s.PutMany(ctx, []kvs.Record{{Key: key, Value: []byte("v"), ExpiresAt: &exp}, {Key: "other", Value: []byte("w")}})
		case "create":
			_, werr = s.Create(ctx, kvs.Record{Key: key, Value: []byte("v"), ExpiresAt: &exp})
		case "cas":
			_, werr = s.CasByVersion(ctx, kvs.Record{Key: key, Value: []byte("v"), Version: ver, ExpiresAt: &exp})
		}
		took := time.Since(t0)
		if werr != nil {
			return vstat.V("redis:write-failed", "%s returned %v", c.Write, werr)
		}
		early := d - took - 2*time.Millisecond
		if early > 0 {
			m.FastForward(early)
			if _, err := s.Get(ctx, key); err != nil {
				return vstat.V("redis:dropped-early", "%s with an expiry %v ahead (the call took %v): after %v of server time Get returns %v", c.Write, d, took, early, err)
			}
			m.FastForward(d - early)
		} else {
			m.FastForward(d)
		}
		if r, err := s.Get(ctx, key); err == nil {
			return vstat.V("redis:visible-after-expiry", "%s with ExpiresAt = t0 + %v (t0 read before the call): after exactly %v of server time Get still returns the record (ExpiresAt %v)", c.Write, d, d, r.ExpiresAt.Sub(t0))
		}
		if _, err := s.Create(ctx, kvs.Record{Key: key, Value: []byte("n")}); err != nil {
			return vstat.V("redis:visible-after-expiry", "%s with ExpiresAt = t0 + %v: after exactly %v of server time Create returns %v", c.Write, d, d, err)
		}
		return nil
	}
	n := 0
	for rep := 0; rep < vstat.Pick(40, 400); rep++ {
		for _, w := range []string{"put", "putmany", "create", "cas"} {
			// whole and odd durations from a few milliseconds to hours
			for _, d := range []time.Duration{5*time.Millisecond + time.Duration(137*(rep+1))*time.Microsecond, time.Second + time.Duration(rep*7919)%time.Millisecond, time.Hour + time.Duration(rep)*333*time.Nanosecond, 1500 * time.Millisecond, 20*time.Millisecond + time.Duration(rep)*time.Microsecond} {
				c := ecase{Write: w, D: int64(d)}
				st.Report(t, "TestC06RedisExact", c, run(c))
				n++
			}
		}
	}
	st.Case(true, 0xe8ac7, func() any { return map[string]any{"exact_expiry_cases": n} }, "redis_exact_expiry")
	st.AddExtra("exact_expiry_cases", int64(n))
}
