package p_kv

import (
	"bytes"
	"context"
	"fmt"
	"io"
	"net"
	"os"
	"strings"
	"sync"
	"time"

	gerrors "github.com/acquirecloud/golibs/errors"
	"github.com/acquirecloud/golibs/kvs"
	kvredis "github.com/acquirecloud/golibs/kvs/redis"
	"github.com/alicebob/miniredis/v2"
	goredis "github.com/go-redis/redis/v8"
	"verifharness/internal/vstat"
)

// ---------------------------------------------------------------------------------------------
// C06 on the wire: the Redis backend against a server whose TTLs age with the real clock, with stalls placed
// INSIDE one storage call (between the commands a single Create / CasByVersion / PutMany consists of).
//
// miniredis ages TTLs only through FastForward; here every command that goes to the server and every observation is
// preceded by a catch-up FastForward of the real time elapsed since the previous one, so the server behaves like a
// real Redis (to within the time between catch-up and command). The connection of the client under test is wrapped:
// the k-th command of the call under test is stalled before it is forwarded (only commands that carry no TTL: GET,
// WATCH, DEL ...; stalling a TTL-carrying write before it reaches the server makes ANY client overshoot by the network
// latency, which is not the library's business) or its reply is stalled (every command).

// WireStall stalls the Cmd-th command (0-based) of the call under test for Ms milliseconds.
type WireStall struct {
	Cmd int `json:"cmd"`
	Ms  int `json:"ms"`
}

// WireCase is one generated case.
type WireCase struct {
	Op       string      `json:"op"`                   // put | putmany | create | cas | casretry | waitprolong
	LeadMs   int         `json:"lead_ms,omitempty"`    // waitprolong: the record (expiry OldExpMs ahead) is prolonged this long before it would expire, while a waiter polls it
	ExpMs    int         `json:"exp_ms"`               // expiry of the record(s) the call writes, from the start of the call
	OldExpMs int         `json:"old_exp_ms,omitempty"` // create: expiry of the record the key holds before the call (it lapses inside the call); 0 = none, removed by the harness during the first stall
	N        int         `json:"n,omitempty"`          // putmany: number of records (expiries ExpMs, ExpMs+60, ...)
	Stalls   []WireStall `json:"stalls,omitempty"`
	Drop     int         `json:"drop,omitempty"`  // 1 + index of the command of the call whose REPLY is lost: the server applies it, the connection breaks before the answer arrives
	Scale    int         `json:"scale,omitempty"` // all durations are multiplied by 1<<Scale (set on confirmation runs)
}

// WireInfo classifies a run.
type WireInfo struct {
	StalledBeforeWrite bool // a stall really happened inside the call before its last TTL-carrying write
	Wrote              int  // records with an expiry written by the call
	Commands           int
	Retried            int
	Exact              bool // the verdict does not depend on a time tolerance: no confirmation runs
}

type wireSrv struct {
	m    *miniredis.Miniredis
	mu   sync.Mutex
	last time.Time

	armed     bool
	n         int
	plan      map[int]time.Duration
	onFirst   func() // runs once, before the first stall
	log       []string
	t0        time.Time
	onCmd     map[int]func()       // runs right before the given command is forwarded
	onEach    func(names []string) // runs before every command of the call under test
	drop      int                  // 1 + index of the command whose reply is lost
	preTTL    bool                 // a stall happened and a TTL-carrying write followed it
	replyOnly bool                 // every stall is on the reply path (the command reaches the server at once)

	firstDone, stallSeen bool
}

func (w *wireSrv) sync() {
	w.mu.Lock()
	now := time.Now()
	if d := now.Sub(w.last); d > 0 {
		w.m.FastForward(d)
		w.last = now
	}
	w.mu.Unlock()
}

type wireConn struct {
	net.Conn
	w         *wireSrv
	delayRead time.Duration
	dropRead  bool
	rdl       time.Time // the read deadline the client has set (a withheld reply ends there, as on a real connection)
}

func (c *wireConn) SetReadDeadline(t time.Time) error { c.rdl = t; return c.Conn.SetReadDeadline(t) }
func (c *wireConn) SetDeadline(t time.Time) error     { c.rdl = t; return c.Conn.SetDeadline(t) }

func cmdNames(b []byte) []string {
	// RESP arrays of bulk strings: the command name is the first bulk string of each array
	var names []string
	for len(b) > 0 && b[0] == '*' {
		i := bytes.Index(b, []byte("\r\n"))
		if i < 0 {
			break
		}
		var n int
		fmt.Sscanf(string(b[1:i]), "%d", &n)
		b = b[i+2:]
		for k := 0; k < n; k++ {
			if len(b) == 0 || b[0] != '$' {
				return names
			}
			i = bytes.Index(b, []byte("\r\n"))
			if i < 0 {
				return names
			}
			var l int
			fmt.Sscanf(string(b[1:i]), "%d", &l)
			if len(b) < i+2+l+2 {
				return names
			}
			if k == 0 {
				names = append(names, strings.ToLower(string(b[i+2:i+2+l])))
			}
			b = b[i+2+l+2:]
		}
	}
	return names
}

var ttlFree = map[string]bool{"get": true, "watch": true, "unwatch": true, "del": true, "mget": true, "keys": true, "scan": true, "ping": true}

func (c *wireConn) Write(b []byte) (int, error) {
	w := c.w
	names := cmdNames(b)
	w.mu.Lock()
	armed := w.armed
	var stall time.Duration
	pre := false
	var first, at func()
	dropThis := false
	if armed && len(names) > 0 {
		j := w.n
		w.n++
		carries := false
		for _, nm := range names {
			if !ttlFree[nm] {
				carries = true
			}
		}
		if w.drop == j+1 {
			dropThis = true
			w.log = append(w.log, fmt.Sprintf("   (the reply of #%d is lost: the connection breaks)", j))
		}
		if d, ok := w.plan[j]; ok {
			stall, pre = d, !carries && !w.replyOnly
			if !w.firstDone {
				first, w.firstDone = w.onFirst, true
			}
		}
		if f := w.onCmd[j]; f != nil {
			at = f
		}
		if w.onEach != nil {
			f, prev := w.onEach, at
			at = func() {
				if prev != nil {
					prev()
				}
				f(names)
			}
		}
		if carries && w.stallSeen {
			w.preTTL = true
		}
		if stall > 0 {
			w.stallSeen = true
		}
		w.log = append(w.log, fmt.Sprintf("+%dms #%d %s%s", time.Since(w.t0).Milliseconds(), j, strings.Join(names, "+"), map[bool]string{true: fmt.Sprintf(" [stall %v %s]", stall, map[bool]string{true: "before forwarding", false: "before the reply"}[pre]), false: ""}[stall > 0]))
	}
	w.mu.Unlock()
	if first != nil {
		first()
	}
	if at != nil {
		at()
	}
	if stall > 0 && pre {
		time.Sleep(stall)
	}
	w.sync()
	n, err := c.Conn.Write(b)
	if stall > 0 && !pre {
		c.delayRead = stall
	}
	if dropThis {
		c.dropRead = true
	}
	return n, err
}

func (c *wireConn) Read(b []byte) (int, error) {
	if c.dropRead {
		time.Sleep(2 * time.Millisecond) // the server has applied the command by now
		c.Conn.Close()
		return 0, io.EOF
	}
	if d := c.delayRead; d > 0 {
		c.delayRead = 0
		if !c.rdl.IsZero() && time.Until(c.rdl) < d {
			if u := time.Until(c.rdl); u > -time.Millisecond {
				time.Sleep(u + time.Millisecond) // a read that times out comes back a moment AFTER its deadline
			}
			return 0, os.ErrDeadlineExceeded
		}
		time.Sleep(d)
	}
	return c.Conn.Read(b)
}

const wireKey = "w"

// RunWire runs a case; a failing case is confirmed by two re-runs with all durations doubled each time.
func RunWire(c WireCase) (info WireInfo, v *vstat.Violation) {
	for attempt := 0; attempt < 3; attempt++ {
		cc := c
		cc.Scale = c.Scale + attempt
		info, v = runWire(cc)
		info.Retried = attempt
		if v == nil || info.Exact {
			return
		}
	}
	return
}

func runWire(c WireCase) (info WireInfo, v *vstat.Violation) {
	m, err := miniredis.Run()
	if err != nil {
		return info, vstat.V("wire:setup", "miniredis: %v", err)
	}
	defer m.Close()
	w := &wireSrv{m: m, last: time.Now(), plan: map[int]time.Duration{}}
	ms := func(n int) time.Duration { return time.Duration(n) * time.Millisecond << c.Scale }
	tol := ms(150)
	for _, s := range c.Stalls {
		w.plan[s.Cmd] = ms(s.Ms)
	}
	w.drop = c.Drop
	dial := func(ctx context.Context, network, addr string) (net.Conn, error) {
		cn, err := (&net.Dialer{}).DialContext(ctx, network, addr)
		if err != nil {
			return nil, err
		}
		return &wireConn{Conn: cn, w: w}, nil
	}
	st := kvredis.New(&goredis.Options{Addr: m.Addr(), Dialer: dial, ReadTimeout: time.Minute, WriteTimeout: time.Minute, PoolTimeout: time.Minute})
	raw := kvredis.New(&goredis.Options{Addr: m.Addr()})
	defer func() {
		for _, s := range []kvs.Storage{st, raw} {
			if cl, ok := s.(io.Closer); ok {
				cl.Close()
			}
		}
	}()
	ctx := context.Background()
	fail := func(sig, format string, args ...any) *vstat.Violation {
		w.mu.Lock()
		lg := strings.Join(w.log, "\n    ")
		w.mu.Unlock()
		return vstat.V(sig, "%s\n  commands of the call under test (time since its start):\n    %s", fmt.Sprintf(format, args...), lg)
	}

	type written struct {
		key string
		exp time.Time
		val string
	}
	var wrote []written
	// --- setup
	oldVer := ""
	switch c.Op {
	case "create":
		r := kvs.Record{Key: wireKey, Value: []byte("old")}
		if c.OldExpMs > 0 {
			e := time.Now().Add(ms(c.OldExpMs))
			r.ExpiresAt = &e
		} else {
			w.onFirst = func() { w.sync(); raw.Delete(ctx, wireKey) }
		}
		w.sync()
		if _, err := raw.Put(ctx, r); err != nil {
			return info, vstat.V("wire:setup", "Put: %v", err)
		}
	case "cas", "casretry":
		w.sync()
		r, err := raw.Put(ctx, kvs.Record{Key: wireKey, Value: []byte("old")})
		if err != nil {
			return info, vstat.V("wire:setup", "Put: %v", err)
		}
		oldVer = r.Version
		if c.Op == "casretry" {
			// the key is touched (same content, so the same version) after the WATCH and GET of the first attempt, right
			// before its transaction block goes out: EXEC fails and the call has to start over
			w.onCmd = map[int]func(){2: func() {
				if val, err := m.Get("/kvs/" + wireKey); err == nil {
					m.Set("/kvs/"+wireKey, val)
				}
			}}
		}
	}
	if c.Op == "waitprolong" {
		// a waiter polls a record that is about to expire; shortly before the expiry the record is prolonged by an hour
		// (CasByVersion, or Put for odd LeadMs). The key exists without interruption, so the waiter must end with nil
		// (the version changed) - never with ErrNotExist.
		tSync := time.Now()
		w.sync()
		e1 := time.Now().Add(ms(c.OldExpMs))
		r0, err := raw.Put(ctx, kvs.Record{Key: wireKey, Value: []byte("old"), ExpiresAt: &e1})
		if err != nil {
			return info, vstat.V("wire:setup", "Put: %v", err)
		}
		// the server counts the TTL (e1 minus the moment the library read the clock, cut to whole milliseconds) from the
		// reading its clock had at the last catch-up: in real time the record lapses EARLIER than e1 by the time that passed
		// between that catch-up and the library's clock reading - microseconds on an idle machine, milliseconds on a loaded one
		slack := time.Since(tSync) + 2*time.Millisecond
		w.mu.Lock()
		w.armed, w.n, w.t0 = true, 0, time.Now()
		w.mu.Unlock()
		wctx, cancel := context.WithTimeout(ctx, ms(c.OldExpMs)+5*time.Second)
		defer cancel()
		done := make(chan error, 1)
		go func() { done <- st.WaitForVersionChange(wctx, wireKey, r0.Version) }()
		// the prolongation follows (1 ms later) the first poll of the waiter that comes less than LeadMs before the expiry, or
		// happens LeadMs/4 before the expiry at the latest
		far := time.Now().Add(time.Hour)
		var perr error
		var once sync.Once
		prolonged := make(chan struct{})
		prolong := func() {
			once.Do(func() {
				w.sync()
				if c.LeadMs%2 == 1 {
					_, perr = raw.Put(ctx, kvs.Record{Key: wireKey, Value: []byte("new"), ExpiresAt: &far})
				} else {
					_, perr = raw.CasByVersion(ctx, kvs.Record{Key: wireKey, Value: []byte("new"), Version: r0.Version, ExpiresAt: &far})
				}
				close(prolonged)
			})
		}
		w.mu.Lock()
		w.onEach = func(names []string) {
			if len(names) == 1 && names[0] == "get" && time.Until(e1) < ms(c.LeadMs) {
				go func() { time.Sleep(time.Millisecond); prolong() }()
			}
		}
		w.mu.Unlock()
		go func() { time.Sleep(time.Until(e1.Add(-ms(c.LeadMs) / 4))); prolong() }()
		<-prolonged
		prolongedAt := time.Now()
		werr := <-done
		w.mu.Lock()
		w.armed = false
		info.Commands = w.n
		w.mu.Unlock()
		if perr != nil || !prolongedAt.Before(e1.Add(-slack)) {
			if os.Getenv("WIRE_DEBUG") != "" {
				fmt.Fprintf(os.Stderr, "waitprolong not judged: perr=%v prolonged %v before expiry, waiter=%v\n", perr, e1.Sub(prolongedAt), werr)
			}
			return info, nil // the machine was too slow: the record had expired before it could be prolonged - nothing to judge
		}
		info.StalledBeforeWrite, info.Wrote, info.Exact = true, 1, true
		if werr != nil {
			return info, fail("wire:waiter-reports-live-record-missing", "a record expiring %v after its creation was prolonged by an hour %v before that moment (the key existed without interruption, its version changed); the WaitForVersionChange polling it returned %v, want nil", ms(c.OldExpMs), e1.Sub(prolongedAt), werr)
		}
		if r, err := raw.Get(ctx, wireKey); err != nil || string(r.Value) != "new" {
			return info, fail("wire:dropped-early", "the prolonged record is not readable afterwards: (%q, %v)", r.Value, err)
		}
		return info, nil
	}
	// --- the call under test
	w.mu.Lock()
	w.armed, w.n, w.t0 = true, 0, time.Now()
	w.mu.Unlock()
	t0 := w.t0
	exp := func(i int) time.Time { return t0.Add(ms(c.ExpMs + 60*i)) }
	var callErr error
	switch c.Op {
	case "put":
		e := exp(0)
		_, callErr = st.Put(ctx, kvs.Record{Key: wireKey, Value: []byte("new0"), ExpiresAt: &e})
		wrote = append(wrote, written{wireKey, e, "new0"})
	case "putmany":
		var rs []kvs.Record
		for i := 0; i < c.N; i++ {
			e := exp(i)
			k := fmt.Sprintf("%s%d", wireKey, i)
			rs = append(rs, kvs.Record{Key: k, Value: []byte(fmt.Sprintf("new%d", i)), ExpiresAt: &e})
			wrote = append(wrote, written{k, e, fmt.Sprintf("new%d", i)})
		}
		callErr = st.PutMany(ctx, rs)
	case "create":
		e := exp(0)
		_, callErr = st.Create(ctx, kvs.Record{Key: wireKey, Value: []byte("new0"), ExpiresAt: &e})
		if callErr == nil {
			wrote = append(wrote, written{wireKey, e, "new0"})
		} else if gerrors.Is(callErr, gerrors.ErrExist) {
			callErr = nil // the old record was still there when the call looked: nothing was written
		}
	case "cas", "casretry":
		e := exp(0)
		_, callErr = st.CasByVersion(ctx, kvs.Record{Key: wireKey, Value: []byte("new0"), Version: oldVer, ExpiresAt: &e})
		wrote = append(wrote, written{wireKey, e, "new0"})
	default:
		panic("bad wire op " + c.Op)
	}
	tRet := time.Now()
	w.mu.Lock()
	w.armed = false
	info.Commands = w.n
	info.StalledBeforeWrite = w.preTTL
	w.mu.Unlock()
	if c.Drop > 0 {
		// a lost reply: the call may report the connection error (the write may or may not have been applied), or succeed
		// after retrying; what it must not do is give a definite negative answer while its write is in the storage
		info.StalledBeforeWrite, info.Exact = true, true
		r, gerr := raw.Get(ctx, wireKey)
		mine := gerr == nil && string(r.Value) == "new0"
		if callErr != nil && (gerrors.Is(callErr, gerrors.ErrConflict) || gerrors.Is(callErr, gerrors.ErrNotExist)) && mine && (c.Op == "cas" || c.Op == "casretry") {
			return info, fail("wire:negative-answer-but-applied", "%s returned %v (a loser changes nothing) although the record now holds the value of this very call: the write was applied, its reply was lost, and the call answered from what it found on a second look", c.Op, callErr)
		}
		if callErr == nil && !mine {
			return info, fail("wire:success-but-not-applied", "%s returned nil after a lost reply, the record does not hold its value (Get: %q, %v)", c.Op, r.Value, gerr)
		}
		return info, nil
	}
	if callErr != nil {
		return info, fail("wire:unexpected-error", "%s returned %v", c.Op, callErr)
	}
	info.Wrote = len(wrote)
	// --- observations: alive shortly before the expiry (if that moment is still ahead), gone shortly after it
	for _, wr := range wrote {
		if d := time.Until(wr.exp.Add(-tol)); d > 0 {
			time.Sleep(d)
			w.sync()
			r, err := raw.Get(ctx, wr.key)
			if time.Now().Before(wr.exp) { // the observation itself may have been delayed
				if err != nil {
					return info, fail("wire:dropped-early", "%s wrote key %q with an expiry %v after the start of the call; %v before that moment Get returns %v", c.Op, wr.key, wr.exp.Sub(t0), time.Until(wr.exp), err)
				}
				if string(r.Value) != wr.val {
					return info, fail("wire:wrong-value", "key %q holds %q, written %q", wr.key, r.Value, wr.val)
				}
			}
		}
	}
	for _, wr := range wrote {
		if d := time.Until(wr.exp.Add(tol)); d > 0 {
			time.Sleep(d)
		}
		if d := time.Until(tRet.Add(tol)); d > 0 {
			// a record written with an expiry that had passed meanwhile gets the minimum TTL of 1 ms (Redis has no
			// "already expired" write): it may be seen for that long after the write
			time.Sleep(d)
		}
		w.sync()
		late := time.Since(wr.exp)
		if r, err := raw.Get(ctx, wr.key); err == nil {
			return info, fail("wire:visible-after-expiry", "%s wrote key %q with an expiry %v after the start of the call; %v AFTER that moment Get still returns the record (value %q, ExpiresAt %v in the past)", c.Op, wr.key, wr.exp.Sub(t0), late, r.Value, late)
		} else if !gerrors.Is(err, gerrors.ErrNotExist) {
			return info, fail("wire:get-error", "Get returned %v", err)
		}
		if _, err := raw.CasByVersion(ctx, kvs.Record{Key: wr.key, Version: garbageVer}); !gerrors.Is(err, gerrors.ErrNotExist) {
			return info, fail("wire:visible-after-expiry", "CasByVersion on key %q %v after its expiry returns %v, want ErrNotExist", wr.key, late, err)
		}
	}
	return info, nil
}
