package p_kv

import (
	"fmt"
	"sync"
	"testing"

	"pgregory.net/rapid"
	"verifharness/internal/vstat"
)

func genWire(t *rapid.T) WireCase {
	c := WireCase{Op: rapid.SampledFrom([]string{"create", "create", "cas", "casretry", "putmany", "put", "waitprolong", "waitprolong"}).Draw(t, "op")}
	c.ExpMs = rapid.IntRange(5, 12).Draw(t, "exp100") * 100
	ncmd := 3
	switch c.Op {
	case "create":
		if rapid.IntRange(0, 3).Draw(t, "oldKind") > 0 {
			c.OldExpMs = rapid.IntRange(1, 4).Draw(t, "oldExp100") * 100
		}
	case "casretry":
		ncmd = 8
	case "cas":
		ncmd = 4
	case "putmany":
		c.N = rapid.IntRange(2, 4).Draw(t, "n")
		ncmd = c.N
	case "put":
		ncmd = 1
	}
	if (c.Op == "cas" || c.Op == "casretry" || c.Op == "put") && rapid.IntRange(0, 3).Draw(t, "lostReply") == 0 {
		c.Drop = 1 + rapid.IntRange(0, ncmd-1).Draw(t, "drop")
		return c
	}
	ns := rapid.IntRange(1, 2).Draw(t, "stalls")
	used := map[int]bool{}
	for i := 0; i < ns; i++ {
		j := rapid.IntRange(0, ncmd-1).Draw(t, "cmd")
		if used[j] {
			continue
		}
		used[j] = true
		c.Stalls = append(c.Stalls, WireStall{Cmd: j, Ms: rapid.IntRange(2, 5).Draw(t, "stall100") * 100})
	}
	return c
}

func runWireBatch(rt vstat.TB, test string, batch []WireCase) {
	st := vstat.For("C06")
	infos := make([]WireInfo, len(batch))
	viols := make([]*vstat.Violation, len(batch))
	var wg sync.WaitGroup
	for i := range batch {
		wg.Add(1)
		go func(i int) {
			defer wg.Done()
			infos[i], viols[i] = RunWire(batch[i])
		}(i)
	}
	wg.Wait()
	for i, c := range batch {
		st.Report(rt, test, c, viols[i])
		cl := []string{"wire:" + c.Op, fmt.Sprintf("wire_commands_in_call:%d", infos[i].Commands)}
		if infos[i].StalledBeforeWrite {
			cl = append(cl, "wire_stall_inside_call_before_its_write:"+c.Op)
		}
		if infos[i].Retried > 0 {
			cl = append(cl, "wire_confirmed_only_after_retry")
		}
		st.Case(infos[i].StalledBeforeWrite && infos[i].Wrote > 0, vstat.Hash(c), func() any { return c }, cl...)
	}
}

// TestC06RedisWire: time passes INSIDE one storage call of the Redis backend (see wire.go).
func TestC06RedisWire(t *testing.T) {
	// systematic part: one stall at every command position of every op kind
	var batch []WireCase
	for _, op := range []struct {
		op   string
		ncmd int
	}{{"create", 3}, {"cas", 4}, {"casretry", 8}, {"putmany", 3}, {"put", 1}} {
		for j := 0; j < op.ncmd; j++ {
			c := WireCase{Op: op.op, ExpMs: 700, Stalls: []WireStall{{Cmd: j, Ms: 400}}}
			if op.op == "putmany" {
				c.N = 3
			}
			if op.op == "create" {
				c.OldExpMs = 200
				batch = append(batch, WireCase{Op: "create", ExpMs: 700, Stalls: []WireStall{{Cmd: j, Ms: 400}}})
			}
			batch = append(batch, c)
		}
	}
	for j := 1; j <= 4; j++ {
		batch = append(batch, WireCase{Op: "cas", ExpMs: 700, Drop: j})
	}
	for j := 1; j <= 8; j++ {
		batch = append(batch, WireCase{Op: "casretry", ExpMs: 700, Drop: j})
	}
	for _, lead := range []int{10, 25, 40, 55, 70} {
		batch = append(batch, WireCase{Op: "waitprolong", OldExpMs: 150, LeadMs: lead}, WireCase{Op: "waitprolong", OldExpMs: 90, LeadMs: lead})
	}
	runWireBatch(t, "TestC06RedisWire", batch)
	rapid.Check(t, func(rt *rapid.T) {
		n := rapid.IntRange(8, 16).Draw(rt, "batch")
		var batch []WireCase
		for i := 0; i < n; i++ {
			batch = append(batch, genWire(rt))
		}
		runWireBatch(rt, "TestC06RedisWire", batch)
	})
}

// TestC02RedisLostReply: the reply of one wire command of a CasByVersion call is lost (the server applied the command, the
// connection breaks). The call may report the connection error or succeed on its own retries, but a definite "conflict" /
// "not exist" answer while its write is in the storage contradicts "a loser changes nothing" (C02).
func TestC02RedisLostReply(t *testing.T) {
	st := vstat.For("C02")
	var batch []WireCase
	for rep := 0; rep < vstat.Pick(2, 12); rep++ {
		for j := 1; j <= 4; j++ {
			batch = append(batch, WireCase{Op: "cas", ExpMs: 700 + rep, Drop: j})
		}
		for j := 1; j <= 8; j++ {
			batch = append(batch, WireCase{Op: "casretry", ExpMs: 700 + rep, Drop: j})
		}
	}
	infos := make([]WireInfo, len(batch))
	viols := make([]*vstat.Violation, len(batch))
	var wg sync.WaitGroup
	for i := range batch {
		wg.Add(1)
		go func(i int) { defer wg.Done(); infos[i], viols[i] = RunWire(batch[i]) }(i)
	}
	wg.Wait()
	for i, c := range batch {
		st.Report(t, "TestC02RedisLostReply", c, viols[i])
		st.Case(true, vstat.Hash(c), func() any { return c }, fmt.Sprintf("lost_reply:%s:cmd%d", c.Op, c.Drop-1))
	}
}
