package p_kv

import (
	"context"
	"fmt"
	"net"
	"strings"
	"sync"
	"testing"
	"testing/synctest"
	"time"

	gerrors "github.com/acquirecloud/golibs/errors"
	"github.com/acquirecloud/golibs/kvs"
	"github.com/acquirecloud/golibs/kvs/inmem"
	kvredis "github.com/acquirecloud/golibs/kvs/redis"
	"github.com/alicebob/miniredis/v2"
	goredis "github.com/go-redis/redis/v8"
	"pgregory.net/rapid"
	"verifharness/internal/vstat"
)

func genWCase(t *rapid.T, maxLen int, clock bool, faults ...bool) WCase {
	fault := len(faults) > 0 && faults[0]
	kinds := []string{"start", "start", "start", "start", "start", "ungate", "ungate", "cancel", "cancel", "put", "put", "putmany", "putmany", "casok", "casok", "casbad", "delete", "delete", "create", "create"}
	if clock {
		kinds = append(kinds, "advance")
	}
	if fault {
		kinds = append(kinds, "fault", "fault")
	}
	n := rapid.IntRange(1, maxLen).Draw(t, "len")
	var ops []WOp
	for i := 0; i < n; i++ {
		op := WOp{K: rapid.SampledFrom(kinds).Draw(t, "kind"), Key: rapid.SampledFrom([]int{0, 0, 0, 1}).Draw(t, "key")}
		switch op.K {
		case "start":
			op.Ver = rapid.SampledFrom([]int{0, 0, 0, 0, 0, 0, 1, 2, 3, 3, 4, 5, 6, 7, 8, 9, 10}).Draw(t, "ver")
			op.Pre = rapid.IntRange(0, 9).Draw(t, "pre") == 0
			op.Gate = rapid.IntRange(0, 3).Draw(t, "gate") == 0
		case "cancel", "ungate":
			op.W = rapid.IntRange(0, 3).Draw(t, "w")
		case "putmany":
			op.Two = rapid.Bool().Draw(t, "two")
			op.Exp = clock && rapid.IntRange(0, 3).Draw(t, "exp") == 0
			op.Past = clock && rapid.IntRange(0, 7).Draw(t, "past") == 0
		case "put", "casok", "create":
			op.Exp = clock && rapid.IntRange(0, 3).Draw(t, "exp") == 0
			op.Past = clock && op.K != "create" && rapid.IntRange(0, 7).Draw(t, "past") == 0
			op.Journal = op.K != "create" && rapid.IntRange(0, 3).Draw(t, "journal") == 0
			op.Lag = op.K == "put" && clock && rapid.IntRange(0, 5).Draw(t, "lag") == 0
		case "advance":
			op.Min = rapid.SampledFrom([]int{25, 47, 90}).Draw(t, "min")
		}
		ops = append(ops, op)
	}
	return WCase{Ops: ops}
}

func recordC07(c WCase, info WInfo, env string) {
	cl := append(info.ClassList(), "env:"+env)
	vstat.For("C07").Case(info.CancelBesideParked || info.MultiWake, vstat.Hash(c)^vstat.HashBytes([]byte(env)),
		func() any { return map[string]any{"env": env, "script": c} }, cl...)
}

// RunC07Inmem plays a script on the in-memory backend inside a bubble: "promptly" = by the next quiescence.
func RunC07Inmem(t *testing.T, c WCase) (info WInfo, v *vstat.Violation) {
	synctest.Test(t, func(*testing.T) {
		st := inmem.New()
		env := &WEnv{Name: "inmem", St: st, Now: time.Now, Advance: time.Sleep, Gates: true, PastWrites: true,
			Settle: func([]chan struct{}) bool { synctest.Wait(); return true },
			Table:  func() (int, int, bool) { return waiterTable(st) }}
		info, v = RunWait(c, env)
		if v != nil && v.Sig == "inmem:wait-ignores-cancel" {
			panic("cannot leave the bubble: " + v.Msg) // parked goroutines would remain
		}
	})
	return
}

func TestC07InmemRapid(t *testing.T) {
	st := vstat.For("C07")
	rapid.Check(t, func(rt *rapid.T) {
		c := genWCase(rt, vstat.Pick(25, 40), true)
		stop := st.Watch("TestC07InmemRapid", "inmem", c, 40*time.Second)
		info, v := RunC07Inmem(t, c)
		stop()
		st.Report(rt, "TestC07InmemRapid", c, v)
		recordC07(c, info, "inmem-bubble")
	})
}

// RunC07Redis plays a script on its own miniredis server with bounded real time.
func RunC07Redis(c WCase) (info WInfo, v *vstat.Violation, infra error) {
	return runC07Redis(c, 5*time.Second)
}

// runC07Redis: bound = how long after the 200 ms settling time a waiter that must return may still take (machine stalls; a
// violation of the bound is confirmed by re-runs before it is reported).
func runC07Redis(c WCase, bound time.Duration) (info WInfo, v *vstat.Violation, infra error) {
	m, err := miniredis.Run()
	if err != nil {
		return info, nil, err
	}
	defer m.Close()
	st := kvredis.New(&goredis.Options{Addr: m.Addr(), PoolSize: 16})
	defer st.(interface{ Close() error }).Close()
	settle := func(must []chan struct{}) bool {
		time.Sleep(200 * time.Millisecond) // longer than the longest poll gap (64 ms) of the Redis waiter
		deadline := time.After(bound)
		for _, ch := range must {
			select {
			case <-ch:
			case <-deadline:
				return false
			}
		}
		return true
	}
	env := &WEnv{Name: "redis", St: st, Now: time.Now, Advance: func(d time.Duration) { m.FastForward(d) }, Settle: settle,
		Quiet: time.Sleep, LaggingServer: true,
		Raw: func(key string) []byte {
			for _, k := range m.Keys() {
				if strings.HasSuffix(k, key) {
					if b, err := m.Get(k); err == nil {
						return []byte(b)
					}
				}
			}
			return nil
		},
		Fault: func() {
			m.SetError("LOADING the harness makes every command fail for a moment")
			time.Sleep(180 * time.Millisecond) // longer than the longest poll gap: every parked waiter polls into the fault
			m.SetError("")
		}}
	info, v = RunWait(c, env)
	return
}

// versionScripts: every kind of version argument against a live key (the waiter must return nil at once unless the
// argument is the current version), followed by a write.
func versionScripts() []WCase {
	var out []WCase
	for ver := 0; ver <= 10; ver++ {
		out = append(out, WCase{Ops: []WOp{{K: "put"}, {K: "start", Ver: ver}, {K: "put"}}},
			WCase{Ops: []WOp{{K: "create"}, {K: "put"}, {K: "start", Ver: ver}, {K: "start", Ver: (ver + 3) % 11}, {K: "delete"}}})
	}
	return out
}

// quietScripts: waiters that have been parked for a while (seconds of real time with nothing happening) before the change,
// the cancellation or the removal comes: "promptly" must not depend on how long the waiter has been waiting. The bound
// is tight here (1 s beyond the settling time; the longest poll gap of the Redis waiter is 64 ms).
func quietScripts() []WCase {
	var out []WCase
	for _, ms := range []int{2100, 4300} {
		for _, wake := range []WOp{{K: "put"}, {K: "delete"}, {K: "casok"}, {K: "cancel"}, {K: "putmany", Two: true}} {
			out = append(out, WCase{Ops: []WOp{{K: "put"}, {K: "start"}, {K: "start"}, {K: "quiet", Quiet: ms}, wake}})
		}
	}
	return out
}

// TestC07RedisQuiet runs the quietScripts, all at once.
func TestC07RedisQuiet(t *testing.T) {
	st := vstat.For("C07")
	scripts := quietScripts()
	viols := make([]*vstat.Violation, len(scripts))
	infos := make([]WInfo, len(scripts))
	var wg sync.WaitGroup
	for i := range scripts {
		wg.Add(1)
		go func(i int) {
			defer wg.Done()
			for try := 0; try < 3; try++ {
				infos[i], viols[i], _ = runC07Redis(scripts[i], time.Second)
				if viols[i] == nil || viols[i].Sig != "redis:wait-not-woken" {
					break // a bound exceeded three times in a row is no machine stall
				}
			}
		}(i)
	}
	wg.Wait()
	for i := range scripts {
		st.Report(t, "TestC07RedisQuiet", scripts[i], viols[i])
		recordC07(scripts[i], infos[i], "redis-quiet")
	}
}

func TestC07RedisRapid(t *testing.T) {
	st := vstat.For("C07")
	if shard, _ := vstat.Shard(); shard == 0 {
		scripts := versionScripts()
		viols := make([]*vstat.Violation, len(scripts))
		infos := make([]WInfo, len(scripts))
		var wg sync.WaitGroup
		for i := range scripts {
			wg.Add(1)
			go func(i int) { defer wg.Done(); infos[i], viols[i], _ = RunC07Redis(scripts[i]) }(i)
		}
		wg.Wait()
		for i := range scripts {
			st.Report(t, "TestC07RedisRapid", scripts[i], viols[i])
			recordC07(scripts[i], infos[i], "redis")
		}
	}
	rapid.Check(t, func(rt *rapid.T) {
		n := rapid.IntRange(1, 8).Draw(rt, "batch")
		batch := make([]WCase, n)
		for i := range batch {
			batch[i] = genWCase(rt, 10, true, true)
		}
		type res struct {
			info  WInfo
			v     *vstat.Violation
			infra error
		}
		out := make([]res, n)
		var wg sync.WaitGroup
		for i := range batch {
			wg.Add(1)
			go func(i int) {
				defer wg.Done()
				out[i].info, out[i].v, out[i].infra = RunC07Redis(batch[i])
				if out[i].v != nil && (out[i].v.Sig == "redis:wait-not-woken") {
					// real-time bound exceeded: confirm once before reporting (machine stall vs lost wake-up)
					_, v2, _ := RunC07Redis(batch[i])
					if v2 == nil {
						vstat.For("C07").Inconclusivef("a redis script exceeded its wake-up bound once and passed on re-run")
						out[i].v = nil
					}
				}
			}(i)
		}
		wg.Wait()
		for i := range batch {
			if out[i].infra != nil {
				t.Fatalf("INFRA: miniredis: %v", out[i].infra)
			}
			st.Report(rt, "TestC07RedisRapid", batch[i], out[i].v)
			recordC07(batch[i], out[i].info, "redis")
		}
	})
}

func replayC07(t *testing.T, env *vstat.Envelope, p string) {
	var c WCase
	if _, err := vstat.LoadReplay(p, &c); err != nil {
		t.Fatalf("cannot decode %s: %v", p, err)
	}
	st := vstat.For("C07")
	if env.Test == "TestC07RedisQuiet" {
		var info WInfo
		var v *vstat.Violation
		for try := 0; try < 3; try++ {
			if info, v, _ = runC07Redis(c, time.Second); v == nil || v.Sig != "redis:wait-not-woken" {
				break
			}
		}
		st.Report(t, "TestReplay", c, v)
		recordC07(c, info, "redis-quiet")
		return
	}
	if env.Test == "TestC07RedisRapid" {
		info, v, infra := RunC07Redis(c)
		if infra != nil {
			t.Fatalf("INFRA: %v", infra)
		}
		st.Report(t, "TestReplay", c, v)
		recordC07(c, info, "redis")
		return
	}
	info, v := RunC07Inmem(t, c)
	st.Report(t, "TestReplay", c, v)
	recordC07(c, info, "inmem-bubble")
}

// ---------------------------------------------------------------------------------------------
// deadlines: a waiter whose context carries a deadline, on a key that does not change. It may return the context's error
// only once the context is done (exact: ctx.Err() is read the moment the call returns), and it must return soon after.

// DeadlineCase is one case.
type DeadlineCase struct {
	Backend string `json:"backend"`          // inmem | redis
	Ms      int    `json:"ms"`               // deadline, from the start of the call
	Change  int    `json:"change,omitempty"` // >0: the key gets a new version this many ms after the start (before the deadline): the waiter must return nil
	Idx     int    `json:"idx,omitempty"`    // position inside the batch (part of the key: the cases of a batch run at the same time)
	// StallPoll (redis): 1 + index of the waiter's poll whose REPLY the connection withholds until 2 s after the deadline
	// (server or network silent): the waiter must be back by the deadline all the same - with the context's error or with
	// the connection's own, never with nil or ErrNotExist
	StallPoll int `json:"stall_poll,omitempty"`
	// Joiner (with StallPoll): the first waiter has time (3 s); while the reply of its StallPoll-th poll is withheld (500 ms) the
	// key is rewritten through another client and a SECOND waiter is started on the same client with the NEW version and a
	// deadline of 600 + Ms ms (beyond the arrival of the withheld reply): for it nothing has changed - it must stay blocked until its deadline; the first waiter must end with nil
	Joiner bool `json:"joiner,omitempty"`
	// Repeat (with StallPoll): that many waiters in a row on one client with a pool of two connections, each losing the
	// reply of its StallPoll-th poll across its deadline; afterwards an ordinary waiter on the same client must see an ordinary change
	Repeat int `json:"repeat,omitempty"`
}

func wireClient(m *miniredis.Miniredis, w *wireSrv, pool int) kvs.Storage {
	dial := func(ctx context.Context, network, addr string) (net.Conn, error) {
		cn, err := (&net.Dialer{}).DialContext(ctx, network, addr)
		if err != nil {
			return nil, err
		}
		return &wireConn{Conn: cn, w: w}, nil
	}
	return kvredis.New(&goredis.Options{Addr: m.Addr(), Dialer: dial, ReadTimeout: time.Minute, WriteTimeout: time.Minute, PoolTimeout: time.Minute, MaxRetries: -1, PoolSize: pool})
}

// runJoiner: see DeadlineCase.Joiner.
func runJoiner(c DeadlineCase) *vstat.Violation {
	m, err := miniredis.Run()
	if err != nil {
		return vstat.V("redis:setup", "miniredis: %v", err)
	}
	defer m.Close()
	w := &wireSrv{m: m, last: time.Now(), plan: map[int]time.Duration{c.StallPoll - 1: 500 * time.Millisecond}, replyOnly: true}
	st := wireClient(m, w, 16)
	defer st.(interface{ Close() error }).Close()
	raw := kvredis.New(&goredis.Options{Addr: m.Addr()})
	defer raw.(interface{ Close() error }).Close()
	bg := context.Background()
	r1, err := st.Put(bg, kvs.Record{Key: "jo", Value: []byte("1")})
	if err != nil {
		return vstat.V("redis:setup", "Put: %v", err)
	}
	w.mu.Lock()
	w.armed, w.t0 = true, time.Now()
	w.mu.Unlock()
	ctx1, cancel1 := context.WithTimeout(bg, 3*time.Second)
	defer cancel1()
	res1 := make(chan error, 1)
	go func() { res1 <- st.WaitForVersionChange(ctx1, "jo", r1.Version) }()
	// wait until the poll whose reply is withheld has been sent
	for t := time.Now(); ; time.Sleep(200 * time.Microsecond) {
		w.mu.Lock()
		sent := w.n >= c.StallPoll
		w.mu.Unlock()
		if sent {
			break
		}
		if time.Since(t) > 2*time.Second {
			return nil // the waiter did not get that far (it polls with growing pauses): nothing to judge
		}
	}
	time.Sleep(2 * time.Millisecond) // the server has answered; the answer is on hold
	r2, err := raw.Put(bg, kvs.Record{Key: "jo", Value: []byte("2")})
	if err != nil {
		return vstat.V("redis:setup", "Put: %v", err)
	}
	dl := 600*time.Millisecond + time.Duration(c.Ms)*time.Millisecond // beyond the moment the withheld reply arrives
	ctx2, cancel2 := context.WithTimeout(bg, dl)
	defer cancel2()
	t2 := time.Now()
	err2 := st.WaitForVersionChange(ctx2, "jo", r2.Version)
	took2 := time.Since(t2)
	w.mu.Lock()
	log := strings.Join(w.log, " | ")
	w.mu.Unlock()
	if err2 == nil || isClass(err2, gerrors.ErrNotExist) {
		return vstat.V("redis:wait-spurious", "a waiter started with the CURRENT version %s of the key (written a moment before through another client) returned %v after %v although nothing changed afterwards; another waiter of the same client had a poll in flight whose reply (the previous version) was being withheld; commands: %s", r2.Version, err2, took2, log)
	}
	select {
	case err1 := <-res1:
		if err1 != nil {
			return vstat.V("redis:wait-result", "the first waiter (version %s, rewritten to %s while the reply of its poll #%d was withheld) returned %v, want nil; commands: %s", r1.Version, r2.Version, c.StallPoll-1, err1, log)
		}
	case <-time.After(2 * time.Second):
		return vstat.V("redis:wait-not-woken", "the first waiter (version %s, rewritten to %s while the reply of its poll #%d was withheld for 500 ms) has not returned 2 s after the second waiter's deadline; commands: %s", r1.Version, r2.Version, c.StallPoll-1, log)
	}
	return nil
}

// runRepeat: see DeadlineCase.Repeat.
func runRepeat(c DeadlineCase) *vstat.Violation {
	m, err := miniredis.Run()
	if err != nil {
		return vstat.V("redis:setup", "miniredis: %v", err)
	}
	defer m.Close()
	dl := time.Duration(c.Ms) * time.Millisecond
	w := &wireSrv{m: m, last: time.Now(), plan: map[int]time.Duration{}, replyOnly: true}
	st := wireClient(m, w, 2)
	defer st.(interface{ Close() error }).Close()
	bg := context.Background()
	r0, err := st.Put(bg, kvs.Record{Key: "rp", Value: []byte("0")})
	if err != nil {
		return vstat.V("redis:setup", "Put: %v", err)
	}
	w.mu.Lock()
	w.armed, w.t0 = true, time.Now()
	w.mu.Unlock()
	for i := 0; i < c.Repeat; i++ {
		w.mu.Lock()
		w.plan[w.n+c.StallPoll-1] = dl + 500*time.Millisecond
		w.mu.Unlock()
		ctx, cancel := context.WithTimeout(bg, dl)
		t0 := time.Now()
		werr := st.WaitForVersionChange(ctx, "rp", r0.Version)
		took := time.Since(t0)
		cancel()
		if werr == nil || isClass(werr, gerrors.ErrNotExist) {
			return vstat.V("redis:wait-spurious", "waiter %d of %d in a row (key untouched, a poll reply withheld across its %d ms deadline) returned %v after %v", i+1, c.Repeat, c.Ms, werr, took)
		}
		if took > dl+1500*time.Millisecond {
			return nil // a stalled machine: nothing to judge
		}
	}
	w.mu.Lock()
	w.plan = map[int]time.Duration{}
	w.mu.Unlock()
	ctx, cancel := context.WithTimeout(bg, 3*time.Second)
	defer cancel()
	res := make(chan error, 1)
	go func() { res <- st.WaitForVersionChange(ctx, "rp", r0.Version) }()
	time.Sleep(50 * time.Millisecond)
	if _, err := st.Put(bg, kvs.Record{Key: "rp", Value: []byte("1")}); err != nil {
		return vstat.V("redis:setup", "Put: %v", err)
	}
	select {
	case werr := <-res:
		if werr != nil {
			return vstat.V("redis:wait-result", "after %d waiters in a row had lost a poll reply across their deadlines on this client (pool of 2 connections), an ordinary waiter returned %v for an ordinary change, want nil", c.Repeat, werr)
		}
	case <-time.After(1500 * time.Millisecond):
		return vstat.V("redis:wait-not-woken", "after %d waiters in a row had lost a poll reply across their deadlines on this client (pool of 2 connections), an ordinary waiter is still blocked 1.5 s after the key got a new version", c.Repeat)
	}
	return nil
}

// runStalledPoll: see DeadlineCase.StallPoll. Own server, own connection wrapper.
func runStalledPoll(c DeadlineCase) *vstat.Violation {
	m, err := miniredis.Run()
	if err != nil {
		return vstat.V("redis:setup", "miniredis: %v", err)
	}
	defer m.Close()
	dl := time.Duration(c.Ms) * time.Millisecond
	w := &wireSrv{m: m, last: time.Now(), plan: map[int]time.Duration{c.StallPoll - 1: dl + 2*time.Second}, replyOnly: true}
	dial := func(ctx context.Context, network, addr string) (net.Conn, error) {
		cn, err := (&net.Dialer{}).DialContext(ctx, network, addr)
		if err != nil {
			return nil, err
		}
		return &wireConn{Conn: cn, w: w}, nil
	}
	st := kvredis.New(&goredis.Options{Addr: m.Addr(), Dialer: dial, ReadTimeout: time.Minute, WriteTimeout: time.Minute, PoolTimeout: time.Minute, MaxRetries: -1})
	defer st.(interface{ Close() error }).Close()
	bg := context.Background()
	r0, err := st.Put(bg, kvs.Record{Key: "sp", Value: []byte("0")})
	if err != nil {
		return vstat.V("redis:setup", "Put: %v", err)
	}
	ctx, cancel := context.WithTimeout(bg, dl)
	defer cancel()
	w.mu.Lock()
	w.armed, w.t0 = true, time.Now()
	w.mu.Unlock()
	t0 := time.Now()
	werr := st.WaitForVersionChange(ctx, "sp", r0.Version)
	took := time.Since(t0)
	w.mu.Lock()
	w.armed = false
	polls, log := w.n, strings.Join(w.log, " | ")
	w.mu.Unlock()
	if polls < c.StallPoll {
		return nil // the deadline came before that poll
	}
	if werr == nil || isClass(werr, gerrors.ErrNotExist) {
		return vstat.V("redis:wait-spurious", "the key was not touched and the reply of poll #%d was withheld; the waiter under a %d ms deadline returned %v after %v; commands: %s", c.StallPoll-1, c.Ms, werr, took, log)
	}
	if took > dl+700*time.Millisecond {
		return vstat.V("redis:wait-outlives-deadline", "the reply of poll #%d was withheld for 2 s beyond the %d ms deadline of the waiter's context: WaitForVersionChange returned %v only %v after its start (%v after the deadline); commands: %s", c.StallPoll-1, c.Ms, werr, took, took-dl, log)
	}
	return nil
}

func runDeadline(t vstat.TB, c DeadlineCase) *vstat.Violation {
	if c.StallPoll > 0 && (c.Joiner || c.Repeat > 0) {
		run := runJoiner
		if c.Repeat > 0 {
			run = runRepeat
		}
		v := run(c)
		if v != nil && (v.Sig == "redis:wait-not-woken" || v.Sig == "redis:wait-spurious") {
			v = run(c) // time is involved: confirmed once
		}
		return v
	}
	if c.StallPoll > 0 {
		v := runStalledPoll(c)
		if v != nil && v.Sig == "redis:wait-outlives-deadline" {
			v = runStalledPoll(c) // a time bound: confirmed once
		}
		return v
	}
	var st kvs.Storage
	key := fmt.Sprintf("dl-%d-%d-%d", c.Idx, c.Ms, c.Change)
	if c.Backend == "redis" {
		_, s, err := Redis()
		if err != nil {
			t.Fatalf("INFRA: cannot start miniredis: %v", err)
		}
		st = s
	} else {
		st = inmem.New()
	}
	bg := context.Background()
	r0, err := st.Put(bg, kvs.Record{Key: key, Value: []byte("0")})
	if err != nil {
		return vstat.V(c.Backend+":setup", "Put: %v", err)
	}
	ctx, cancel := context.WithTimeout(bg, time.Duration(c.Ms)*time.Millisecond)
	defer cancel()
	t0 := time.Now()
	if c.Change > 0 {
		go func() {
			time.Sleep(time.Duration(c.Change) * time.Millisecond)
			st.Put(bg, kvs.Record{Key: key, Value: []byte("1")})
		}()
	}
	werr := st.WaitForVersionChange(ctx, key, r0.Version)
	ctxErr := ctx.Err()
	took := time.Since(t0)
	isCtx := werr != nil && (gerrors.Is(werr, context.DeadlineExceeded) || gerrors.Is(werr, context.Canceled))
	if isCtx && ctxErr == nil {
		return vstat.V(c.Backend+":wait-ctx-error-with-live-context", "WaitForVersionChange under a %d ms deadline returned %v after %v while its context was still live (ctx.Err()==nil) - the context's error may only be returned once the context is done", c.Ms, werr, took)
	}
	switch {
	case c.Change > 0 && c.Change+60 < c.Ms:
		if werr != nil && took < time.Duration(c.Ms)*time.Millisecond {
			return vstat.V(c.Backend+":wait-result", "the key got a new version %d ms after the start, well before the %d ms deadline; the waiter returned %v after %v", c.Change, c.Ms, werr, took)
		}
	case c.Change == 0:
		if werr == nil || isClass(werr, gerrors.ErrNotExist) {
			return vstat.V(c.Backend+":wait-spurious", "the key was not touched; the waiter under a %d ms deadline returned %v", c.Ms, werr)
		}
	}
	st.Delete(bg, key)
	return nil
}

func TestC07Deadline(t *testing.T) {
	st := vstat.For("C07")
	var cases []DeadlineCase
	for _, be := range []string{"inmem", "redis"} {
		for _, ms := range []int{20, 45, 70, 100, 130, 190, 260} {
			cases = append(cases, DeadlineCase{Backend: be, Ms: ms})
		}
		cases = append(cases, DeadlineCase{Backend: be, Ms: 300, Change: 40}, DeadlineCase{Backend: be, Ms: 300, Change: 150})
	}
	for i, ms := range []int{60, 150, 250, 400} {
		cases = append(cases, DeadlineCase{Backend: "redis", Ms: ms, StallPoll: 1 + i})
	}
	cases = append(cases, DeadlineCase{Backend: "redis", Ms: 200, StallPoll: 1, Joiner: true}, DeadlineCase{Backend: "redis", Ms: 250, StallPoll: 3, Joiner: true},
		DeadlineCase{Backend: "redis", Ms: 60, StallPoll: 1, Repeat: 3}, DeadlineCase{Backend: "redis", Ms: 90, StallPoll: 2, Repeat: 5})
	run := func(tb vstat.TB, batch []DeadlineCase) {
		viols := make([]*vstat.Violation, len(batch))
		var wg sync.WaitGroup
		for i := range batch {
			wg.Add(1)
			go func(i int) { defer wg.Done(); viols[i] = runDeadline(tb, batch[i]) }(i)
		}
		wg.Wait()
		for i, c := range batch {
			st.Report(tb, "TestC07Deadline", c, viols[i])
			cl := []string{"deadline_waiter:" + c.Backend}
			if c.StallPoll > 0 {
				cl = append(cl, "deadline_waiter_with_a_withheld_poll_reply")
			}
			if c.Joiner {
				cl = append(cl, "second_waiter_started_while_a_poll_reply_of_the_first_is_withheld")
			}
			if c.Repeat > 0 {
				cl = append(cl, "waiters_in_a_row_losing_a_poll_reply_across_their_deadline")
			}
			st.Case(true, vstat.Hash(c), func() any { return c }, cl...)
		}
	}
	run(t, cases)
	rapid.Check(t, func(rt *rapid.T) {
		n := rapid.IntRange(4, 12).Draw(rt, "batch")
		var batch []DeadlineCase
		for i := 0; i < n; i++ {
			c := DeadlineCase{Backend: rapid.SampledFrom([]string{"inmem", "redis", "redis"}).Draw(rt, "backend"), Ms: rapid.IntRange(10, 400).Draw(rt, "ms")}
			if rapid.IntRange(0, 3).Draw(rt, "change") == 0 {
				c.Change = rapid.IntRange(1, c.Ms).Draw(rt, "changeAt")
			} else if c.Backend == "redis" && rapid.IntRange(0, 3).Draw(rt, "stalledPoll") == 0 {
				c.StallPoll = 1 + rapid.IntRange(0, 5).Draw(rt, "poll")
				switch rapid.IntRange(0, 3).Draw(rt, "stallKind") {
				case 0:
					c.Joiner = true
					c.Ms = max(c.Ms, 120)
				case 1:
					c.Repeat = rapid.IntRange(2, 6).Draw(rt, "repeat")
					c.Ms = min(c.Ms, 150)
					c.StallPoll = min(c.StallPoll, 3)
				}
			}
			c.Idx = i
			batch = append(batch, c)
		}
		run(rt, batch)
	})
}
