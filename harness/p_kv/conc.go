package p_kv

import (
	"context"
	"fmt"
	"runtime"
	"sort"
	"strings"
	"sync"
	"sync/atomic"
	"time"

	gerrors "github.com/acquirecloud/golibs/errors"
	"github.com/acquirecloud/golibs/kvs"
	"github.com/anishathalye/porcupine"
	"verifharness/internal/vstat"
)

// ---------------------------------------------------------------------------------------------
// C02: concurrent histories, checked for linearizability per key (porcupine) plus direct counters

// COp is one operation of a thread program.
type COp struct {
	K     string `json:"k"` // create get put cas delete getmany putmany
	Key   int    `json:"key"`
	Keys  []int  `json:"keys,omitempty"` // getmany / putmany (no repeats)
	Ver   int    `json:"ver,omitempty"`  // cas: 0 last version this thread saw for the key, 1 an older one it saw, 2 garbage
	Exp   bool   `json:"exp,omitempty"`  // write with an expiry far in the future (the second Redis code path)
	Same  bool   `json:"same,omitempty"` // write the constant value "same" instead of a value unique to this call
	Exps  []bool `json:"exps,omitempty"` // putmany: per-record expiry flags (nil: Exp for all); Keys may then repeat - the last record of a key counts
	Yield int    `json:"yield,omitempty"`
	Past  bool   `json:"past,omitempty"`  // write a record whose expiry passed an hour ago (in-memory cases only): the key is absent afterwards
	Short bool   `json:"short,omitempty"` // write with an expiry 1 ms ahead (wire-scheduled Redis cases only: miniredis does not age it, so the record stays in Redis with an ExpiresAt in the past - a server whose clock lags)
}

// CCase is the generated object: one program per thread. History is filled in on failure (replay unit).
type CCase struct {
	Backend  string  `json:"backend"` // inmem | redis
	NKeys    int     `json:"nkeys"`
	Programs [][]COp `json:"programs"`
	History  []HOp   `json:"history,omitempty"`
	// Slash: the keys are spelled with this many leading '/' characters ("/a", "//a/"): the Redis backend maps such a key to the
	// same server key as the plain spelling, so only one spelling is used within a case
	Slash int `json:"slash,omitempty"`
}

func (c CCase) key(i int) string { return strings.Repeat("/", c.Slash) + Keys[i] }

func (c CCase) keyNames(idx []int) []string {
	r := make([]string, len(idx))
	for i, k := range idx {
		r[i] = c.key(k)
	}
	return r
}

// HOp is one recorded sub-operation (multi-key calls are split per key, sharing the stamps).
type HOp struct {
	Thread   int    `json:"t"`
	Kind     string `json:"k"` // create get put cas delete mget mput
	Key      string `json:"key"`
	Val      string `json:"val,omitempty"` // value written
	Arg      string `json:"arg,omitempty"` // version argument of cas / version passed in the record
	Call     int64  `json:"call"`
	Ret      int64  `json:"ret"`
	Err      string `json:"err,omitempty"` // "" nil, exist, notexist, conflict, other:<text>
	Ver      string `json:"ver,omitempty"` // version returned / read
	Read     string `json:"read,omitempty"`
	Found    bool   `json:"found,omitempty"`    // mget: record present
	Repeated bool   `json:"repeated,omitempty"` // mput: the key occurs more than once in this batch
	Last     bool   `json:"last,omitempty"`     // mput: this is the last record of the key in the batch
	Short    bool   `json:"short,omitempty"`    // the write carried an expiry 1 ms ahead
	Past     bool   `json:"past,omitempty"`     // the write carried an expiry that had passed: it leaves the key absent
}

func firstOf(keys []string, k string) int {
	for i, x := range keys {
		if x == k {
			return i
		}
	}
	return -1
}

func errClass(err error) string {
	switch {
	case err == nil:
		return ""
	case gerrors.Is(err, gerrors.ErrExist):
		return "exist"
	case gerrors.Is(err, gerrors.ErrNotExist):
		return "notexist"
	case gerrors.Is(err, gerrors.ErrConflict):
		return "conflict"
	}
	return "other:" + err.Error()
}

// Execute runs the programs concurrently against st and returns the recorded history.
func Execute(c CCase, st kvs.Storage) []HOp {
	return ExecuteWith(c, func(int) kvs.Storage { return st }, nil, nil)
}

// ExecuteWith is Execute with a storage client per thread and callbacks around the threads (wire-scheduled runs):
// run is called once every thread goroutine exists, and must let them go by closing the channel it gets; done(ti) is
// called when thread ti has finished its program.
func ExecuteWith(c CCase, stFor func(ti int) kvs.Storage, run func(start chan struct{}), done func(ti int)) []HOp {
	var stamp atomic.Int64
	var mu sync.Mutex
	var hist []HOp
	start := make(chan struct{})
	var wg sync.WaitGroup
	far := time.Now().Add(time.Hour)
	ctx := context.Background()
	for ti, prog := range c.Programs {
		wg.Add(1)
		go func(ti int, prog []COp) {
			defer wg.Done()
			if done != nil {
				defer done(ti)
			}
			st := stFor(ti)
			seen := map[string][]string{}
			see := func(k, v string) {
				if v != "" {
					seen[k] = append(seen[k], v)
				}
			}
			local := make([]HOp, 0, len(prog)*2)
			<-start
			for oi, op := range prog {
				for y := 0; y < op.Yield; y++ {
					runtime.Gosched()
				}
				key := c.key(op.Key)
				val := fmt.Sprintf("t%do%d", ti, oi)
				if op.Same {
					val = "same"
				}
				var exp *time.Time
				if op.Exp {
					e := far
					exp = &e
				}
				if op.Short {
					e := time.Now().Add(time.Millisecond)
					exp = &e
				}
				if op.Past {
					e := time.Now().Add(-time.Hour)
					exp = &e
				}
				passVer := "" // what the caller leaves in Record.Version for create/put/putmany: its last seen version
				if s := seen[key]; len(s) > 0 {
					passVer = s[len(s)-1]
				}
				h := HOp{Thread: ti, Key: key, Short: op.Short && (op.K == "create" || op.K == "put" || op.K == "cas"), Past: op.Past}
				switch op.K {
				case "create":
					h.Kind, h.Val, h.Arg = "create", val, passVer
					h.Call = stamp.Add(1)
					ver, err := st.Create(ctx, kvs.Record{Key: key, Value: []byte(val), Version: passVer, ExpiresAt: exp})
					h.Ret = stamp.Add(1)
					h.Err, h.Ver = errClass(err), ver
					see(key, ver)
					local = append(local, h)
				case "get":
					h.Kind = "get"
					h.Call = stamp.Add(1)
					r, err := st.Get(ctx, key)
					h.Ret = stamp.Add(1)
					h.Err, h.Ver, h.Read = errClass(err), r.Version, string(r.Value)
					if err == nil {
						see(key, r.Version)
					}
					local = append(local, h)
				case "put":
					h.Kind, h.Val, h.Arg = "put", val, passVer
					h.Call = stamp.Add(1)
					r, err := st.Put(ctx, kvs.Record{Key: key, Value: []byte(val), Version: passVer, ExpiresAt: exp})
					h.Ret = stamp.Add(1)
					h.Err, h.Ver = errClass(err), r.Version
					if err == nil {
						see(key, r.Version)
					}
					local = append(local, h)
				case "cas":
					arg := garbageVer
					s := seen[key]
					switch {
					case op.Ver == 0 && len(s) > 0:
						arg = s[len(s)-1]
					case op.Ver == 1 && len(s) > 1:
						arg = s[len(s)-2]
					}
					h.Kind, h.Val, h.Arg = "cas", val, arg
					h.Call = stamp.Add(1)
					r, err := st.CasByVersion(ctx, kvs.Record{Key: key, Value: []byte(val), Version: arg, ExpiresAt: exp})
					h.Ret = stamp.Add(1)
					h.Err = errClass(err)
					if err == nil {
						h.Ver = r.Version
						see(key, r.Version)
					}
					local = append(local, h)
				case "delete":
					h.Kind = "delete"
					h.Call = stamp.Add(1)
					err := st.Delete(ctx, key)
					h.Ret = stamp.Add(1)
					h.Err = errClass(err)
					local = append(local, h)
				case "getmany":
					keys := c.keyNames(op.Keys)
					call := stamp.Add(1)
					rs, err := st.GetMany(ctx, keys...)
					ret := stamp.Add(1)
					for j, k := range keys {
						hh := HOp{Thread: ti, Kind: "mget", Key: k, Call: call, Ret: ret, Err: errClass(err)}
						if err == nil && len(rs) != len(keys) {
							hh.Err = fmt.Sprintf("other:GetMany returned %d entries for %d keys", len(rs), len(keys))
						} else if err == nil && rs[j] != nil {
							hh.Found, hh.Ver, hh.Read = true, rs[j].Version, string(rs[j].Value)
							see(k, rs[j].Version)
						}
						local = append(local, hh)
					}
				case "putmany":
					keys := c.keyNames(op.Keys)
					recs := make([]kvs.Record, len(keys))
					args := make([]string, len(keys))
					for j, k := range keys {
						if s := seen[k]; len(s) > 0 {
							args[j] = s[len(s)-1]
						}
						e := exp
						if op.Exps != nil {
							e = nil
							if op.Exps[j] {
								ee := far
								e = &ee
							}
						}
						recs[j] = kvs.Record{Key: k, Value: []byte(fmt.Sprintf("%s.%d", val, j)), Version: args[j], ExpiresAt: e}
					}
					call := stamp.Add(1)
					err := st.PutMany(ctx, recs)
					ret := stamp.Add(1)
					lastOf := map[string]int{}
					for j, k := range keys {
						lastOf[k] = j
					}
					for j, k := range keys {
						// a key repeated inside one batch is written several times; on the Redis path with expiries these are separate
						// writes (intermediate values can be seen), so each is a sub-operation of its own; that the LAST one is what
						// remains is checked separately (CheckHistory, "last record of the batch wins")
						local = append(local, HOp{Thread: ti, Kind: "mput", Key: k, Val: string(recs[j].Value), Arg: args[j], Call: call, Ret: ret, Err: errClass(err), Past: op.Past && op.Exps == nil,
							Repeated: lastOf[k] != j || firstOf(keys, k) != j, Last: lastOf[k] == j})
					}
				default:
					panic("bad op " + op.K)
				}
			}
			mu.Lock()
			hist = append(hist, local...)
			mu.Unlock()
		}(ti, prog)
	}
	if run != nil {
		run(start)
	} else {
		close(start)
	}
	wg.Wait()
	sort.SliceStable(hist, func(i, j int) bool { return hist[i].Call < hist[j].Call })
	return hist
}

// ---------------------------------------------------------------------------------------------
// sequential specification of one key (porcupine model)

type kvState struct {
	Zombie bool // the record was written with an expiry that has passed by now while the server still holds it: it may be there or not
	Exists bool
	Ver    string // "" while unknown (after a PutMany, whose result carries no version)
	NotVer string // when Ver is unknown: the version it must differ from ("" = none)
	Val    string
}

// stepKV: a record written with an expiry 1 ms ahead (Short) may be found or be gone at any later step - the statement
// of C02 says nothing about records past their expiry; every other record must be there until it is deleted.
func stepKV(st kvState, h HOp) (bool, kvState) {
	ok, ns := stepKV0(st, h)
	if !ok && st.Zombie {
		ok, ns = stepKV0(kvState{}, h)
	}
	if ok && ns.Exists && isWrite(h.Kind) && h.Err == "" && h.Kind != "delete" {
		ns.Zombie = h.Short
		if h.Past {
			ns = kvState{} // written already expired: the key is absent from now on
		}
	}
	return ok, ns
}

func stepKV0(st kvState, h HOp) (bool, kvState) {
	bind := func(ver string) (bool, kvState) { // a read observed version ver
		if ver == "" {
			return false, st
		}
		if st.Ver == "" {
			if ver == st.NotVer {
				return false, st
			}
			st.Ver, st.NotVer = ver, ""
			return true, st
		}
		return st.Ver == ver, st
	}
	switch h.Kind {
	case "create":
		if !st.Exists {
			if h.Err != "" || h.Ver == "" {
				return false, st
			}
			return true, kvState{Exists: true, Ver: h.Ver, Val: h.Val}
		}
		if h.Err != "exist" {
			return false, st
		}
		return bind(h.Ver) // reports the stored version
	case "get":
		if !st.Exists {
			return h.Err == "notexist", st
		}
		if h.Err != "" || h.Read != st.Val {
			return false, st
		}
		return bind(h.Ver)
	case "mget":
		if h.Err != "" {
			return false, st
		}
		if !st.Exists {
			return !h.Found, st
		}
		if !h.Found || h.Read != st.Val {
			return false, st
		}
		return bind(h.Ver)
	case "put":
		if h.Err != "" || h.Ver == "" {
			return false, st
		}
		if st.Exists && (h.Ver == st.Ver || (st.Ver == "" && h.Ver == st.NotVer)) {
			return false, st // the version must change on every write
		}
		return true, kvState{Exists: true, Ver: h.Ver, Val: h.Val}
	case "mput":
		if h.Err != "" {
			return false, st
		}
		ns := kvState{Exists: true, Val: h.Val}
		if st.Exists {
			ns.NotVer = st.Ver // unknown new version, but it must differ from the old one
		}
		return true, ns
	case "cas":
		if !st.Exists {
			return h.Err == "notexist", st
		}
		if st.Ver == "" { // stored version unknown: the argument cannot be the fresh one unless the backend kept the caller's
			if h.Err == "conflict" {
				return true, st
			}
			if h.Err == "" && h.Ver != "" && h.Arg != st.NotVer {
				return true, kvState{Exists: true, Ver: h.Ver, Val: h.Val}
			}
			return false, st
		}
		if h.Arg != st.Ver {
			return h.Err == "conflict", st
		}
		if h.Err != "" || h.Ver == "" || h.Ver == st.Ver {
			return false, st
		}
		return true, kvState{Exists: true, Ver: h.Ver, Val: h.Val}
	case "delete":
		if !st.Exists {
			return h.Err == "notexist", st
		}
		return h.Err == "", kvState{}
	}
	return false, st
}

var kvModel = porcupine.Model{
	Init:  func() interface{} { return kvState{} },
	Step:  func(state, in, out interface{}) (bool, interface{}) { return stepKV(state.(kvState), in.(HOp)) },
	Equal: func(a, b interface{}) bool { return a.(kvState) == b.(kvState) },
	DescribeOperation: func(in, out interface{}) string {
		h := in.(HOp)
		return fmt.Sprintf("t%d %s(%s val=%q arg=%q) -> err=%q ver=%q read=%q found=%v", h.Thread, h.Kind, h.Key, h.Val, h.Arg, h.Err, h.Ver, h.Read, h.Found)
	},
}

// CInfo classifies a history.
type CInfo struct {
	Overlap      bool // >= 2 overlapping operations on one key, at least one of them a write
	Classes      []string
	Inconclusive bool
}

var documented = map[string]map[string]bool{
	"create": {"": true, "exist": true},
	"get":    {"": true, "notexist": true},
	"mget":   {"": true},
	"put":    {"": true},
	"mput":   {"": true},
	"cas":    {"": true, "conflict": true, "notexist": true},
	"delete": {"": true, "notexist": true},
}

func isWrite(k string) bool { return k != "get" && k != "mget" }

// CheckHistory is the oracle of C02 on one recorded history.
func CheckHistory(backend string, hist []HOp) (info CInfo, v *vstat.Violation) {
	byKey := map[string][]HOp{}
	cls := map[string]bool{}
	for _, h := range hist {
		byKey[h.Key] = append(byKey[h.Key], h)
		// (1) a loser gets a documented outcome
		if !documented[h.Kind][h.Err] {
			return info, vstat.V(backend+":undocumented-outcome:"+h.Kind, "%s on key %q by thread %d returned %q, which is not one of the documented outcomes of the operation", h.Kind, h.Key, h.Thread, h.Err)
		}
	}
	// (2) direct counters
	written := map[string]string{} // version -> "key/kind" that was given it
	for _, h := range hist {
		if h.Err == "" && (h.Kind == "create" || h.Kind == "put" || h.Kind == "cas") {
			if h.Ver == "" {
				return info, vstat.V(backend+":version-empty", "successful %s of %q returned an empty version", h.Kind, h.Key)
			}
			if prev, dup := written[h.Ver]; dup {
				return info, vstat.V(backend+":version-not-fresh", "version %q was handed out twice: to %s and to %s/%s", h.Ver, prev, h.Key, h.Kind)
			}
			written[h.Ver] = h.Key + "/" + h.Kind
		}
	}
	for key, ops := range byKey {
		casWins := map[string]int{}
		creates, deletes := 0, 0
		for _, h := range ops {
			if h.Kind == "cas" && h.Err == "" {
				casWins[h.Arg]++
				if casWins[h.Arg] > 1 {
					return info, vstat.V(backend+":cas-two-winners", "two CasByVersion calls against version %q of key %q succeeded", h.Arg, key)
				}
				cls["cas_success"] = true
			}
			if h.Kind == "cas" && h.Err == "conflict" {
				cls["cas_conflict"] = true
			}
			if h.Kind == "create" && h.Err == "" {
				creates++
			}
			if h.Kind == "create" && h.Err == "exist" {
				cls["create_exist"] = true
			}
			if h.Kind == "delete" || (h.Past && isWrite(h.Kind)) {
				deletes++ // a write of an already expired record leaves the key absent, like a Delete
			}
			if (h.Kind == "get" || h.Kind == "mget") && h.Err == "" && h.Ver == "" && (h.Kind == "get" || h.Found) {
				return info, vstat.V(backend+":version-empty", "%s read key %q with an empty version", h.Kind, key)
			}
		}
		if deletes == 0 && creates > 1 {
			return info, vstat.V(backend+":create-two-winners", "%d Create calls succeeded on key %q although nothing ever deleted it", creates, key)
		}
		// overlap classification
		for i := range ops {
			for j := i + 1; j < len(ops); j++ {
				if ops[j].Call > ops[i].Ret {
					break
				}
				if ops[i].Thread != ops[j].Thread && (isWrite(ops[i].Kind) || isWrite(ops[j].Kind)) {
					info.Overlap = true
					if ops[i].Kind == "create" && ops[j].Kind == "create" {
						cls["racing_creates"] = true
					}
					if ops[i].Kind == "cas" && ops[j].Kind == "cas" && ops[i].Arg == ops[j].Arg {
						cls["racing_cas_same_version"] = true
					}
					if (ops[i].Kind == "mput") != (ops[j].Kind == "mput") {
						cls["putmany_overlaps_other"] = true
					}
				}
			}
		}
	}
	// (2b) a key repeated inside one PutMany batch: the last record wins. Decided only on quiet stretches: a read that
	// starts after the batch returned, with no other write to the key between the batch's call and the read's return.
	for key, ops := range byKey {
		for _, w := range ops {
			if w.Kind != "mput" || !w.Repeated || !w.Last || w.Err != "" {
				continue
			}
			cls["putmany_repeated_key"] = true
			for _, r := range ops {
				if (r.Kind != "get" && r.Kind != "mget") || r.Call < w.Ret || r.Err != "" || (r.Kind == "mget" && !r.Found) {
					continue
				}
				quiet := true
				for _, o := range ops {
					if isWrite(o.Kind) && !(o.Kind == "mput" && o.Call == w.Call && o.Thread == w.Thread) && o.Ret > w.Call && o.Call < r.Ret {
						quiet = false
						break
					}
				}
				if quiet && r.Read != w.Val {
					return info, vstat.V(backend+":putmany-repeated-key-order", "PutMany by thread %d wrote key %q several times, the last record has value %q; a later read with no other write around returned %q", w.Thread, key, w.Val, r.Read)
				}
			}
		}
	}
	// (3) linearizability per key
	keys := make([]string, 0, len(byKey))
	for k := range byKey {
		keys = append(keys, k)
	}
	sort.Strings(keys)
	for _, key := range keys {
		ops := byKey[key]
		pops := make([]porcupine.Operation, len(ops))
		for i, h := range ops {
			pops[i] = porcupine.Operation{ClientId: h.Thread, Input: h, Call: h.Call, Output: h, Return: h.Ret}
		}
		res := porcupine.CheckOperationsTimeout(kvModel, pops, 20*time.Second)
		switch res {
		case porcupine.Illegal:
			return info, vstat.V(backend+":not-linearizable", "the history of key %q (%d operations) has no sequential explanation compatible with real time:\n%s", key, len(ops), describe(ops))
		case porcupine.Unknown:
			info.Inconclusive = true
		}
	}
	for c := range cls {
		info.Classes = append(info.Classes, c)
	}
	sort.Strings(info.Classes)
	return info, nil
}

func describe(ops []HOp) string {
	s := ""
	for _, h := range ops {
		s += fmt.Sprintf("  [%d,%d] %s\n", h.Call, h.Ret, kvModel.DescribeOperation(h, h))
		if len(s) > 6000 {
			return s + "  …"
		}
	}
	return s
}
