// Package p_mixer (import path verifharness/p_mixer/twin/p_mixer) is the TWIN of the C18 harness package: it has the
// same package name and declares iterator types with the same type names as the harness package, so that the two
// print alike with fmt's %T ("*p_mixer.Cursor") although they are different types with different method sets - the
// situation of two packages of a program that happen to share their name (v1/v2 of an API, vendored copies, ...).
// Which of the two same-named types has a Reset method is the opposite of the harness package's choice.
package p_mixer

import "github.com/acquirecloud/golibs/container/iterable"

type fwd struct {
	s   []int
	pos int
}

func (c *fwd) HasNext() bool { return c.pos < len(c.s) }
func (c *fwd) Next() (int, bool) {
	if c.pos < len(c.s) {
		c.pos++
		return c.s[c.pos-1], true
	}
	return 0, false
}
func (c *fwd) Close() error { return nil }

// Cursor can be reset here (the harness package's Cursor cannot).
type Cursor struct{ fwd }

func (c *Cursor) Reset() error { c.pos = 0; return nil }

// Walker cannot be reset here (the harness package's Walker can).
type Walker struct{ fwd }

// Seq cannot be reset here (the harness package's Seq can).
type Seq[T any] struct {
	fwd
	_ [0]T
}

// Ring can be reset here (the harness package's Ring cannot).
type Ring[T any] struct {
	fwd
	_ [0]T
}

func (c *Ring[T]) Reset() error { c.pos = 0; return nil }

func NewCursor(s []int) iterable.Iterator[int] { return &Cursor{fwd{s: s}} }
func NewWalker(s []int) iterable.Iterator[int] { return &Walker{fwd{s: s}} }
func NewSeq[T any](s []int) iterable.Iterator[int] { return &Seq[T]{fwd: fwd{s: s}} }
func NewRing[T any](s []int) iterable.Iterator[int] { return &Ring[T]{fwd: fwd{s: s}} }
