package p_mixer

import (
	"fmt"
	"strings"

	"github.com/acquirecloud/golibs/container/iterable"
	"verifharness/internal/vstat"
)

// A Session is a history of several merges in one process. The C18 statement quantifies over "any two
// input iterators": that includes a Mixer as an input (mixer_test.go itself merges a mixer with a slice)
// and it includes iterators created after other, unrelated iterators were used and closed. Whatever an
// earlier merge leaves behind (closed iterators, abandoned look-aheads) must not show in a later merge
// over fresh iterators, and several mixers that are alive at the same time must not influence each other.
//
// Every round builds a merge tree over 2..8 fresh leaves, runs a call program on the root, optionally stays
// open while later rounds are opened and used (Hold), runs a second program (Late), is drained (unless
// Partial) and closed following one of the Close disciplines the Iterator documentation allows.
type Session struct {
	Rounds []Round `json:"rounds"`
}

// Close disciplines. The Iterator documentation says "Close ... must be always called for any iterator" and
// "the iterator object must not be used after the call"; Mixer.Close (undocumented) forwards Close to both
// inputs. The harness therefore calls Close AT MOST ONCE on every object it created and never touches an
// object after it closed it itself:
const (
	CloseNone     = "none"     // nothing is closed (allowed: "may cause a memory leak")
	CloseRoot     = "root"     // only the root mixer is closed (it closes what it was given)
	CloseDefer    = "defer"    // every iterator the harness created is closed once, newest first (what a `defer x.Close()` after each creation does)
	CloseCreation = "creation" // every iterator the harness created is closed once, oldest first (inputs before the mixers over them)
)

// CloseDisciplines lists them.
var CloseDisciplines = []string{CloseNone, CloseRoot, CloseDefer, CloseCreation}

// Round is one merge tree and what is done with it.
type Round struct {
	Leaves [][]int  `json:"leaves"` // one value sequence per leaf, 2..8 leaves
	Kinds  []string `json:"kinds"`  // source kind per leaf
	// Shape: the tree, leaves named a,b,c.. in order, every mixer but the root in parentheses:
	// "ab", "(ab)c", "a(bc)", "(ab)(cd)", "((ab)c)d" ...
	Shape    string `json:"shape"`
	Sel      string `json:"sel"`
	NilEmpty bool   `json:"nil_empty,omitempty"` // empty leaves are served from a nil slice
	Prog     string `json:"prog"`                // calls on the root right after construction: h, n, r
	Hold     int    `json:"hold,omitempty"`      // number of later rounds that are opened (and run their Prog) before this one continues
	Late     string `json:"late,omitempty"`      // calls on the root after the hold
	Partial  bool   `json:"partial,omitempty"`   // no final drain: the tree is closed wherever the programs left it
	Close    string `json:"close"`
	// Flaky: per leaf (empty = none), transient Reset failures of the leaf's source (see Flaky in mixer.go)
	Flaky []Flaky `json:"flaky,omitempty"`
}

// SessionInfo is what the classifier needs.
type SessionInfo struct {
	Rounds            int
	MaxLeaves         int
	Nested            bool // some round has a mixer as an input of a mixer
	Depth3            bool // ... a mixer over a mixer over a mixer
	BothSidesMixers   bool // a mixer whose two inputs are mixers
	Overlap           bool // a round was opened while an earlier one was still open and used afterwards
	AfterClose        bool // a round was opened after an earlier round had been closed (any discipline but none)
	AfterDoubleClose  bool // ... after a round closed by its creator AND through the mixer over it (defer / creation discipline)
	AfterDouble3      bool // ... and the later round has >= 3 slice-backed leaves alive at once
	ClosedMidway      bool // a tree was closed with elements left
	ClosedLook        bool // ... while the root held a look-ahead
	ResetNested       bool // successful Reset of a root over at least one mixer
	ResetRefused      bool
	Tie               bool
	Disciplines       [4]bool
	SelCalls          int
	Emitted           int
	LateCalls         bool
	DisparityInNested bool
	ValueLeaf         bool // a leaf is a value-type (non-pointer) iterator
	SameValueSiblings bool // a mixer over two leaves of one and the same value type
	// transient Reset failures of leaves
	FlakyLeaves        int  // max number of such leaves in a round
	FlakyBelowInner    bool // such a leaf below an inner mixer
	ResetTransient     bool // Reset of a root while a leaf still had a failure to deliver
	ResetRecovered     bool // a Reset that every leaf accepted followed a failed one
	RecoveredAfterRead bool // ... with HasNext/Next calls in between
	RecoveredNested    bool // ... on a root over at least one mixer
	// runs of consecutive successful Resets of a root that a HasNext/Next followed
	ResetRun              bool // >= 2 in a row
	LongResetRun          bool // >= 255 in a row
	ResetRunMult256       bool // a multiple of 256 in a row
	ResetRunMult256Look   bool // ... begun on a loaded look-ahead
	ResetRunMult256Nested bool // ... on a root over at least one mixer
}

const (
	sessMaxRounds = 32
	sessMaxLeaves = 8
	sessMaxLen    = 4095
)

// session element: value<<21 | 1<<20 | round<<15 | leaf<<12 | index
func sessEnc(vals []int, round, leaf int, nilIfEmpty bool) []int {
	if len(vals) == 0 && nilIfEmpty {
		return nil
	}
	out := make([]int, len(vals))
	for i, v := range vals {
		out[i] = v<<21 | 1<<20 | round<<15 | leaf<<12 | i
	}
	return out
}

func sessShow(e int) string {
	if e&(1<<20) == 0 {
		return fmt.Sprintf("raw(%d)", e)
	}
	return fmt.Sprintf("%d(round %d leaf %c[%d])", val(e), (e>>15)&31, 'a'+byte((e>>12)&7), e&4095)
}

func sessShowList(l []int) string {
	var sb strings.Builder
	sb.WriteByte('[')
	for i, e := range l {
		if i > 0 {
			sb.WriteByte(' ')
		}
		if i >= 12 {
			fmt.Fprintf(&sb, "... %d more", len(l)-i)
			break
		}
		sb.WriteString(sessShow(e))
	}
	sb.WriteByte(']')
	return sb.String()
}

// tnode is a node of a merge tree.
type tnode struct {
	leaf  int // >= 0: leaf number; -1: mixer
	l, r  *tnode
	mask  uint  // set of leaves below
	depth int   // 0 for a leaf
	want  []int // reference output of the node
	mix   iterable.Mixer[int]
	it    iterable.Iterator[int]
}

// ParseShape parses a Shape string; leaves must appear as a, b, c, ... in this order.
func ParseShape(s string) (root *tnode, leaves int, err error) {
	pos := 0
	var item func() (*tnode, error)
	pair := func() (*tnode, error) {
		l, err := item()
		if err != nil {
			return nil, err
		}
		r, err := item()
		if err != nil {
			return nil, err
		}
		n := &tnode{leaf: -1, l: l, r: r, mask: l.mask | r.mask, depth: max(l.depth, r.depth) + 1}
		return n, nil
	}
	item = func() (*tnode, error) {
		if pos >= len(s) {
			return nil, fmt.Errorf("shape %q ends early", s)
		}
		ch := s[pos]
		switch {
		case ch == '(':
			pos++
			n, err := pair()
			if err != nil {
				return nil, err
			}
			if pos >= len(s) || s[pos] != ')' {
				return nil, fmt.Errorf("shape %q: ) expected at %d", s, pos)
			}
			pos++
			return n, nil
		case ch == 'a'+byte(leaves) && leaves < sessMaxLeaves:
			pos++
			leaves++
			return &tnode{leaf: leaves - 1, mask: 1 << uint(leaves-1)}, nil
		}
		return nil, fmt.Errorf("shape %q: unexpected %q at %d", s, ch, pos)
	}
	root, err = pair()
	if err == nil && pos != len(s) {
		err = fmt.Errorf("shape %q: trailing text at %d", s, pos)
	}
	return root, leaves, err
}

// merge is the reference: the head of x goes out iff y is exhausted or (x is not exhausted and sel(head x, head y)).
func merge(sel iterable.SelectF[int], x, y []int, tie *bool) []int {
	out := make([]int, 0, len(x)+len(y))
	i, j := 0, 0
	for i < len(x) || j < len(y) {
		switch {
		case j >= len(y):
			out = append(out, x[i])
			i++
		case i >= len(x):
			out = append(out, y[j])
			j++
		default:
			if val(x[i]) == val(y[j]) {
				*tie = true
			}
			if sel(x[i], y[j]) {
				out = append(out, x[i])
				i++
			} else {
				out = append(out, y[j])
				j++
			}
		}
	}
	return out
}

// liveRound is a round that has been opened and not yet closed.
type liveRound struct {
	no         int
	r          Round
	root       *tnode
	created    []iterable.Iterator[int] // in creation order: the inputs of a mixer before the mixer
	want       []int
	k          int // elements emitted since the last Reset
	resettable bool
	dead       bool // a Reset was refused: the state of the tree is undocumented, it is only closed
	lastH      *bool
	sawEnd     bool
	selViol    *vstat.Violation
	closeAt    int
	calls      int
	// transient Reset failures (see run() in mixer.go): wrappers of the flaky leaves; limbo = a Reset failed and no
	// Reset that every leaf accepted has followed yet - calls are made, nothing is judged
	flakies    []*flaky
	limbo      bool
	limboCalls int
	// consecutive successful Resets since the last HasNext/Next, and whether the first of them met a look-ahead
	consec     int
	consecLook bool
}

func (lr *liveRound) pending() bool {
	for _, f := range lr.flakies {
		if f.left > 0 {
			return true
		}
	}
	return false
}

// recovered is called after a Reset that every leaf accepted.
func (lr *liveRound) recovered(info *SessionInfo) {
	if !lr.limbo {
		return
	}
	info.ResetRecovered = true
	if lr.limboCalls > 0 {
		info.RecoveredAfterRead = true
	}
	if lr.root.depth >= 2 {
		info.RecoveredNested = true
	}
	lr.limbo = false
}

func (lr *liveRound) where(phase string, p int, prog string) string {
	return fmt.Sprintf("round %d (%s, close=%s) %s call #%d %c of %q", lr.no, lr.r.Shape, lr.r.Close, phase, p, prog[p], prog)
}

func openRound(no int, r Round, info *SessionInfo) *liveRound {
	root, n, err := ParseShape(r.Shape)
	if err != nil {
		panic(err.Error())
	}
	if n != len(r.Leaves) || n != len(r.Kinds) {
		panic(fmt.Sprintf("round %d: shape %q has %d leaves, %d sequences and %d kinds given", no, r.Shape, n, len(r.Leaves), len(r.Kinds)))
	}
	lr := &liveRound{no: no, r: r, root: root, resettable: true}
	sel := selector(r.Sel)
	var build func(nd *tnode)
	build = func(nd *tnode) {
		if nd.leaf >= 0 {
			s := r.Leaves[nd.leaf]
			if len(s) > sessMaxLen {
				panic("session inputs longer than 4095 are not encodable")
			}
			for _, v := range s {
				if v <= -maxValue || v >= maxValue {
					panic("values must be in (-2^42, 2^42)")
				}
			}
			nd.want = sessEnc(s, no, nd.leaf, r.NilEmpty)
			var fl *Flaky
			if nd.leaf < len(r.Flaky) {
				fl = &r.Flaky[nd.leaf]
			}
			var fw *flaky
			nd.it, fw = flakySource(r.Kinds[nd.leaf], nd.want, fl)
			if fw != nil {
				lr.flakies = append(lr.flakies, fw)
			}
			if !CanReset(r.Kinds[nd.leaf]) {
				lr.resettable = false
			}
			if IsValueKind(r.Kinds[nd.leaf]) && fw == nil {
				info.ValueLeaf = true
			}
			lr.created = append(lr.created, nd.it)
			return
		}
		build(nd.l)
		build(nd.r)
		nd.want = merge(sel, nd.l.want, nd.r.want, &info.Tie)
		// a selector is defined on elements of the two inputs only: input 1 of this mixer can only deliver
		// elements of the leaves below nd.l, input 2 of the leaves below nd.r (of this round).
		lm, rm := nd.l.mask, nd.r.mask
		checking := func(x, y int) bool {
			info.SelCalls++
			if lr.selViol == nil && !lr.limbo {
				ok := func(e int, mask uint) bool {
					return e&(1<<20) != 0 && (e>>15)&31 == no && mask&(1<<uint((e>>12)&7)) != 0
				}
				if !ok(x, lm) || !ok(y, rm) {
					lr.selViol = vstat.V("mixer:selector-got-non-head", "selector of the mixer over leaves %s|%s called with (%s, %s): not an element of input 1 and an element of input 2",
						maskStr(lm), maskStr(rm), sessShow(x), sessShow(y))
				}
			}
			return sel(x, y)
		}
		nd.mix.Init(checking, nd.l.it, nd.r.it)
		nd.it = &nd.mix
		lr.created = append(lr.created, nd.it)
		if nd.l.leaf < 0 || nd.r.leaf < 0 {
			info.Nested = true
			for _, ch := range []*tnode{nd.l, nd.r} {
				if ch.leaf < 0 && (ch.l.leaf >= 0 && r.Kinds[ch.l.leaf] == KDisparity || ch.r.leaf >= 0 && r.Kinds[ch.r.leaf] == KDisparity) {
					info.DisparityInNested = true
				}
				if ch.leaf < 0 {
					for _, gc := range []*tnode{ch.l, ch.r} {
						if gc.leaf >= 0 {
							if _, ok := gc.it.(*flaky); ok {
								info.FlakyBelowInner = true
							}
						}
					}
				}
			}
		}
		if nd.l.leaf < 0 && nd.r.leaf < 0 {
			info.BothSidesMixers = true
		}
		if nd.l.leaf >= 0 && nd.r.leaf >= 0 && r.Kinds[nd.l.leaf] == r.Kinds[nd.r.leaf] && IsValueKind(r.Kinds[nd.l.leaf]) {
			_, f1 := nd.l.it.(*flaky)
			_, f2 := nd.r.it.(*flaky)
			if !f1 && !f2 {
				info.SameValueSiblings = true
			}
		}
		if nd.depth >= 3 {
			info.Depth3 = true
		}
	}
	build(root)
	lr.want = root.want
	info.FlakyLeaves = max(info.FlakyLeaves, len(lr.flakies))
	if n > info.MaxLeaves {
		info.MaxLeaves = n
	}
	return lr
}

func maskStr(m uint) string {
	var b []byte
	for i := 0; i < sessMaxLeaves; i++ {
		if m&(1<<uint(i)) != 0 {
			b = append(b, 'a'+byte(i))
		}
	}
	return string(b)
}

func (lr *liveRound) state() string {
	return fmt.Sprintf("emitted %d of %d since the last Reset; reference output %s", lr.k, len(lr.want), sessShowList(lr.want))
}

// next calls Next on the root and compares with the reference.
func (lr *liveRound) next(where lazyStr, info *SessionInfo) *vstat.Violation {
	got, ok := lr.root.mix.Next()
	if lr.selViol != nil {
		return vstat.V(lr.selViol.Sig, "%s: during Next: %s", where, lr.selViol.Msg)
	}
	wok := lr.k < len(lr.want)
	if lr.lastH != nil && *lr.lastH != ok {
		return vstat.V("mixer:hasnext-next-disagree", "%s: HasNext said %v, the following Next returned ok=%v (%s)", where, *lr.lastH, ok, lr.state())
	}
	if ok != wok {
		if wok {
			return vstat.V("mixer:next-ends-early", "%s: Next returned ok=false, reference still has %s (%s)", where, sessShow(lr.want[lr.k]), lr.state())
		}
		return vstat.V("mixer:next-past-end", "%s: Next returned (%s,true) although all inputs are exhausted (%s)", where, sessShow(got), lr.state())
	}
	if ok && got != lr.want[lr.k] {
		return vstat.V("mixer:next-wrong-element", "%s: Next returned %s, reference merge emits %s (%s)", where, sessShow(got), sessShow(lr.want[lr.k]), lr.state())
	}
	if ok {
		lr.k++
		info.Emitted++
	} else {
		lr.sawEnd = true
	}
	lr.lastH = nil
	return nil
}

func (lr *liveRound) runProg(phase, prog string, info *SessionInfo) *vstat.Violation {
	for _, tk := range parseProg(prog) {
		if lr.dead {
			break
		}
		p, rep := tk.pos, 0
		where := lazyStr(func() string {
			if tk.n > 1 {
				return fmt.Sprintf("%s (Reset %d of a run of %d)", lr.where(phase, p, prog), rep+1, tk.n)
			}
			return lr.where(phase, p, prog)
		})
		lr.calls++
		if lr.limbo && tk.ch != 'r' {
			// between a failed Reset and the next accepted one: the call is made, nothing is judged
			if tk.ch == 'h' {
				lr.root.mix.HasNext()
			} else {
				lr.root.mix.Next()
			}
			lr.limboCalls++
			continue
		}
		if tk.ch != 'r' {
			lr.endConsec(info)
		}
		switch tk.ch {
		case 'h':
			got := lr.root.mix.HasNext()
			if lr.selViol != nil {
				return vstat.V(lr.selViol.Sig, "%s: during HasNext: %s", where, lr.selViol.Msg)
			}
			want := lr.k < len(lr.want)
			if lr.lastH != nil && *lr.lastH != got {
				return vstat.V("mixer:hasnext-not-idempotent", "%s: HasNext changed its answer from %v to %v without a Next in between (%s)", where, *lr.lastH, got, lr.state())
			}
			if got != want {
				return vstat.V("mixer:hasnext-wrong", "%s: HasNext=%v, reference says %v (%s)", where, got, want, lr.state())
			}
			if !got {
				lr.sawEnd = true
			}
			lr.lastH = &got
		case 'n':
			if v := lr.next(where, info); v != nil {
				return v
			}
		case 'r':
			for rep = 0; rep < tk.n && !lr.dead; rep++ {
				transient := lr.resettable && lr.pending()
				err := lr.root.mix.Reset()
				if lr.selViol != nil {
					return vstat.V(lr.selViol.Sig, "%s: during Reset: %s", where, lr.selViol.Msg)
				}
				if transient {
					// a leaf had a failure to deliver: neither the result nor the state of the tree is judged until a
					// Reset that every leaf accepts
					info.ResetTransient = true
					lr.limbo, lr.limboCalls, lr.lastH = true, 0, nil
					lr.consec, lr.consecLook = 0, false
					continue
				}
				if !lr.resettable {
					info.ResetRefused = true
					if err == nil {
						return vstat.V("mixer:reset-no-error", "%s: Reset returned nil although a leaf (kinds %v) cannot be reset", where, lr.r.Kinds)
					}
					lr.dead = true // state after a refused Reset is undocumented
					break
				}
				if err != nil {
					return vstat.V("mixer:reset-failed", "%s: Reset returned %v although every leaf can be reset%s", where, err, flakyNote(lr.flakies...))
				}
				lr.recovered(info)
				if lr.root.depth >= 2 {
					info.ResetNested = true
				}
				if lr.consec == 0 {
					lr.consecLook = (lr.lastH != nil && *lr.lastH) || (lr.k > 0 && !lr.sawEnd)
				}
				lr.consec++
				lr.k, lr.lastH, lr.sawEnd = 0, nil, false
			}
		default:
			panic("bad call " + string(tk.ch))
		}
	}
	return nil
}

// endConsec classifies the consecutive successful Resets that a HasNext/Next now follows.
func (lr *liveRound) endConsec(info *SessionInfo) {
	if lr.consec >= 2 {
		info.ResetRun = true
		if lr.consec >= 255 {
			info.LongResetRun = true
		}
		if lr.consec%256 == 0 {
			info.ResetRunMult256 = true
			if lr.consecLook {
				info.ResetRunMult256Look = true
			}
			if lr.root.depth >= 2 {
				info.ResetRunMult256Nested = true
			}
		}
	}
	lr.consec, lr.consecLook = 0, false
}

// finish runs the late program, drains (unless Partial) and closes the round.
func (lr *liveRound) finish(info *SessionInfo) *vstat.Violation {
	if lr.r.Late != "" {
		info.LateCalls = true
	}
	if v := lr.runProg("late", lr.r.Late, info); v != nil {
		return v
	}
	// the programs ended between a failed Reset and an accepted one: Reset until every leaf accepts it (bounded), then
	// the complete merge must come out
	for tries := 0; lr.limbo && !lr.r.Partial && !lr.dead && tries < 64; tries++ {
		can := !lr.pending()
		err := lr.root.mix.Reset()
		if !can {
			continue
		}
		if err != nil {
			return vstat.V("mixer:reset-failed", "round %d (%s): Reset #%d after the programs returned %v although every leaf can be reset%s", lr.no, lr.r.Shape, tries+1, err, flakyNote(lr.flakies...))
		}
		lr.recovered(info)
		lr.k, lr.lastH, lr.sawEnd = 0, nil, false
	}
	if !lr.r.Partial && !lr.dead && !lr.limbo {
		lr.endConsec(info)
		lr.lastH = nil
		for step := 0; ; step++ {
			more := lr.k < len(lr.want)
			where := lazyStr(func() string {
				return fmt.Sprintf("round %d (%s, close=%s) final drain step %d", lr.no, lr.r.Shape, lr.r.Close, step)
			})
			if v := lr.next(where, info); v != nil {
				return v
			}
			if !more {
				break
			}
		}
		if lr.root.mix.HasNext() {
			return vstat.V("mixer:hasnext-wrong", "round %d (%s): after the final drain HasNext=true (%s)", lr.no, lr.r.Shape, lr.state())
		}
		if lr.selViol != nil {
			return vstat.V(lr.selViol.Sig, "round %d (%s): after the final drain: %s", lr.no, lr.r.Shape, lr.selViol.Msg)
		}
	} else if lr.k < len(lr.want) && lr.r.Close != CloseNone && !lr.limbo {
		info.ClosedMidway = true
		if lr.lastH != nil && *lr.lastH {
			info.ClosedLook = true
		}
	}
	// Close: at most one call per created object, nothing is touched afterwards. Errors are not judged (Close of
	// the sources used here returns nil; what Mixer.Close returns is undocumented).
	switch lr.r.Close {
	case CloseNone:
		info.Disciplines[0] = true
	case CloseRoot:
		info.Disciplines[1] = true
		lr.root.mix.Close()
	case CloseDefer:
		info.Disciplines[2] = true
		for i := len(lr.created) - 1; i >= 0; i-- {
			lr.created[i].Close()
		}
	case CloseCreation:
		info.Disciplines[3] = true
		for _, it := range lr.created {
			it.Close()
		}
	default:
		panic("bad close discipline " + lr.r.Close)
	}
	return nil
}

// RunSession executes the history.
func RunSession(s Session) (info SessionInfo, v *vstat.Violation) {
	return info, vstat.Guard("mixer:panic", func() *vstat.Violation { return runSession(s, &info) })
}

func runSession(s Session, info *SessionInfo) *vstat.Violation {
	if len(s.Rounds) > sessMaxRounds {
		panic("too many rounds")
	}
	info.Rounds = len(s.Rounds)
	var open []*liveRound
	closedAny, closedTwice := false, false
	finishDue := func(now int, all bool) *vstat.Violation {
		rest := open[:0]
		for _, lr := range open {
			if !all && lr.closeAt > now {
				rest = append(rest, lr)
				continue
			}
			if v := lr.finish(info); v != nil {
				return v
			}
			if lr.r.Close != CloseNone {
				closedAny = true
			}
			if lr.r.Close == CloseDefer || lr.r.Close == CloseCreation {
				closedTwice = true
			}
		}
		open = rest
		return nil
	}
	for no, r := range s.Rounds {
		if len(open) > 0 {
			info.Overlap = true
		}
		if closedAny {
			info.AfterClose = true
		}
		if closedTwice {
			info.AfterDoubleClose = true
			slices := 0
			for _, k := range r.Kinds {
				if k == KSlice || k == KNoReset {
					slices++
				}
			}
			if slices >= 3 {
				info.AfterDouble3 = true
			}
		}
		lr := openRound(no, r, info)
		if lr.selViol != nil {
			return vstat.V(lr.selViol.Sig, "round %d (%s): during Init: %s", no, r.Shape, lr.selViol.Msg)
		}
		hold := r.Hold
		if hold < 0 {
			hold = 0
		}
		lr.closeAt = no + hold
		open = append(open, lr)
		if v := lr.runProg("first", r.Prog, info); v != nil {
			return v
		}
		if v := finishDue(no, false); v != nil {
			return v
		}
	}
	return finishDue(0, true)
}

// Hash is a cheap FNV-1a hash of the session.
func (s Session) Hash() uint64 {
	h := uint64(14695981039346656037)
	mix := func(b uint64) {
		h ^= b
		h *= 1099511628211
	}
	mixs := func(s string) {
		for k := 0; k < len(s); k++ {
			mix(uint64(s[k]))
		}
		mix(0xff)
	}
	for _, r := range s.Rounds {
		for _, l := range r.Leaves {
			for _, v := range l {
				mix(uint64(int64(v)))
			}
			mix(0xfffe)
		}
		for _, k := range r.Kinds {
			mixs(k)
		}
		mixs(r.Shape)
		mixs(r.Sel)
		mixs(r.Prog)
		mixs(r.Late)
		mixs(r.Close)
		mix(uint64(r.Hold))
		b := uint64(0)
		if r.NilEmpty {
			b |= 1
		}
		if r.Partial {
			b |= 2
		}
		mix(b)
		for _, f := range r.Flaky {
			mix(uint64(f.K) | 0x100)
			mixs(f.Err)
		}
		mix(0xfffd)
	}
	return h
}

// NonTrivial for sessions: the history has something mixer_test.go does not have - a merge opened after an
// earlier one was closed, two trees alive at once, a mixer over two mixers or three levels of mixers, a
// refused or successful Reset of a nested tree after elements were emitted, or a tie inside a nested tree.
func (i SessionInfo) NonTrivial() bool {
	return i.AfterClose || i.Overlap || i.BothSidesMixers || i.Depth3 || (i.Nested && (i.Tie || i.ResetRefused || i.ResetRecovered))
}

// Classes for the histogram.
func (i SessionInfo) Classes() []string {
	c := make([]string, 0, 24)
	add := func(b bool, s string) {
		if b {
			c = append(c, s)
		}
	}
	add(true, "session")
	add(i.Rounds >= 2, "session_rounds_ge_2")
	add(i.Rounds >= 4, "session_rounds_ge_4")
	add(i.MaxLeaves >= 3, "session_tree_ge_3_leaves")
	add(i.MaxLeaves >= 5, "session_tree_ge_5_leaves")
	add(i.Nested, "session_mixer_of_mixer")
	add(i.Depth3, "session_three_levels_of_mixers")
	add(i.BothSidesMixers, "session_both_inputs_are_mixers")
	add(i.Overlap, "session_trees_alive_at_once")
	add(i.AfterClose, "session_merge_after_an_earlier_one_was_closed")
	add(i.AfterDoubleClose, "session_merge_after_close_by_creator_and_by_mixer")
	add(i.AfterDouble3, "session_ge_3_slice_leaves_after_close_by_creator_and_by_mixer")
	add(i.ClosedMidway, "session_closed_with_elements_left")
	add(i.ClosedLook, "session_closed_on_loaded_lookahead")
	add(i.ResetNested, "session_reset_of_nested_tree")
	add(i.ResetRefused, "session_reset_refused")
	add(i.Tie, "session_tie_between_heads")
	add(i.Disciplines[0], "session_close_none")
	add(i.Disciplines[1], "session_close_root_only")
	add(i.Disciplines[2], "session_close_each_newest_first")
	add(i.Disciplines[3], "session_close_each_oldest_first")
	add(i.LateCalls, "session_calls_after_other_trees_were_opened")
	add(i.DisparityInNested, "session_disparity_source_below_inner_mixer")
	add(i.ValueLeaf, "session_value_type_leaf")
	add(i.SameValueSiblings, "session_mixer_over_two_leaves_of_one_value_type")
	add(i.SameValueSiblings && i.ResetNested, "session_mixer_over_two_leaves_of_one_value_type_in_a_reset_nested_tree")
	add(i.FlakyLeaves == 1, "session_one_leaf_fails_reset_transiently")
	add(i.FlakyLeaves >= 2, "session_ge_2_leaves_fail_reset_transiently")
	add(i.FlakyBelowInner, "session_transiently_failing_leaf_below_inner_mixer")
	add(i.ResetTransient, "session_reset_while_a_leaf_fails_transiently")
	add(i.ResetRecovered, "session_accepted_reset_after_a_failed_one")
	add(i.RecoveredAfterRead, "session_accepted_reset_after_a_failed_one_with_calls_in_between")
	add(i.RecoveredNested, "session_accepted_reset_after_a_failed_one_on_nested_tree")
	add(i.ResetRun, "session_consecutive_successful_resets_then_read")
	add(i.LongResetRun, "session_ge_255_consecutive_successful_resets_then_read")
	add(i.ResetRunMult256, "session_consecutive_successful_resets_multiple_of_256")
	add(i.ResetRunMult256Look, "session_consecutive_successful_resets_multiple_of_256_begun_on_loaded_lookahead")
	add(i.ResetRunMult256Nested, "session_consecutive_successful_resets_multiple_of_256_on_nested_tree")
	add(i.SelCalls > 0, "session_selector_consulted")
	add(i.Emitted >= 20, "session_emitted_ge_20")
	return c
}
