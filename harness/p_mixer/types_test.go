package p_mixer

import (
	"context"
	"encoding/json"
	"fmt"
	"os"
	"os/exec"
	"strings"
	"testing"
	"time"

	"pgregory.net/rapid"
	"verifharness/internal/vstat"
)

// ---- process-level histories over source types (types.go) ----

func recordTypeHistory(h TypeHistory, info TypeHistoryInfo, extra ...string) {
	vstat.For(prop).Case(info.NonTrivial(), h.Hash(), func() any { return h }, append(info.Classes(), extra...)...)
}

// genTypeCase draws one mixer use: sources mostly from the zoo types printed as spelling (with and without Reset),
// the other side from the same spelling, an ordinary kind or any other zoo type; a short program rich in Resets.
func genTypeCase(t *rapid.T, spelling string) Case {
	ids := ZooIDs(spelling)
	anyZoo := func(label string) string {
		sp := rapid.SampledFrom(ZooSpellings).Draw(t, label+"Spelling")
		return rapid.SampledFrom(ZooIDs(sp)).Draw(t, label)
	}
	c := Case{Sel: rapid.SampledFrom(Selectors).Draw(t, "sel")}
	if rapid.IntRange(0, 7).Draw(t, "kaOther") == 0 {
		c.KA = anyZoo("kaAny")
	} else {
		c.KA = rapid.SampledFrom(ids).Draw(t, "ka")
	}
	switch k := rapid.IntRange(0, 9).Draw(t, "kbClass"); {
	case k < 4:
		c.KB = rapid.SampledFrom(ids).Draw(t, "kb")
	case k < 5:
		c.KB = c.KA
	case k < 8:
		c.KB = KSlice
	case k < 9:
		c.KB = rapid.SampledFrom([]string{KNoReset, KDisparity, KValCmp, KValFuncNoReset}).Draw(t, "kbOrdinary")
	default:
		c.KB = anyZoo("kbAny")
	}
	if rapid.Bool().Draw(t, "swapSides") {
		c.KA, c.KB = c.KB, c.KA
	}
	c.A = genSeq(t, "a", c.Sel)
	c.B = genSeq(t, "b", c.Sel)
	c.NilA = rapid.Bool().Draw(t, "nilA")
	c.NilB = rapid.Bool().Draw(t, "nilB")
	c.Prog = genProg(t, "prog", 10, rapid.SampledFrom([]int{2, 6, 12}).Draw(t, "resetWeight"))
	if rapid.IntRange(0, 4).Draw(t, "endWithReset") != 0 {
		c.Prog += "r" + strings.Repeat("n", rapid.IntRange(0, 3).Draw(t, "afterReset"))
	}
	return c
}

func genTypeHistory(t *rapid.T) TypeHistory {
	spelling := rapid.SampledFrom(ZooSpellings).Draw(t, "spelling")
	var h TypeHistory
	for p, n := 0, rapid.IntRange(1, 4).Draw(t, "phases"); p < n; p++ {
		width := 1
		if rapid.IntRange(0, 2).Draw(t, "concurrent") == 0 {
			width = rapid.IntRange(2, 4).Draw(t, "width")
		}
		phase := make([]Case, width)
		for k := range phase {
			phase[k] = genTypeCase(t, spelling)
		}
		h.Phases = append(h.Phases, phase)
	}
	return h
}

// runFresh executes a history in a FRESH process (this test binary, TestC18TypeHistoryFresh) and returns its verdict.
func runFresh(h TypeHistory) (*vstat.Violation, error) {
	dir := os.Getenv("VERIF_TMP")
	if dir == "" {
		dir = os.TempDir()
	}
	f, err := os.CreateTemp(dir, "typehistory-*.json")
	if err != nil {
		return nil, err
	}
	in := f.Name()
	out := in + ".verdict"
	defer os.Remove(in)
	defer os.Remove(out)
	b, _ := json.Marshal(h)
	_, err = f.Write(b)
	f.Close()
	if err != nil {
		return nil, err
	}
	ctx, cancel := context.WithTimeout(context.Background(), 120*time.Second)
	defer cancel()
	cmd := exec.CommandContext(ctx, os.Args[0], "-test.run=^TestC18TypeHistoryFresh$", "-test.count=1")
	for _, e := range os.Environ() {
		if strings.HasPrefix(e, "VERIF_STATS=") || strings.HasPrefix(e, "VERIF_REPLAY=") || strings.HasPrefix(e, "VERIF_TH_") {
			continue
		}
		cmd.Env = append(cmd.Env, e)
	}
	cmd.Env = append(cmd.Env, "VERIF_TH_FRESH="+in, "VERIF_TH_VERDICT="+out)
	if o, err := cmd.CombinedOutput(); err != nil {
		return nil, fmt.Errorf("fresh process: %v: %s", err, o)
	}
	vb, err := os.ReadFile(out)
	if err != nil {
		return nil, err
	}
	var v vstat.Violation
	if err := json.Unmarshal(vb, &v); err != nil {
		return nil, err
	}
	if v.Sig == "" {
		return nil, nil
	}
	return &v, nil
}

// TestC18TypeHistoryFresh is the body of the fresh process of runFresh; it does nothing in an ordinary run.
func TestC18TypeHistoryFresh(t *testing.T) {
	in, out := os.Getenv("VERIF_TH_FRESH"), os.Getenv("VERIF_TH_VERDICT")
	if in == "" || out == "" {
		t.Skip("only run as the fresh process of a type history")
	}
	b, err := os.ReadFile(in)
	if err != nil {
		t.Fatal(err)
	}
	var h TypeHistory
	if err := json.Unmarshal(b, &h); err != nil {
		t.Fatal(err)
	}
	_, v := RunTypeHistory(h)
	if v == nil {
		v = &vstat.Violation{}
	}
	vb, _ := json.Marshal(v)
	if err := os.WriteFile(out, vb, 0o644); err != nil {
		t.Fatal(err)
	}
}

// typeLedger is what this process has executed so far, phase by phase.
type typeLedger struct {
	phases [][]Case
	keys   map[string]bool
}

// add appends the phases of h (a phase that was executed before in exactly the same form is not listed twice).
func (l *typeLedger) add(h TypeHistory) {
	if l.keys == nil {
		l.keys = map[string]bool{}
	}
	for _, ph := range h.Phases {
		b, _ := json.Marshal(ph)
		if !l.keys[string(b)] {
			l.keys[string(b)] = true
			l.phases = append(l.phases, ph)
		}
	}
}

// about returns the earlier phases that used a zoo type printed like one of the zoo types of h.
func (l *typeLedger) about(h TypeHistory) [][]Case {
	want := Spellings(h.Phases)
	var res [][]Case
	for _, ph := range l.phases {
		for s := range Spellings([][]Case{ph}) {
			if want[s] {
				res = append(res, ph)
				break
			}
		}
	}
	return res
}

// judgeTypeHistory runs h in this (used) process. A type history is the history of a PROCESS and its verdict must be
// a function of the reported case alone (replay runs it in a fresh process), but this process has executed other
// histories before. So a failing history is executed again in fresh processes: alone; preceded by the earlier phases of
// this process that used types printed like its own; preceded by everything this process did before. The first of
// these that fails in its fresh process is the reported case (with the verdict of the fresh process). If none does -
// or no process can be started - the complete history of this process is reported with the verdict seen here.
func judgeTypeHistory(h TypeHistory, l *typeLedger) (TypeHistory, TypeHistoryInfo, *vstat.Violation, string) {
	info, v := RunTypeHistory(h)
	if v == nil {
		return h, info, nil, ""
	}
	join := func(before [][]Case) TypeHistory {
		return TypeHistory{Phases: append(append([][]Case{}, before...), h.Phases...)}
	}
	cands := []TypeHistory{h}
	classes := []string{"type_history_failed:alone_in_a_fresh_process"}
	if rel := l.about(h); len(rel) > 0 {
		cands = append(cands, join(rel))
		classes = append(classes, "type_history_failed:after_earlier_uses_of_types_printed_alike")
	}
	if len(l.phases) > 0 {
		cands = append(cands, join(l.phases))
		classes = append(classes, "type_history_failed:after_everything_the_process_did_before")
	}
	for k, c := range cands {
		fv, err := runFresh(c)
		if err != nil {
			fmt.Fprintf(os.Stderr, "type history: %v\n", err)
			break
		}
		if fv != nil {
			return c, info, fv, classes[k]
		}
	}
	full := join(l.phases)
	return full, info, vstat.V(v.Sig, "%s [seen in a process that had executed %d other phases before; a fresh process did not reproduce it]", v.Msg, len(l.phases)),
		"type_history_failed:only_in_the_used_process"
}

// TestC18TypeHistory: random histories of mixer uses over the zoo types, one after the other in this process, so that
// the process as a whole is a long history in which every spelling sees its resettable and non-resettable types in a
// drawn order (first uses sequential or concurrent).
func TestC18TypeHistory(t *testing.T) {
	st := vstat.For(prop)
	var ledger typeLedger
	rapid.Check(t, func(t *rapid.T) {
		h := genTypeHistory(t)
		rep, info, v, class := judgeTypeHistory(h, &ledger)
		ledger.add(h)
		if v != nil {
			st.Class(class, 1)
		}
		st.Report(t, "TestC18TypeHistory", rep, v)
		recordTypeHistory(h, info)
	})
}

// replayTypeHistory handles a replay file whose case has a "phases" member.
func replayTypeHistory(t *testing.T, p string) bool {
	var h TypeHistory
	if _, err := vstat.LoadReplay(p, &h); err != nil || h.Phases == nil {
		return false
	}
	info, v := RunTypeHistory(h)
	vstat.For(prop).Report(t, "TestReplay", h, v)
	recordTypeHistory(h, info)
	return true
}
