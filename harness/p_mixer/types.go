package p_mixer

// PROCESS-LEVEL HISTORIES OVER SOURCE TYPES (fourth case type).
//
// "For any two input iterators": the dynamic TYPE of an input is part of the quantifier, and a program uses many
// mixers over many iterator types during its life. Whether a Reset of a mixer must succeed is decided by what the
// sources of THAT mixer implement - not by what sources of other mixers, used earlier (or at the same time) in the
// process, implemented. This file provides a ZOO of iterator types whose printed name (fmt %T, reflect's String())
// is shared by several DIFFERENT types, some with and some without a Reset method:
//
//   local     function-local types: every helper function declares its own `type cursor struct{...}`; all of them
//             print as "p_mixer.cursor" (by value) or "*p_mixer.cursor" (by pointer)
//   generic   types declared inside generic functions: "p_mixer.box[int]" is one type per function (type arguments
//             print with their full import path, so only instantiations over one and the same argument share a name)
//   twinpkg   named types (plain and generic) of two packages that share their package name: the harness package and
//             verifharness/p_mixer/twin/p_mixer both have Cursor, Walker, Seq[T], Ring[T]
//
// A zoo type is a source kind "zoo:<family>/<name>/<variant>" of an ordinary Case, so everything the Case runner
// judges (reference merge, selector heads, HasNext/Next agreement, Reset accepted or refused) applies unchanged.
// A TypeHistory is a list of PHASES executed in one process, every phase a set of cases (one = sequential, several =
// started together on a barrier, every case on its own goroutine with its own mixer and sources: concurrent first use).

import (
	"encoding/json"
	"fmt"
	"reflect"
	"sort"
	"strings"
	"sync"

	"github.com/acquirecloud/golibs"
	"github.com/acquirecloud/golibs/container/iterable"
	"verifharness/internal/vstat"
	twin "verifharness/p_mixer/twin/p_mixer"
)

type fwdBase struct {
	s   []int
	pos int
}

func (c *fwdBase) HasNext() bool { return c.pos < len(c.s) }
func (c *fwdBase) Next() (int, bool) {
	if c.pos < len(c.s) {
		c.pos++
		return c.s[c.pos-1], true
	}
	return 0, false
}
func (c *fwdBase) Close() error { return nil }

type rewBase struct{ fwdBase }

func (c *rewBase) Reset() error { c.pos = 0; return nil }

func newFwd(s []int) *fwdBase { return &fwdBase{s: s} }
func newRew(s []int) *rewBase { return &rewBase{fwdBase{s: s}} }

// ---- family local: one type per function, all with the same name ----

func localCursorFwd(s []int) iterable.Iterator[int] {
	type cursor struct{ *fwdBase }
	return cursor{newFwd(s)}
}
func localCursorFwd2(s []int) iterable.Iterator[int] {
	type cursor struct {
		*fwdBase
		note string
	}
	return cursor{newFwd(s), "forward only"}
}
func localCursorRew(s []int) iterable.Iterator[int] {
	type cursor struct{ *rewBase }
	return cursor{newRew(s)}
}
func localCursorRew2(s []int) iterable.Iterator[int] {
	type cursor struct {
		gen int
		*rewBase
	}
	return cursor{1, newRew(s)}
}
func localCursorFwdPtr(s []int) iterable.Iterator[int] {
	type cursor struct{ fwdBase }
	return &cursor{fwdBase{s: s}}
}
func localCursorRewPtr(s []int) iterable.Iterator[int] {
	type cursor struct{ rewBase }
	return &cursor{rewBase{fwdBase{s: s}}}
}
func localIterFwd(s []int) iterable.Iterator[int] {
	type iter struct{ *fwdBase }
	return iter{newFwd(s)}
}
func localIterRew(s []int) iterable.Iterator[int] {
	type iter struct{ *rewBase }
	return iter{newRew(s)}
}
func localIterRew2(s []int) iterable.Iterator[int] {
	type iter struct {
		*rewBase
		_ [0]func()
	}
	return iter{rewBase: newRew(s)}
}
func localIterFwdPtr(s []int) iterable.Iterator[int] {
	type iter struct{ fwdBase }
	return &iter{fwdBase{s: s}}
}
func localIterRewPtr(s []int) iterable.Iterator[int] {
	type iter struct{ rewBase }
	return &iter{rewBase{fwdBase{s: s}}}
}
func localReaderFwd(s []int) iterable.Iterator[int] {
	type reader struct{ *fwdBase }
	return reader{newFwd(s)}
}
func localReaderRew(s []int) iterable.Iterator[int] {
	type reader struct{ *rewBase }
	return reader{newRew(s)}
}
func localReaderFwdPtr(s []int) iterable.Iterator[int] {
	type reader struct{ fwdBase }
	return &reader{fwdBase{s: s}}
}
func localReaderRewPtr(s []int) iterable.Iterator[int] {
	type reader struct{ rewBase }
	return &reader{rewBase{fwdBase{s: s}}}
}

// ---- family generic: a local type of a generic function is one type per function and type argument ----

// Tag is a named type argument.
type Tag struct{ _ int }

func genFwd[G any](s []int) iterable.Iterator[int] {
	type box struct {
		*fwdBase
		_ [0]G
	}
	return box{fwdBase: newFwd(s)}
}
func genRew[G any](s []int) iterable.Iterator[int] {
	type box struct {
		*rewBase
		_ [0]G
	}
	return box{rewBase: newRew(s)}
}

// ---- family twinpkg: the counterparts of twin.Cursor, twin.Walker, twin.Seq, twin.Ring ----

// Cursor cannot be reset here (the twin package's Cursor can).
type Cursor struct{ fwdBase }

// Walker can be reset here (the twin package's Walker cannot).
type Walker struct{ rewBase }

// Seq can be reset here (the twin package's Seq cannot).
type Seq[T any] struct {
	rewBase
	_ [0]T
}

// Ring cannot be reset here (the twin package's Ring can).
type Ring[T any] struct {
	fwdBase
	_ [0]T
}

// ZooType is one iterator type of the zoo.
type ZooType struct {
	ID      string // the source kind: "zoo:<family>/<name>/<variant>"
	Family  string
	Reset   bool   // the type has a Reset method
	Printed string // fmt.Sprintf("%T") of an iterator of the type: shared with other types of the zoo
	mk      func(s []int) iterable.Iterator[int]
}

var (
	zoo       = map[string]*ZooType{}
	zooGroups = map[string][]string{} // printed name -> ids (sorted)
	// ZooSpellings lists the printed names that are shared by at least one type with and one without Reset.
	ZooSpellings []string
)

func addZoo(family, name string, reset bool, mk func(s []int) iterable.Iterator[int]) {
	id := "zoo:" + family + "/" + name
	it := mk(nil)
	if _, ok := it.(golibs.Reseter); ok != reset {
		panic("zoo: wrong Reset flag of " + id)
	}
	z := &ZooType{ID: id, Family: family, Reset: reset, Printed: fmt.Sprintf("%T", it), mk: mk}
	for _, o := range zooGroups[z.Printed] {
		if reflect.TypeOf(zoo[o].mk(nil)) == reflect.TypeOf(it) {
			panic("zoo: " + id + " and " + o + " are one type")
		}
	}
	if zoo[id] != nil {
		panic("zoo: duplicate " + id)
	}
	zoo[id] = z
	zooGroups[z.Printed] = append(zooGroups[z.Printed], id)
}

func init() {
	addZoo("local", "cursor/fwd", false, localCursorFwd)
	addZoo("local", "cursor/fwd2", false, localCursorFwd2)
	addZoo("local", "cursor/rew", true, localCursorRew)
	addZoo("local", "cursor/rew2", true, localCursorRew2)
	addZoo("local", "cursor/fwdptr", false, localCursorFwdPtr)
	addZoo("local", "cursor/rewptr", true, localCursorRewPtr)
	addZoo("local", "iter/fwd", false, localIterFwd)
	addZoo("local", "iter/rew", true, localIterRew)
	addZoo("local", "iter/rew2", true, localIterRew2)
	addZoo("local", "iter/fwdptr", false, localIterFwdPtr)
	addZoo("local", "iter/rewptr", true, localIterRewPtr)
	addZoo("local", "reader/fwd", false, localReaderFwd)
	addZoo("local", "reader/rew", true, localReaderRew)
	addZoo("local", "reader/fwdptr", false, localReaderFwdPtr)
	addZoo("local", "reader/rewptr", true, localReaderRewPtr)

	addZoo("generic", "box[int]/fwd", false, genFwd[int])
	addZoo("generic", "box[int]/rew", true, genRew[int])
	addZoo("generic", "box[string]/fwd", false, genFwd[string])
	addZoo("generic", "box[string]/rew", true, genRew[string])
	addZoo("generic", "box[[]int]/fwd", false, genFwd[[]int])
	addZoo("generic", "box[[]int]/rew", true, genRew[[]int])
	addZoo("generic", "box[Tag]/fwd", false, genFwd[Tag])
	addZoo("generic", "box[Tag]/rew", true, genRew[Tag])
	addZoo("generic", "box[map[Tag]bool]/fwd", false, genFwd[map[Tag]bool])
	addZoo("generic", "box[map[Tag]bool]/rew", true, genRew[map[Tag]bool])

	addZoo("twinpkg", "Cursor/here", false, func(s []int) iterable.Iterator[int] { return &Cursor{fwdBase{s: s}} })
	addZoo("twinpkg", "Cursor/twin", true, twin.NewCursor)
	addZoo("twinpkg", "Walker/here", true, func(s []int) iterable.Iterator[int] { return &Walker{rewBase{fwdBase{s: s}}} })
	addZoo("twinpkg", "Walker/twin", false, twin.NewWalker)
	addZoo("twinpkg", "Seq[int]/here", true, func(s []int) iterable.Iterator[int] { return &Seq[int]{rewBase: rewBase{fwdBase{s: s}}} })
	addZoo("twinpkg", "Seq[int]/twin", false, twin.NewSeq[int])
	addZoo("twinpkg", "Seq[Tag]/here", true, func(s []int) iterable.Iterator[int] { return &Seq[Tag]{rewBase: rewBase{fwdBase{s: s}}} })
	addZoo("twinpkg", "Seq[Tag]/twin", false, twin.NewSeq[Tag])
	addZoo("twinpkg", "Ring[string]/here", false, func(s []int) iterable.Iterator[int] { return &Ring[string]{fwdBase: fwdBase{s: s}} })
	addZoo("twinpkg", "Ring[string]/twin", true, twin.NewRing[string])

	for p, ids := range zooGroups {
		sort.Strings(ids)
		with, without := false, false
		for _, id := range ids {
			if zoo[id].Reset {
				with = true
			} else {
				without = true
			}
		}
		if !with || !without {
			panic("zoo: the types printed as " + p + " do not differ in Reset: " + strings.Join(ids, " "))
		}
		ZooSpellings = append(ZooSpellings, p)
	}
	sort.Strings(ZooSpellings)
}

// ZooIDs returns the source kinds of the zoo types that print as spelling.
func ZooIDs(spelling string) []string { return zooGroups[spelling] }

// Zoo returns the description of a zoo kind (nil for an ordinary kind).
func Zoo(kind string) *ZooType { return zoo[kind] }

// ---- histories ----

// TypeHistory is what one process does with mixers over the zoo (and ordinary) source types: phases in order,
// the cases of one phase concurrently.
type TypeHistory struct {
	Phases [][]Case `json:"phases"`
}

// TypeHistoryInfo is what the classifier needs.
type TypeHistoryInfo struct {
	Cases           int
	Concurrent      bool            // a phase of several cases
	Families        map[string]bool // zoo families used
	Spellings       int             // printed names used by the zoo sources of the history
	RefusedThenOK   bool            // a mixer over type T without Reset was refused, LATER a Reset of a mixer over a resettable type U printed like T was due (and judged)
	OKThenRefused   bool            // the other way round
	TogetherFirst   bool            // the first refused and the first accepted Reset of one spelling fell into one concurrent phase
	SamePairMixed   bool            // one mixer had two sources printed alike, one with and one without Reset
	SamePairBothOK  bool            // one mixer had two DIFFERENT resettable types printed alike and was Reset
	PointerAndValue bool            // both a "*p.T" and a "p.T" spelling of one local name were used
	Inner           []Info
}

// RunTypeHistory executes the history; the verdict of every case is that of the Case runner.
func RunTypeHistory(h TypeHistory) (info TypeHistoryInfo, v *vstat.Violation) {
	info.Families = map[string]bool{}
	refused := map[string]int{} // spelling -> 1 + index of the first phase with a refused Reset on a non-resettable type of it
	accepted := map[string]int{}
	spell := map[string]bool{}
	for p, phase := range h.Phases {
		infos := make([]Info, len(phase))
		viols := make([]*vstat.Violation, len(phase))
		if len(phase) == 1 {
			infos[0], viols[0] = Run(phase[0])
		} else {
			info.Concurrent = true
			var wg sync.WaitGroup
			start := make(chan struct{})
			for k := range phase {
				wg.Add(1)
				go func() {
					defer wg.Done()
					<-start
					infos[k], viols[k] = Run(phase[k])
				}()
			}
			close(start)
			wg.Wait()
		}
		for k, c := range phase {
			info.Cases++
			info.Inner = append(info.Inner, infos[k])
			if viols[k] != nil && v == nil {
				how := "alone"
				if len(phase) > 1 {
					how = fmt.Sprintf("concurrently with %d other case(s)", len(phase)-1)
				}
				v = vstat.V(viols[k].Sig, "type history, phase %d case %d (%s; sources %s / %s): %s", p, k, how, describeKind(c.KA), describeKind(c.KB), viols[k].Msg)
			}
			za, zb := zoo[c.KA], zoo[c.KB]
			for _, z := range []*ZooType{za, zb} {
				if z == nil {
					continue
				}
				info.Families[z.Family] = true
				spell[z.Printed] = true
				if strings.HasPrefix(z.Printed, "*") && spell[z.Printed[1:]] || spell["*"+z.Printed] {
					info.PointerAndValue = true
				}
				if infos[k].ResetRefused && !z.Reset && refused[z.Printed] == 0 {
					refused[z.Printed] = p + 1
				}
				if infos[k].ResetOK && z.Reset && accepted[z.Printed] == 0 {
					accepted[z.Printed] = p + 1
				}
				if infos[k].ResetOK && z.Reset && refused[z.Printed] != 0 && refused[z.Printed] < p+1 {
					info.RefusedThenOK = true
				}
				if infos[k].ResetRefused && !z.Reset && accepted[z.Printed] != 0 && accepted[z.Printed] < p+1 {
					info.OKThenRefused = true
				}
			}
			if za != nil && zb != nil && za.Printed == zb.Printed && za != zb {
				if za.Reset != zb.Reset && infos[k].ResetRefused {
					info.SamePairMixed = true
				}
				if za.Reset && zb.Reset && infos[k].ResetOK {
					info.SamePairBothOK = true
				}
			}
		}
		if len(phase) > 1 {
			for s, r := range refused {
				if r == p+1 && accepted[s] == p+1 {
					info.TogetherFirst = true
				}
			}
		}
		if v != nil {
			break
		}
	}
	info.Spellings = len(spell)
	return info, v
}

func describeKind(kind string) string {
	if z := zoo[kind]; z != nil {
		r := "no Reset"
		if z.Reset {
			r = "has Reset"
		}
		return fmt.Sprintf("%s [%%T %s, %s]", kind, z.Printed, r)
	}
	return kind
}

// Spellings returns the printed names of the zoo sources a list of phases uses.
func Spellings(phases [][]Case) map[string]bool {
	m := map[string]bool{}
	for _, ph := range phases {
		for _, c := range ph {
			for _, k := range []string{c.KA, c.KB} {
				if z := zoo[k]; z != nil {
					m[z.Printed] = true
				}
			}
		}
	}
	return m
}

// Hash identifies the history.
func (h TypeHistory) Hash() uint64 {
	b, _ := json.Marshal(h)
	return vstat.HashBytes(b)
}

// NonTrivial: the history puts the question the case type exists for - Reset verdicts for different types of one
// spelling, in either order or concurrently, or inside one mixer.
func (i TypeHistoryInfo) NonTrivial() bool {
	return i.RefusedThenOK || i.OKThenRefused || i.TogetherFirst || i.SamePairMixed || i.SamePairBothOK
}

// Classes for the histogram.
func (i TypeHistoryInfo) Classes() []string {
	c := []string{"type_history"}
	add := func(b bool, s string) {
		if b {
			c = append(c, "type_history:"+s)
		}
	}
	for f := range i.Families {
		c = append(c, "type_history:family_"+f)
	}
	sort.Strings(c)
	add(i.Concurrent, "concurrent_phase")
	add(i.RefusedThenOK, "refused_reset_then_accepted_reset_of_another_type_printed_alike")
	add(i.OKThenRefused, "accepted_reset_then_refused_reset_of_another_type_printed_alike")
	add(i.TogetherFirst, "first_refused_and_first_accepted_reset_of_a_spelling_in_one_concurrent_phase")
	add(i.SamePairMixed, "one_mixer_over_two_types_printed_alike_one_without_reset")
	add(i.SamePairBothOK, "one_mixer_over_two_resettable_types_printed_alike")
	add(i.PointerAndValue, "pointer_and_value_spelling_of_one_local_name")
	add(i.Spellings >= 2, "several_spellings")
	seen := map[string]bool{}
	for _, in := range i.Inner {
		for _, k := range in.Classes() {
			if !seen[k] {
				seen[k] = true
				c = append(c, "type_history:case:"+k)
			}
		}
	}
	return c
}
