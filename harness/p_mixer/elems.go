package p_mixer

import (
	"fmt"
	"strconv"
	"strings"

	"github.com/acquirecloud/golibs/container/iterable"
	"verifharness/internal/vstat"
)

// Element-type shapes. Mixer[E] is generic and C18 speaks about "any two input iterators and any selector": for an
// element type whose ZERO VALUE is a legal element - the nil interface of Mixer[any] / Mixer[error], the nil pointer of
// Mixer[*T], the empty string of Mixer[string] - the zero value must travel through the mixer like any other element,
// and the selector alone decides about it. (The main runner merges ints and makes sure that 0 is never an element.)
//
// ElemCase: A and B are value sequences in which 0 stands for the zero value of the element type and v >= 1 for an
// ordinary element of value v (tagged with side and index; the zero value cannot carry a tag). The selector compares
// ranks: rank(v) = 2v, rank(zero value) = ZeroRank - 0 puts the zero value first, an even rank 2k makes it tie with
// value k, an odd rank puts it strictly between two values, a large rank puts it last. Prog as in Case (h, n, r, rN).
type ElemCase struct {
	Type     string `json:"type"` // any, error, ptr, string
	A        []int  `json:"a"`
	B        []int  `json:"b"`
	Sel      string `json:"sel"`
	ZeroRank int    `json:"zero_rank"`
	Prog     string `json:"prog"`
}

// ElemTypes lists the element-type shapes.
var ElemTypes = []string{"any", "error", "ptr", "string"}

// ElemInfo is what the classifier needs.
type ElemInfo struct {
	Zeros          int  // zero-value elements in the inputs
	ZeroVsValue    bool // the selector had to decide between a zero-value head and an ordinary head
	ZeroVsZero     bool // ... between two zero-value heads
	ZeroLost       bool // the zero-value head was NOT the one preferred in such a decision (it had to wait)
	ZeroWon        bool // the zero-value head was preferred over an ordinary head
	ZeroFirstOfIn  bool // a zero value is the first element of an input
	ZeroLastOfIn   bool // ... the last element of an input with >= 2 elements
	ZeroMiddleOfIn bool // ... neither
	ZeroEmitted    int
	Sorted         bool // both inputs non-empty and sorted under the selector
	ResetOK        bool
	Tie            bool
	SelCalls       int
	Emitted        int
	Consec256      bool
}

type tagged struct{ V, Side, Idx int }

type taggedErr struct{ V, Side, Idx int }

func (e taggedErr) Error() string { return fmt.Sprintf("%d(%c[%d])", e.V, "AB"[e.Side], e.Idx) }

// sliceIter is a resettable iterator over a slice of any element type.
type sliceIter[E any] struct {
	s   []E
	pos int
}

func (it *sliceIter[E]) HasNext() bool { return it.pos < len(it.s) }
func (it *sliceIter[E]) Next() (E, bool) {
	if it.pos < len(it.s) {
		it.pos++
		return it.s[it.pos-1], true
	}
	return *new(E), false
}
func (it *sliceIter[E]) Reset() error { it.pos = 0; return nil }
func (it *sliceIter[E]) Close() error { return nil }

// RunElem executes the case.
func RunElem(c ElemCase) (info ElemInfo, v *vstat.Violation) {
	return info, vstat.Guard("mixer:panic", func() *vstat.Violation {
		switch c.Type {
		case "any":
			return runElem(c, &info, func(v, side, idx int) any { return tagged{v, side, idx} },
				func(e any) int { return e.(tagged).V },
				func(e any) string { t := e.(tagged); return fmt.Sprintf("%d(%c[%d])", t.V, "AB"[t.Side], t.Idx) }, "<nil interface>")
		case "error":
			return runElem(c, &info, func(v, side, idx int) error { return taggedErr{v, side, idx} },
				func(e error) int { return e.(taggedErr).V },
				func(e error) string { return e.Error() }, "<nil error>")
		case "ptr":
			return runElem(c, &info, func(v, side, idx int) *tagged { return &tagged{v, side, idx} },
				func(e *tagged) int { return e.V },
				func(e *tagged) string { return fmt.Sprintf("&%d(%c[%d])", e.V, "AB"[e.Side], e.Idx) }, "<nil pointer>")
		case "string":
			return runElem(c, &info, func(v, side, idx int) string { return fmt.Sprintf("%d/%c/%d", v, "AB"[side], idx) },
				func(e string) int { n, _ := strconv.Atoi(e[:strings.IndexByte(e, '/')]); return n },
				func(e string) string { return fmt.Sprintf("%q", e) }, `""`)
		}
		panic("bad element type " + c.Type)
	})
}

func runElem[E comparable](c ElemCase, info *ElemInfo, mk func(v, side, idx int) E, valOf func(E) int, showNZ func(E) string, zeroName string) *vstat.Violation {
	var zero E
	show := func(e E) string {
		if e == zero {
			return zeroName
		}
		return showNZ(e)
	}
	build := func(vals []int, side int) []E {
		out := make([]E, len(vals))
		for i, v := range vals {
			if v < 0 {
				panic("values must be >= 0")
			}
			if v > 0 {
				out[i] = mk(v, side, i)
				continue
			}
			info.Zeros++
			switch {
			case i == 0:
				info.ZeroFirstOfIn = true
			case i == len(vals)-1:
				info.ZeroLastOfIn = true
			default:
				info.ZeroMiddleOfIn = true
			}
		}
		return out
	}
	a, b := build(c.A, 0), build(c.B, 1)
	rank := func(e E) int {
		if e == zero {
			return c.ZeroRank
		}
		return 2 * valOf(e)
	}
	var sel func(x, y E) bool
	switch c.Sel {
	case "lt":
		sel = func(x, y E) bool { return rank(x) < rank(y) }
	case "le":
		sel = func(x, y E) bool { return rank(x) <= rank(y) }
	case "gt":
		sel = func(x, y E) bool { return rank(x) > rank(y) }
	case "first":
		sel = func(x, y E) bool { return true }
	case "second":
		sel = func(x, y E) bool { return false }
	default:
		panic("bad selector " + c.Sel)
	}
	sortedU := func(s []E) bool {
		for k := 1; k < len(s); k++ {
			switch c.Sel {
			case "lt", "le":
				if rank(s[k-1]) > rank(s[k]) {
					return false
				}
			case "gt":
				if rank(s[k-1]) < rank(s[k]) {
					return false
				}
			default:
				return false
			}
		}
		return true
	}
	info.Sorted = len(a) > 0 && len(b) > 0 && sortedU(a) && sortedU(b)

	i, j := 0, 0
	state := func() string { return fmt.Sprintf("consumed A=%d/%d B=%d/%d", i, len(a), j, len(b)) }
	var selViol *vstat.Violation
	checking := func(x, y E) bool {
		info.SelCalls++
		if selViol == nil {
			switch {
			case i >= len(a) || j >= len(b):
				selViol = vstat.V("mixer:selector-got-non-head", "selector called with (%s, %s) although an input has no head (%s)", show(x), show(y), state())
			case x != a[i] || y != b[j]:
				selViol = vstat.V("mixer:selector-got-non-head", "selector called with (%s, %s), the heads are (%s, %s) (%s)", show(x), show(y), show(a[i]), show(b[j]), state())
			}
		}
		return sel(x, y)
	}
	var m iterable.Mixer[E]
	m.Init(checking, &sliceIter[E]{s: a}, &sliceIter[E]{s: b})

	peek := func() (e E, ok bool, first bool) {
		switch {
		case i < len(a) && j >= len(b):
			return a[i], true, true
		case i < len(a) && j < len(b):
			first = sel(a[i], b[j])
			za, zb := a[i] == zero, b[j] == zero
			if rank(a[i]) == rank(b[j]) {
				info.Tie = true
			}
			switch {
			case za && zb:
				info.ZeroVsZero = true
			case za || zb:
				info.ZeroVsValue = true
				if za == first {
					info.ZeroWon = true
				} else {
					info.ZeroLost = true
				}
			}
			if first {
				return a[i], true, true
			}
			return b[j], true, false
		case j < len(b):
			return b[j], true, false
		}
		return zero, false, false
	}
	var lastH *bool
	consec := 0
	next := func(where lazyStr) *vstat.Violation {
		got, ok := m.Next()
		if selViol != nil {
			return vstat.V(selViol.Sig, "%s: during Next: %s", where, selViol.Msg)
		}
		want, wok, first := peek()
		if lastH != nil && *lastH != ok {
			return vstat.V("mixer:hasnext-next-disagree", "%s: HasNext said %v, the following Next returned ok=%v (%s)", where, *lastH, ok, state())
		}
		if ok != wok {
			if wok {
				return vstat.V("mixer:next-ends-early", "%s: Next returned ok=false, reference still has %s (%s)", where, show(want), state())
			}
			return vstat.V("mixer:next-past-end", "%s: Next returned (%s,true) although both inputs are exhausted (%s)", where, show(got), state())
		}
		if ok && got != want {
			return vstat.V("mixer:next-wrong-element", "%s: Next returned %s, reference merge emits %s (Mixer[%s], selector %s with the zero value at rank %d, ordinary values at 2*value; %s)",
				where, show(got), show(want), c.Type, c.Sel, c.ZeroRank, state())
		}
		if ok {
			if first {
				i++
			} else {
				j++
			}
			info.Emitted++
			if got == zero {
				info.ZeroEmitted++
			}
		}
		lastH = nil
		return nil
	}
	for _, tk := range parseProg(c.Prog) {
		p, rep := tk.pos, 0
		where := lazyStr(func() string {
			if tk.n > 1 {
				return fmt.Sprintf("call #%d %c (Reset %d of a run of %d) of %q", p, tk.ch, rep+1, tk.n, c.Prog)
			}
			return fmt.Sprintf("call #%d %c of %q", p, tk.ch, c.Prog)
		})
		if tk.ch != 'r' {
			if consec > 0 && consec%256 == 0 {
				info.Consec256 = true
			}
			consec = 0
		}
		switch tk.ch {
		case 'h':
			got := m.HasNext()
			if selViol != nil {
				return vstat.V(selViol.Sig, "%s: during HasNext: %s", where, selViol.Msg)
			}
			_, want, _ := peek()
			if lastH != nil && *lastH != got {
				return vstat.V("mixer:hasnext-not-idempotent", "%s: HasNext changed its answer from %v to %v without a Next in between (%s)", where, *lastH, got, state())
			}
			if got != want {
				return vstat.V("mixer:hasnext-wrong", "%s: HasNext=%v, reference says %v (%s)", where, got, want, state())
			}
			lastH = &got
		case 'n':
			if v := next(where); v != nil {
				return v
			}
		case 'r':
			for rep = 0; rep < tk.n; rep++ {
				if err := m.Reset(); err != nil {
					return vstat.V("mixer:reset-failed", "%s: Reset returned %v although both sources can be reset", where, err)
				}
				if selViol != nil {
					return vstat.V(selViol.Sig, "%s: during Reset: %s", where, selViol.Msg)
				}
				info.ResetOK = true
				consec++
				i, j, lastH = 0, 0, nil
			}
		default:
			panic("bad call " + string(tk.ch))
		}
	}
	lastH = nil
	for k := 0; k <= len(a)+len(b)+1; k++ {
		_, more, _ := peek()
		if v := next(func() string { return fmt.Sprintf("final drain step %d after %q", k, c.Prog) }); v != nil {
			return v
		}
		if !more {
			break
		}
	}
	if m.HasNext() {
		return vstat.V("mixer:hasnext-wrong", "after the final drain HasNext=true (%s)", state())
	}
	if got, ok := m.Next(); ok {
		return vstat.V("mixer:next-past-end", "after the final drain Next returned (%s,true)", show(got))
	}
	if selViol != nil {
		return vstat.V(selViol.Sig, "after the final drain: %s", selViol.Msg)
	}
	return nil
}

// NonTrivial: the selector had to decide about a zero-value head.
func (i ElemInfo) NonTrivial() bool { return i.ZeroVsValue || i.ZeroVsZero }

// Classes for the histogram.
func (i ElemInfo) Classes(typ string) []string {
	c := []string{"element_type:" + typ}
	add := func(b bool, s string) {
		if b {
			c = append(c, "element_type:"+typ+":"+s)
		}
	}
	add(i.Zeros > 0, "zero_value_element_in_an_input")
	add(i.ZeroFirstOfIn, "zero_value_first_of_an_input")
	add(i.ZeroMiddleOfIn, "zero_value_in_the_middle_of_an_input")
	add(i.ZeroLastOfIn, "zero_value_last_of_an_input")
	add(i.ZeroVsValue, "selector_decides_zero_value_head_vs_ordinary_head")
	add(i.ZeroVsZero, "selector_decides_between_two_zero_value_heads")
	add(i.ZeroWon, "zero_value_head_preferred")
	add(i.ZeroLost, "zero_value_head_has_to_wait")
	add(i.Sorted && i.Zeros > 0, "both_sorted_under_selector_with_zero_values")
	add(i.ResetOK && i.Zeros > 0, "reset_with_zero_values")
	add(i.Tie, "tie_between_heads")
	add(i.Consec256, "consecutive_resets_multiple_of_256")
	return c
}
