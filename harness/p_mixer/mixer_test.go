package p_mixer

import (
	"fmt"
	"runtime"
	"runtime/debug"
	"sort"
	"strings"
	"testing"

	"pgregory.net/rapid"
	"verifharness/internal/enum"
	"verifharness/internal/vstat"
)

const prop = "C18"

func TestMain(m *testing.M) {
	debug.SetGCPercent(800) // tens of millions of tiny short-lived cases: collect less often
	vstat.Main(m)
}

func record(c Case, info Info) {
	vstat.For(prop).Case(info.NonTrivial(), c.Hash(), func() any { return c }, info.Classes()...)
}

// allSeqs returns every sequence over {1..alpha} of length 0..maxLen, shortest first.
func allSeqs(alpha, maxLen int) [][]int {
	var out [][]int
	enum.Lists(alpha, maxLen, 0, 1, func(idx []int) {
		s := make([]int, len(idx))
		for i, e := range idx {
			s[i] = e + 1
		}
		out = append(out, s)
	})
	return out
}

// allPrograms returns every call program over the first `letters` letters of "hnri" of length 0..depth,
// shortest first.
func allPrograms(letters, depth int) []string {
	var out []string
	enum.Lists(letters, depth, 0, 1, func(idx []int) {
		b := make([]byte, len(idx))
		for i, e := range idx {
			b[i] = "hnri"[e]
		}
		out = append(out, string(b))
	})
	return out
}

// programs: every program over {h,n,r,i} up to depth4, plus every program over {h,n,r} of length
// depth4+1..depth3 (shortest first).
func programs(depth4, depth3 int) []string {
	out := allPrograms(4, depth4)
	for _, p := range allPrograms(3, depth3) {
		if len(p) > depth4 {
			out = append(out, p)
		}
	}
	return out
}

var kindPairsResettable = [][2]string{{KSlice, KSlice}, {KSlice, KDisparity}, {KDisparity, KSlice}, {KDisparity, KDisparity}}
var kindPairsNoReset = [][2]string{{KNoReset, KSlice}, {KSlice, KNoReset}, {KNoReset, KNoReset}, {KNoReset, KDisparity}, {KDisparity, KNoReset}}

func TestC18Exhaustive(t *testing.T) {
	st := vstat.For(prop)
	shard, shards := vstat.Shard()
	total := int64(0)
	combo := 0
	// part 1: inputs of length 0..3; programs over {h,n,r,i} to depth 4 (quick) / 5 (thorough) and over {h,n,r} to depth 5 / 7.
	// part 2 (thorough): inputs of length 0..4 with at least one of length 4; depths 3 and 5.
	// Reductions (the rapid unit has none of them):
	//  * a pair with a non-resettable source is run only with programs whose first r is their last letter: the
	//    wrapper delegates every call, so without r it behaves like the slice source, and the case ends at the
	//    first (refused) Reset;
	//  * the inputs after a re-Init are the swapped pair (B,A) and, as a second variant, two empty inputs;
	//  * an empty input is served from an empty non-nil slice and from a nil slice (per side; the two-empty
	//    re-Init variant only as both non-nil / both nil).
	type part struct{ maxLen, depth4, depth3, needLen int }
	parts := []part{{3, vstat.Pick(4, 5), vstat.Pick(5, 7), 0}}
	if vstat.Thorough() {
		parts = append(parts, part{4, 3, 5, 4})
	}
	desc := []map[string]any{}
	for _, pt := range parts {
		seqs := allSeqs(3, pt.maxLen)
		progs := programs(pt.depth4, pt.depth3)
		n := int64(0)
		// programs are the outer loop so that the first failure reported has a shortest program
		for _, prog := range progs {
			firstR := strings.IndexByte(prog, 'r')
			kinds := kindPairsResettable
			if firstR >= 0 && firstR == len(prog)-1 {
				kinds = append(append([][2]string{}, kindPairsResettable...), kindPairsNoReset...)
			}
			variants := 1
			if strings.IndexByte(prog, 'i') >= 0 {
				variants = 2
			}
			for _, a := range seqs {
				for _, b := range seqs {
					if len(a) < pt.needLen && len(b) < pt.needLen {
						continue
					}
					combo++
					if combo%shards != shard {
						continue
					}
					for variant := 0; variant < variants; variant++ {
						var a2, b2 []int
						if variant == 0 {
							a2, b2 = b, a
						}
						// flavours of an empty input: empty non-nil slice / nil slice, per side where the side has
						// an empty input (for the two-empty re-Init variant: both non-nil or both nil)
						flavours := [][2]bool{{false, false}}
						switch {
						case variant == 1:
							flavours = append(flavours, [2]bool{true, true})
						case len(a) == 0 && len(b) == 0:
							flavours = append(flavours, [2]bool{true, false}, [2]bool{false, true}, [2]bool{true, true})
						case len(a) == 0:
							flavours = append(flavours, [2]bool{true, false})
						case len(b) == 0:
							flavours = append(flavours, [2]bool{false, true})
						}
						for fi, fl := range flavours {
							sels := Selectors
							if variant == 1 && fi > 0 {
								sels = []string{"le"} // the new inputs are empty: one selector is enough for the nil flavour
							}
							for _, sel := range sels {
								for _, k := range kinds {
									c := Case{A: a, B: b, A2: a2, B2: b2, NilA: fl[0], NilB: fl[1], KA: k[0], KB: k[1], Sel: sel, Prog: prog}
									info, v := Run(c)
									st.Report(t, "TestC18Exhaustive", c, v)
									record(c, info)
									n++
								}
							}
						}
					}
				}
			}
		}
		total += n
		desc = append(desc, map[string]any{"alphabet": 3, "max_input_len": pt.maxLen, "some_input_len_at_least": pt.needLen,
			"sequences_per_input": len(seqs), "program_depth_hnri": pt.depth4, "program_depth_hnr": pt.depth3,
			"programs": len(progs), "cases_this_shard": n})
	}
	// part 3: value-type (non-pointer) iterator implementations. Every pair of source kinds in which at least one input
	// is a struct value (same type on both sides included), inputs over {1,2} of length 0..2, programs over {h,n,r} to
	// depth 4 (thorough 5); a pair with a source without Reset again only with programs whose first r is the last call.
	{
		var pairs [][2]string
		for _, ka := range Kinds {
			for _, kb := range Kinds {
				if IsValueKind(ka) || IsValueKind(kb) {
					pairs = append(pairs, [2]string{ka, kb})
				}
			}
		}
		seqs := allSeqs(2, 2)
		depth := vstat.Pick(4, 5)
		n := int64(0)
		for _, prog := range allPrograms(3, depth) {
			firstR := strings.IndexByte(prog, 'r')
			for _, a := range seqs {
				for _, b := range seqs {
					combo++
					if combo%shards != shard {
						continue
					}
					for _, sel := range Selectors {
						for _, k := range pairs {
							if !(CanReset(k[0]) && CanReset(k[1])) && !(firstR >= 0 && firstR == len(prog)-1) {
								continue
							}
							c := Case{A: a, B: b, KA: k[0], KB: k[1], Sel: sel, Prog: prog}
							info, v := Run(c)
							st.Report(t, "TestC18Exhaustive", c, v)
							record(c, info)
							n++
						}
					}
				}
			}
		}
		total += n
		desc = append(desc, map[string]any{"part": "value-type iterator kinds", "alphabet": 2, "max_input_len": 2, "kind_pairs": len(pairs),
			"sequences_per_input": len(seqs), "program_depth_hnr": depth, "cases_this_shard": n})
	}
	// part 4: sources whose Reset fails transiently. Failure plans (first k Reset calls of the source of input 1 / input 2
	// fail): (1,0) (0,1) (1,1) (2,0) (0,2) (2,1), each with a library error class and with a plain error; source pairs
	// slice/slice, slice/disparity, valcmp/slice; inputs over {1,2} of length 0..2; every program over {h,n,r} to depth 4
	// (thorough 5) that contains a Reset. After the program the harness resets until both sources accept and drains.
	{
		plans := [][2]int{{1, 0}, {0, 1}, {1, 1}, {2, 0}, {0, 2}, {2, 1}}
		errs := []string{"unimplemented", "plain"}
		pairs := [][2]string{{KSlice, KSlice}, {KSlice, KDisparity}, {KValCmp, KSlice}}
		seqs := allSeqs(2, 2)
		depth := vstat.Pick(4, 5)
		n := int64(0)
		for _, prog := range allPrograms(3, depth) {
			if strings.IndexByte(prog, 'r') < 0 {
				continue
			}
			for _, a := range seqs {
				for _, b := range seqs {
					combo++
					if combo%shards != shard {
						continue
					}
					for _, sel := range Selectors {
						for _, k := range pairs {
							for _, pl := range plans {
								for _, e := range errs {
									c := Case{A: a, B: b, KA: k[0], KB: k[1], Sel: sel, Prog: prog}
									if pl[0] > 0 {
										c.FA = &Flaky{K: pl[0], Err: e}
									}
									if pl[1] > 0 {
										c.FB = &Flaky{K: pl[1], Err: e}
									}
									info, v := Run(c)
									st.Report(t, "TestC18Exhaustive", c, v)
									record(c, info)
									n++
								}
							}
						}
					}
				}
			}
		}
		total += n
		desc = append(desc, map[string]any{"part": "sources whose Reset fails transiently", "alphabet": 2, "max_input_len": 2, "kind_pairs": len(pairs),
			"failure_plans": len(plans), "error_classes": len(errs), "sequences_per_input": len(seqs), "program_depth_hnr_with_a_reset": depth, "cases_this_shard": n})
	}
	// part 5: RUNS of consecutive Reset calls. Programs over the calls {h, n, r, r255, r256, r257} (thorough: also r512,
	// r65536) to depth 3 (thorough 4; with r65536 to depth 3) that contain a run, inputs over {1,2} of length 0..2, 5 selectors, slice/slice and
	// slice/disparity sources: a run after a HasNext that loaded the look-ahead, after a Next, after another run (so
	// that 256+256, 255+1, 1+255+256 ... consecutive Resets occur as well), before and after the end.
	{
		calls := []string{"h", "n", "r", "r255", "r256", "r257"}
		if vstat.Thorough() {
			calls = append(calls, "r512", "r65536")
		}
		depth := vstat.Pick(3, 4)
		pairs := [][2]string{{KSlice, KSlice}, {KSlice, KDisparity}}
		seqs := allSeqs(2, 2)
		n := int64(0)
		var progs []string
		enum.Lists(len(calls), depth, 0, 1, func(idx []int) {
			prog, run, huge := "", false, false
			for _, e := range idx {
				prog += calls[e]
				run = run || e >= 3
				huge = huge || calls[e] == "r65536"
			}
			if run && !(huge && len(idx) > 3) { // a run of 65536 costs a millisecond: programs of up to 3 calls only
				progs = append(progs, prog)
			}
		})
		for _, prog := range progs {
			for _, a := range seqs {
				for _, b := range seqs {
					combo++
					if combo%shards != shard {
						continue
					}
					for _, sel := range Selectors {
						for _, k := range pairs {
							c := Case{A: a, B: b, KA: k[0], KB: k[1], Sel: sel, Prog: prog}
							info, v := Run(c)
							st.Report(t, "TestC18Exhaustive", c, v)
							record(c, info)
							n++
						}
					}
				}
			}
		}
		total += n
		desc = append(desc, map[string]any{"part": "runs of consecutive Reset calls", "alphabet": 2, "max_input_len": 2, "kind_pairs": len(pairs),
			"calls": calls, "sequences_per_input": len(seqs), "program_depth": depth, "programs_with_a_run": len(progs), "cases_this_shard": n})
	}
	st.SetExhaustive("mixer_pairs_x_selectors_x_kinds_x_programs", map[string]any{
		"parts": desc, "selectors": len(Selectors), "source_kinds_per_input": len(Kinds), "cases_this_shard": total, "shards": shards})
}

func genSeq(t *rapid.T, label string, sel string) []int {
	var n int
	switch rapid.IntRange(0, 9).Draw(t, label+"LenClass") {
	case 0:
		n = 0
	case 1, 2, 3, 4:
		n = rapid.IntRange(0, 6).Draw(t, label+"Len")
	default:
		n = rapid.IntRange(0, 40).Draw(t, label+"Len")
	}
	alpha := rapid.SampledFrom([]int{1, 2, 3, 3, 6, 20}).Draw(t, label+"Alpha")
	valGen := rapid.IntRange(1, alpha)
	switch rapid.IntRange(0, 19).Draw(t, label+"Shape") {
	case 0: // very long input
		n = rapid.IntRange(500, 3000).Draw(t, label+"LongLen")
		valGen = rapid.IntRange(1, rapid.SampledFrom([]int{3, 50, 100000}).Draw(t, label+"LongAlpha"))
	case 1: // negative, zero and extreme values
		valGen = rapid.OneOf(rapid.IntRange(-3, 3), rapid.SampledFrom([]int{-(1 << 42) + 1, -(1 << 31) - 1, -(1 << 31), -1, 0, 1, 1<<31 - 1, 1 << 31, 1<<42 - 1}))
	}
	s := rapid.SliceOfN(valGen, n, n).Draw(t, label)
	if rapid.IntRange(0, 9).Draw(t, label+"Sorted") < 6 {
		sort.Ints(s)
		if sel == "gt" {
			for i, j := 0, len(s)-1; i < j; i, j = i+1, j-1 {
				s[i], s[j] = s[j], s[i]
			}
		}
	}
	return s
}

// genFlaky draws a transient-failure plan for the Reset of one source.
func genFlaky(t *rapid.T, label string) *Flaky {
	return &Flaky{K: rapid.SampledFrom([]int{1, 1, 1, 2, 3}).Draw(t, "flakyK"+label), Err: rapid.SampledFrom(FlakyErrs).Draw(t, "flakyErr"+label)}
}

// genReset draws a Reset call: one in four is a RUN of consecutive Resets ("r256") whose length comes from RunLengths
// (1..4 and the neighbourhoods of 2^8, 2^9, 2^10, 2^16; the runs of tens of thousands are drawn less often).
func genReset(t *rapid.T) string {
	if rapid.IntRange(0, 3).Draw(t, "resetRun") != 0 {
		return "r"
	}
	n := rapid.SampledFrom(RunLengths).Draw(t, "runLen")
	if n > 60000 && rapid.Bool().Draw(t, "runLenShorter") {
		n = rapid.SampledFrom([]int{255, 256, 257, 512}).Draw(t, "runLen2")
	}
	return fmt.Sprintf("r%d", n)
}

func genCase(t *rapid.T) Case {
	c := Case{}
	c.Sel = rapid.SampledFrom(Selectors).Draw(t, "sel")
	kinds := rapid.SampledFrom([]string{KSlice, KSlice, KSlice, KDisparity, KDisparity, KNoReset, KValFunc, KValFuncNoReset, KValSlice, KValCmp})
	c.KA = kinds.Draw(t, "ka")
	c.KB = kinds.Draw(t, "kb")
	if rapid.IntRange(0, 9).Draw(t, "sameKind") == 0 {
		c.KB = c.KA // both inputs of one and the same implementation type
	}
	c.A = genSeq(t, "a", c.Sel)
	c.NilA = rapid.Bool().Draw(t, "nilA")
	c.NilB = rapid.Bool().Draw(t, "nilB")
	c.Shared = rapid.IntRange(0, 19).Draw(t, "shared") == 0
	if !c.Shared {
		c.B = genSeq(t, "b", c.Sel)
	}
	initW := rapid.SampledFrom([]int{0, 1, 1, 3}).Draw(t, "initWeight")
	if initW > 0 {
		c.A2 = genSeq(t, "a2", c.Sel)
		if !c.Shared {
			c.B2 = genSeq(t, "b2", c.Sel)
		}
	}
	resetW := rapid.SampledFrom([]int{0, 1, 3}).Draw(t, "resetWeight")
	// one case in five: the source of input 1, of input 2 or of both fails its first 1..3 Reset calls
	if rapid.IntRange(0, 4).Draw(t, "flaky") == 0 {
		c.FA, c.FB = genFlaky(t, "A"), genFlaky(t, "B")
		switch rapid.IntRange(0, 2).Draw(t, "flakySide") {
		case 0:
			c.FB = nil
		case 1:
			c.FA = nil
		}
		resetW = rapid.SampledFrom([]int{1, 3, 3}).Draw(t, "flakyResetWeight")
	}
	call := rapid.Custom(func(t *rapid.T) string {
		k := rapid.IntRange(0, 19+resetW+initW).Draw(t, "call")
		switch {
		case k < 11:
			return "n"
		case k < 20:
			return "h"
		case k < 20+resetW:
			return genReset(t)
		default:
			return "i"
		}
	})
	maxProg := vstat.Pick(120, 200)
	if rapid.Bool().Draw(t, "shortProg") {
		maxProg = 12
	}
	c.Prog = strings.Join(rapid.SliceOfN(call, 0, maxProg).Draw(t, "prog"), "")
	return c
}

func TestC18Rapid(t *testing.T) {
	st := vstat.For(prop)
	rapid.Check(t, func(t *rapid.T) {
		c := genCase(t)
		info, v := Run(c)
		st.Report(t, "TestC18Rapid", c, v)
		record(c, info)
	})
}

// ---- sessions: histories of several merge trees (session.go) ----

func recordSession(s Session, info SessionInfo) {
	vstat.For(prop).Case(info.NonTrivial(), s.Hash(), func() any { return s }, info.Classes()...)
}

// judgeSession runs a session. A session is a complete history and its verdict must be a function of the
// session alone (replay runs it in a fresh process), but the test process has executed other sessions before,
// and package-level state of the library they left behind - if the library has any - belongs to a longer history.
// So a failing session is run again after two garbage collections (they empty every sync.Pool and let
// finalizers run) and only a failure that is still there is attributed to the session. If it is gone and
// prev is given, the history prev+s is tried the same way and reported as a session of its own. What is
// left (failed only in the used process) is counted in class session_failed_only_after_earlier_sessions.
func judgeSession(s Session, prev *Session) (Session, SessionInfo, *vstat.Violation) {
	info, v := RunSession(s)
	if v == nil {
		return s, info, nil
	}
	settle := func() { runtime.GC(); runtime.GC() }
	settle()
	if _, v2 := RunSession(s); v2 != nil {
		return s, info, v2
	}
	if prev != nil && len(prev.Rounds)+len(s.Rounds) <= 32 {
		both := Session{Rounds: append(append([]Round{}, prev.Rounds...), s.Rounds...)}
		settle()
		if _, v3 := RunSession(both); v3 != nil {
			return both, info, v3
		}
	}
	vstat.For(prop).Class("session_failed_only_after_earlier_sessions", 1)
	settle()
	return s, info, nil
}

// allShapes returns every merge tree over n leaves (leaves in order), as Shape strings.
func allShapes(n int) []string {
	var rec func(lo, hi int) []string
	rec = func(lo, hi int) []string {
		if hi-lo == 1 {
			return []string{string(rune('a' + lo))}
		}
		var out []string
		for mid := lo + 1; mid < hi; mid++ {
			for _, l := range rec(lo, mid) {
				for _, r := range rec(mid, hi) {
					out = append(out, "("+l+r+")")
				}
			}
		}
		return out
	}
	out := rec(0, n)
	for i, s := range out {
		out[i] = s[1 : len(s)-1] // the root has no parentheses
	}
	return out
}

func genShape(t *rapid.T, lo, hi int) string {
	if hi-lo == 1 {
		return string(rune('a' + lo))
	}
	mid := rapid.IntRange(lo+1, hi-1).Draw(t, "split")
	return "(" + genShape(t, lo, mid) + genShape(t, mid, hi) + ")"
}

func genProg(t *rapid.T, label string, maxLen, resetW int) string {
	call := rapid.Custom(func(t *rapid.T) string {
		k := rapid.IntRange(0, 19+resetW).Draw(t, "call")
		switch {
		case k < 11:
			return "n"
		case k < 20:
			return "h"
		default:
			return genReset(t)
		}
	})
	return strings.Join(rapid.SliceOfN(call, 0, maxLen).Draw(t, label), "")
}

func genRound(t *rapid.T) Round {
	r := Round{}
	r.Sel = rapid.SampledFrom(Selectors).Draw(t, "sel")
	n := rapid.SampledFrom([]int{2, 2, 3, 3, 3, 4, 4, 5, 6, 8}).Draw(t, "leaves")
	s := genShape(t, 0, n)
	r.Shape = s[1 : len(s)-1]
	kinds := rapid.SampledFrom([]string{KSlice, KSlice, KSlice, KSlice, KSlice, KSlice, KDisparity, KDisparity, KNoReset, KValFunc, KValSlice, KValCmp, KValFuncNoReset})
	sameKind := rapid.IntRange(0, 9).Draw(t, "sameKind") == 0 // every leaf of one and the same implementation type
	for i := 0; i < n; i++ {
		r.Kinds = append(r.Kinds, kinds.Draw(t, "kind"))
		if sameKind {
			r.Kinds[i] = r.Kinds[0]
		}
		r.Leaves = append(r.Leaves, genSeq(t, "leaf", r.Sel))
	}
	r.NilEmpty = rapid.Bool().Draw(t, "nilEmpty")
	resetW := rapid.SampledFrom([]int{0, 1, 3}).Draw(t, "resetWeight")
	// one round in five: 1..2 leaves (rarely every leaf) fail their first 1..3 Reset calls
	if rapid.IntRange(0, 4).Draw(t, "flaky") == 0 {
		r.Flaky = make([]Flaky, n)
		every := rapid.IntRange(0, 7).Draw(t, "flakyEvery") == 0
		picks := []int{rapid.IntRange(0, n-1).Draw(t, "flakyLeaf"), rapid.IntRange(0, n-1).Draw(t, "flakyLeaf2")}
		for i := range r.Flaky {
			if every || i == picks[0] || i == picks[1] {
				r.Flaky[i] = *genFlaky(t, "")
			}
		}
		resetW = rapid.SampledFrom([]int{1, 3, 3}).Draw(t, "flakyResetWeight")
	}
	r.Prog = genProg(t, "prog", rapid.SampledFrom([]int{0, 4, 12, 60}).Draw(t, "maxProg"), resetW)
	r.Hold = rapid.SampledFrom([]int{0, 0, 0, 1, 1, 2, 5}).Draw(t, "hold")
	if r.Hold > 0 {
		r.Late = genProg(t, "late", 12, resetW)
	}
	r.Partial = rapid.IntRange(0, 4).Draw(t, "partial") == 0
	r.Close = rapid.SampledFrom(CloseDisciplines).Draw(t, "close")
	return r
}

func genSession(t *rapid.T) Session {
	n := rapid.SampledFrom([]int{1, 2, 2, 3, 3, 4, 6, 10}).Draw(t, "rounds")
	return Session{Rounds: rapid.SliceOfN(rapid.Custom(genRound), n, n).Draw(t, "session")}
}

func TestC18RapidSessions(t *testing.T) {
	st := vstat.For(prop)
	rapid.Check(t, func(t *rapid.T) {
		s := genSession(t)
		s, info, v := judgeSession(s, nil)
		st.Report(t, "TestC18RapidSessions", s, v)
		recordSession(s, info)
	})
}

// TestC18ExhaustiveSessions: every two-round history (earlier round, later round) with
//   - earlier round: tree ab or (ab)c over the slice-backed inputs [1 2],[1 3],[2]; drained, abandoned untouched or
//     abandoned after "hn"; each of the 4 close disciplines; closed before the later round is opened or kept open across it;
//   - later round: every tree shape over 2, 3 and 4 slice-backed leaves x every assignment of the sequences
//     over {1,2} of length 0..1 (thorough: 0..2 for 2 leaves) to the leaves x 5 selectors (quick tier, 4 leaves: <= and > only) x every program
//     over {h,n,r} to depth 3 (thorough: 4 for 2 and 3 leaves); drained and closed through the root.
func TestC18ExhaustiveSessions(t *testing.T) {
	st := vstat.For(prop)
	shard, shards := vstat.Shard()
	var firsts []Round
	for _, shape := range []string{"ab", "(ab)c"} {
		leaves := [][]int{{1, 2}, {1, 3}, {2}}
		kinds := []string{KSlice, KSlice, KSlice}
		if shape == "ab" {
			leaves, kinds = leaves[:2], kinds[:2]
		}
		for _, prog := range []string{"", "hn"} {
			for _, partial := range []bool{false, true} {
				if prog != "" && !partial {
					continue // drained anyway: the program adds nothing to what is left behind
				}
				for _, cl := range CloseDisciplines {
					for hold := 0; hold <= 1; hold++ {
						firsts = append(firsts, Round{Leaves: leaves, Kinds: kinds, Shape: shape, Sel: "le", Prog: prog, Partial: partial, Close: cl, Hold: hold})
					}
				}
			}
		}
	}
	progs3, progs4 := allPrograms(3, 3), allPrograms(3, vstat.Pick(3, 4))
	n, combo := int64(0), 0
	prev := &Session{}
	for leaves := 2; leaves <= 4; leaves++ {
		maxLen, progs := 1, progs4
		if vstat.Thorough() && leaves == 2 {
			maxLen = 2
		}
		if leaves == 4 {
			progs = progs3
		}
		seqs := allSeqs(2, maxLen)
		kinds := []string{KSlice, KSlice, KSlice, KSlice}[:leaves]
		for _, shape := range allShapes(leaves) {
			enum.Lists(len(seqs), leaves, 0, 1, func(idx []int) {
				if len(idx) != leaves {
					return
				}
				combo++
				if combo%shards != shard {
					return
				}
				ls := make([][]int, leaves)
				for i, e := range idx {
					ls[i] = seqs[e]
				}
				sels := Selectors
				if leaves == 4 && !vstat.Thorough() {
					sels = []string{"le", "gt"}
				}
				for _, prog := range progs {
					if t.Failed() {
						return
					}
					for _, sel := range sels {
						second := Round{Leaves: ls, Kinds: kinds, Shape: shape, Sel: sel, Prog: prog, Close: CloseRoot}
						for _, first := range firsts {
							s := Session{Rounds: []Round{first, second}}
							rep, info, v := judgeSession(s, prev)
							st.Report(t, "TestC18ExhaustiveSessions", rep, v)
							recordSession(s, info)
							*prev = s
							n++
							if v != nil {
								return // one history is enough; every further failing one costs garbage collections
							}
						}
					}
				}
			})
		}
	}
	st.SetExhaustive("two_round_sessions", map[string]any{"earlier_rounds": len(firsts), "later_round_leaves": "2..4, every tree shape",
		"later_round_programs": len(progs4), "later_round_programs_4_leaves": len(progs3), "selectors": len(Selectors), "cases_this_shard": n, "shards": shards})
}

// ---- element-type shapes: element types whose zero value is a legal element (elems.go) ----

func recordElem(c ElemCase, info ElemInfo) {
	vstat.For(prop).Case(info.NonTrivial(), vstat.Hash(c), func() any { return c }, info.Classes(c.Type)...)
}

// ZeroRanks: where the selector puts the zero value among the ordinary values 1, 2, 3 (rank 2, 4, 6): first, tied with
// value 1, strictly between 1 and 2, tied with 2, last.
var ZeroRanks = []int{0, 2, 3, 4, 1000}

func TestC18ElementTypes(t *testing.T) {
	st := vstat.For(prop)
	shard, shards := vstat.Shard()
	// exhaustive: all pairs of sequences over {zero value, 1, 2} of length 0..2 (thorough 0..3) x element types x 5
	// selectors x 5 ranks of the zero value x every program over {h,n,r} to depth 2 (thorough 3)
	{
		var seqs [][]int
		enum.Lists(3, vstat.Pick(2, 3), 0, 1, func(idx []int) { seqs = append(seqs, append([]int(nil), idx...)) })
		progs := allPrograms(3, vstat.Pick(2, 3))
		n, combo := int64(0), 0
		for _, prog := range progs {
			for _, a := range seqs {
				for _, b := range seqs {
					combo++
					if combo%shards != shard {
						continue
					}
					for _, typ := range ElemTypes {
						for _, sel := range Selectors {
							for _, zr := range ZeroRanks {
								if (sel == "first" || sel == "second") && zr != 0 {
									continue // constant selectors do not look at ranks
								}
								c := ElemCase{Type: typ, A: a, B: b, Sel: sel, ZeroRank: zr, Prog: prog}
								info, v := RunElem(c)
								st.Report(t, "TestC18ElementTypes", c, v)
								recordElem(c, info)
								n++
							}
						}
					}
				}
			}
		}
		st.SetExhaustive("element_types_with_zero_value_elements", map[string]any{"element_types": ElemTypes, "sequences_per_input": len(seqs),
			"zero_value_ranks": ZeroRanks, "programs": len(progs), "cases_this_shard": n, "shards": shards})
	}
	rapid.Check(t, func(t *rapid.T) {
		c := ElemCase{Type: rapid.SampledFrom(ElemTypes).Draw(t, "type"), Sel: rapid.SampledFrom(Selectors).Draw(t, "sel")}
		alpha := rapid.SampledFrom([]int{1, 2, 3, 6, 20}).Draw(t, "alpha")
		c.ZeroRank = rapid.OneOf(rapid.SampledFrom([]int{0, 1000}), rapid.IntRange(0, 2*alpha+1)).Draw(t, "zeroRank")
		seq := func(label string) []int {
			n := rapid.OneOf(rapid.IntRange(0, 6), rapid.IntRange(0, 40)).Draw(t, label+"Len")
			s := rapid.SliceOfN(rapid.IntRange(1, alpha), n, n).Draw(t, label)
			// zero values: none, one (first / last / anywhere), or every k-th element
			switch rapid.IntRange(0, 5).Draw(t, label+"Zeros") {
			case 1, 2:
				if n > 0 {
					s[rapid.SampledFrom([]int{0, n - 1, rapid.IntRange(0, n-1).Draw(t, label+"ZeroAt")}).Draw(t, label+"ZeroPos")] = 0
				}
			case 3, 4:
				for k := range s {
					if rapid.IntRange(0, 3).Draw(t, label+"Zero") == 0 {
						s[k] = 0
					}
				}
			case 5:
				for k := range s {
					s[k] = 0
				}
			}
			if rapid.IntRange(0, 9).Draw(t, label+"Sorted") < 6 {
				// sorted under the selector: by rank, descending for gt
				rk := func(v int) int {
					if v == 0 {
						return c.ZeroRank
					}
					return 2 * v
				}
				sort.SliceStable(s, func(x, y int) bool {
					if c.Sel == "gt" {
						return rk(s[x]) > rk(s[y])
					}
					return rk(s[x]) < rk(s[y])
				})
			}
			return s
		}
		c.A, c.B = seq("a"), seq("b")
		resetW := rapid.SampledFrom([]int{0, 1, 3}).Draw(t, "resetWeight")
		c.Prog = genProg(t, "prog", rapid.SampledFrom([]int{0, 4, 12, 60}).Draw(t, "maxProg"), resetW)
		info, v := RunElem(c)
		st.Report(t, "TestC18ElementTypes", c, v)
		recordElem(c, info)
	})
}

func TestReplay(t *testing.T) {
	p := vstat.ReplayPath()
	if p == "" {
		t.Skip("no replay requested")
	}
	// an element-type case is recognised by its "type" member
	var ec ElemCase
	if _, err := vstat.LoadReplay(p, &ec); err == nil && ec.Type != "" {
		info, v := RunElem(ec)
		vstat.For(prop).Report(t, "TestReplay", ec, v)
		recordElem(ec, info)
		return
	}
	// a session replay is recognised by its "rounds" member
	var s Session
	if _, err := vstat.LoadReplay(p, &s); err == nil && s.Rounds != nil {
		info, v := RunSession(s)
		vstat.For(prop).Report(t, "TestReplay", s, v)
		recordSession(s, info)
		return
	}
	// a type-history replay is recognised by its "phases" member (types_test.go)
	if replayTypeHistory(t, p) {
		return
	}
	var c Case
	if _, err := vstat.LoadReplay(p, &c); err != nil {
		t.Fatalf("cannot load %s: %v", p, err)
	}
	info, v := Run(c)
	vstat.For(prop).Report(t, "TestReplay", c, v)
	record(c, info)
}
