package p_mixer

import (
	"runtime/debug"
	"sort"
	"strings"
	"testing"

	"pgregory.net/rapid"
	"verifharness/internal/enum"
	"verifharness/internal/vstat"
)

const prop = "C18"

func TestMain(m *testing.M) {
	debug.SetGCPercent(800) // tens of millions of tiny short-lived cases: collect less often
	vstat.Main(m)
}

func record(c Case, info Info) {
	vstat.For(prop).Case(info.NonTrivial(), c.Hash(), func() any { return c }, info.Classes()...)
}

// allSeqs returns every sequence over {1..alpha} of length 0..maxLen, shortest first.
func allSeqs(alpha, maxLen int) [][]int {
	var out [][]int
	enum.Lists(alpha, maxLen, 0, 1, func(idx []int) {
		s := make([]int, len(idx))
		for i, e := range idx {
			s[i] = e + 1
		}
		out = append(out, s)
	})
	return out
}

// allPrograms returns every call program over the first `letters` letters of "hnri" of length 0..depth,
// shortest first.
func allPrograms(letters, depth int) []string {
	var out []string
	enum.Lists(letters, depth, 0, 1, func(idx []int) {
		b := make([]byte, len(idx))
		for i, e := range idx {
			b[i] = "hnri"[e]
		}
		out = append(out, string(b))
	})
	return out
}

// programs: every program over {h,n,r,i} up to depth4, plus every program over {h,n,r} of length
// depth4+1..depth3 (shortest first).
func programs(depth4, depth3 int) []string {
	out := allPrograms(4, depth4)
	for _, p := range allPrograms(3, depth3) {
		if len(p) > depth4 {
			out = append(out, p)
		}
	}
	return out
}

var kindPairsResettable = [][2]string{{KSlice, KSlice}, {KSlice, KDisparity}, {KDisparity, KSlice}, {KDisparity, KDisparity}}
var kindPairsNoReset = [][2]string{{KNoReset, KSlice}, {KSlice, KNoReset}, {KNoReset, KNoReset}, {KNoReset, KDisparity}, {KDisparity, KNoReset}}

func TestC18Exhaustive(t *testing.T) {
	st := vstat.For(prop)
	shard, shards := vstat.Shard()
	total := int64(0)
	combo := 0
	// part 1: inputs of length 0..3; programs over {h,n,r,i} to depth 4 (quick) / 5 (thorough) and over {h,n,r} to depth 5 / 7.
	// part 2 (thorough): inputs of length 0..4 with at least one of length 4; depths 3 and 5.
	// Reductions (the rapid unit has none of them):
	//  * a pair with a non-resettable source is run only with programs whose first r is their last letter: the
	//    wrapper delegates every call, so without r it behaves like the slice source, and the case ends at the
	//    first (refused) Reset;
	//  * the inputs after a re-Init are the swapped pair (B,A) and, as a second variant, two empty inputs;
	//  * an empty input is served from an empty non-nil slice and from a nil slice (per side; the two-empty
	//    re-Init variant only as both non-nil / both nil).
	type part struct{ maxLen, depth4, depth3, needLen int }
	parts := []part{{3, vstat.Pick(4, 5), vstat.Pick(5, 7), 0}}
	if vstat.Thorough() {
		parts = append(parts, part{4, 3, 5, 4})
	}
	desc := []map[string]any{}
	for _, pt := range parts {
		seqs := allSeqs(3, pt.maxLen)
		progs := programs(pt.depth4, pt.depth3)
		n := int64(0)
		// programs are the outer loop so that the first failure reported has a shortest program
		for _, prog := range progs {
			firstR := strings.IndexByte(prog, 'r')
			kinds := kindPairsResettable
			if firstR >= 0 && firstR == len(prog)-1 {
				kinds = append(append([][2]string{}, kindPairsResettable...), kindPairsNoReset...)
			}
			variants := 1
			if strings.IndexByte(prog, 'i') >= 0 {
				variants = 2
			}
			for _, a := range seqs {
				for _, b := range seqs {
					if len(a) < pt.needLen && len(b) < pt.needLen {
						continue
					}
					combo++
					if combo%shards != shard {
						continue
					}
					for variant := 0; variant < variants; variant++ {
						var a2, b2 []int
						if variant == 0 {
							a2, b2 = b, a
						}
						// flavours of an empty input: empty non-nil slice / nil slice, per side where the side has
						// an empty input (for the two-empty re-Init variant: both non-nil or both nil)
						flavours := [][2]bool{{false, false}}
						switch {
						case variant == 1:
							flavours = append(flavours, [2]bool{true, true})
						case len(a) == 0 && len(b) == 0:
							flavours = append(flavours, [2]bool{true, false}, [2]bool{false, true}, [2]bool{true, true})
						case len(a) == 0:
							flavours = append(flavours, [2]bool{true, false})
						case len(b) == 0:
							flavours = append(flavours, [2]bool{false, true})
						}
						for fi, fl := range flavours {
							sels := Selectors
							if variant == 1 && fi > 0 {
								sels = []string{"le"} // the new inputs are empty: one selector is enough for the nil flavour
							}
							for _, sel := range sels {
								for _, k := range kinds {
									c := Case{A: a, B: b, A2: a2, B2: b2, NilA: fl[0], NilB: fl[1], KA: k[0], KB: k[1], Sel: sel, Prog: prog}
									info, v := Run(c)
									st.Report(t, "TestC18Exhaustive", c, v)
									record(c, info)
									n++
								}
							}
						}
					}
				}
			}
		}
		total += n
		desc = append(desc, map[string]any{"alphabet": 3, "max_input_len": pt.maxLen, "some_input_len_at_least": pt.needLen,
			"sequences_per_input": len(seqs), "program_depth_hnri": pt.depth4, "program_depth_hnr": pt.depth3,
			"programs": len(progs), "cases_this_shard": n})
	}
	st.SetExhaustive("mixer_pairs_x_selectors_x_kinds_x_programs", map[string]any{
		"parts": desc, "selectors": len(Selectors), "source_kinds_per_input": len(Kinds), "cases_this_shard": total, "shards": shards})
}

func genSeq(t *rapid.T, label string, sel string) []int {
	var n int
	switch rapid.IntRange(0, 9).Draw(t, label+"LenClass") {
	case 0:
		n = 0
	case 1, 2, 3, 4:
		n = rapid.IntRange(0, 6).Draw(t, label+"Len")
	default:
		n = rapid.IntRange(0, 40).Draw(t, label+"Len")
	}
	alpha := rapid.SampledFrom([]int{1, 2, 3, 3, 6, 20}).Draw(t, label+"Alpha")
	valGen := rapid.IntRange(1, alpha)
	switch rapid.IntRange(0, 19).Draw(t, label+"Shape") {
	case 0: // very long input
		n = rapid.IntRange(500, 3000).Draw(t, label+"LongLen")
		valGen = rapid.IntRange(1, rapid.SampledFrom([]int{3, 50, 100000}).Draw(t, label+"LongAlpha"))
	case 1: // negative, zero and extreme values
		valGen = rapid.OneOf(rapid.IntRange(-3, 3), rapid.SampledFrom([]int{-(1 << 42) + 1, -(1 << 31) - 1, -(1 << 31), -1, 0, 1, 1<<31 - 1, 1 << 31, 1<<42 - 1}))
	}
	s := rapid.SliceOfN(valGen, n, n).Draw(t, label)
	if rapid.IntRange(0, 9).Draw(t, label+"Sorted") < 6 {
		sort.Ints(s)
		if sel == "gt" {
			for i, j := 0, len(s)-1; i < j; i, j = i+1, j-1 {
				s[i], s[j] = s[j], s[i]
			}
		}
	}
	return s
}

func genCase(t *rapid.T) Case {
	c := Case{}
	c.Sel = rapid.SampledFrom(Selectors).Draw(t, "sel")
	kinds := rapid.SampledFrom([]string{KSlice, KSlice, KSlice, KDisparity, KDisparity, KNoReset})
	c.KA = kinds.Draw(t, "ka")
	c.KB = kinds.Draw(t, "kb")
	c.A = genSeq(t, "a", c.Sel)
	c.NilA = rapid.Bool().Draw(t, "nilA")
	c.NilB = rapid.Bool().Draw(t, "nilB")
	c.Shared = rapid.IntRange(0, 19).Draw(t, "shared") == 0
	if !c.Shared {
		c.B = genSeq(t, "b", c.Sel)
	}
	initW := rapid.SampledFrom([]int{0, 1, 1, 3}).Draw(t, "initWeight")
	if initW > 0 {
		c.A2 = genSeq(t, "a2", c.Sel)
		if !c.Shared {
			c.B2 = genSeq(t, "b2", c.Sel)
		}
	}
	resetW := rapid.SampledFrom([]int{0, 1, 3}).Draw(t, "resetWeight")
	call := rapid.Custom(func(t *rapid.T) byte {
		k := rapid.IntRange(0, 19+resetW+initW).Draw(t, "call")
		switch {
		case k < 11:
			return 'n'
		case k < 20:
			return 'h'
		case k < 20+resetW:
			return 'r'
		default:
			return 'i'
		}
	})
	maxProg := vstat.Pick(120, 200)
	if rapid.Bool().Draw(t, "shortProg") {
		maxProg = 12
	}
	c.Prog = string(rapid.SliceOfN(call, 0, maxProg).Draw(t, "prog"))
	return c
}

func TestC18Rapid(t *testing.T) {
	st := vstat.For(prop)
	rapid.Check(t, func(t *rapid.T) {
		c := genCase(t)
		info, v := Run(c)
		st.Report(t, "TestC18Rapid", c, v)
		record(c, info)
	})
}

func TestReplay(t *testing.T) {
	p := vstat.ReplayPath()
	if p == "" {
		t.Skip("no replay requested")
	}
	var c Case
	if _, err := vstat.LoadReplay(p, &c); err != nil {
		t.Fatalf("cannot load %s: %v", p, err)
	}
	info, v := Run(c)
	vstat.For(prop).Report(t, "TestReplay", c, v)
	record(c, info)
}
