// Package p_mixer decides C18: the iterator mixer is a faithful two-way merge under any call pattern.
package p_mixer

import (
	"errors"
	"fmt"
	"io"

	"github.com/acquirecloud/golibs"
	"github.com/acquirecloud/golibs/container/iterable"
	gerrors "github.com/acquirecloud/golibs/errors"
	"verifharness/internal/vstat"
)

// Source kinds.
const (
	KSlice     = "slice"     // iterable.WrapIntSlice: resettable
	KNoReset   = "noreset"   // same elements behind a wrapper without a Reset method
	KDisparity = "disparity" // resettable; after its last element HasNext says true until the following Next returns (0,false); exhausted from then on
	// value-type (non-pointer) implementations: the dynamic type stored in the Iterator interface is a struct, not a pointer
	KValFunc        = "valfunc"         // struct of closures handed over by value (func fields: the type is not comparable); resettable
	KValFuncNoReset = "valfunc_noreset" // the same adapter without a Reset method
	KValSlice       = "valslice"        // struct{elements []int; pos *int} by value (slice field: not comparable); resettable
	KValCmp         = "valcmp"          // struct{*state} by value (comparable); resettable
)

// Selector ids: lt, le, first (always true), second (always false), gt. Selectors look at the value of an element only.
var Selectors = []string{"lt", "le", "first", "second", "gt"}

// Kinds lists the source kinds.
var Kinds = []string{KSlice, KNoReset, KDisparity, KValFunc, KValFuncNoReset, KValSlice, KValCmp}

// ValueKinds are the kinds whose iterator is a struct value.
var ValueKinds = []string{KValFunc, KValFuncNoReset, KValSlice, KValCmp}

// CanReset tells whether an iterator of the kind has a Reset method.
func CanReset(kind string) bool {
	if z := zoo[kind]; z != nil { // types.go: the zoo of types that share their printed name
		return z.Reset
	}
	return kind != KNoReset && kind != KValFuncNoReset
}

// IsValueKind tells whether the iterator of the kind is a struct value (not a pointer).
func IsValueKind(kind string) bool {
	return kind == KValFunc || kind == KValFuncNoReset || kind == KValSlice || kind == KValCmp
}

// Flaky describes a source whose Reset fails TRANSIENTLY (golibs.Reseter: "Result may indicate about an error during
// the reset"): the first K calls of its Reset method return an error of class Err and leave the source where it is,
// every later call rewinds it. K <= 0 = an ordinary source. Applies to the kinds that have a Reset method; the source
// is then the kind's iterator behind a pointer wrapper that forwards every other call.
type Flaky struct {
	K   int    `json:"k"`
	Err string `json:"err,omitempty"`
}

// FlakyErrs are the classes of errors a failing Reset returns: library error classes (bare or wrapped) and plain errors.
var FlakyErrs = []string{"unimplemented", "unimplemented_wrapped", "dataloss", "dataloss_wrapped", "internal", "plain", "eof"}

func flakyErr(class string) error {
	switch class {
	case "unimplemented":
		return gerrors.ErrUnimplemented
	case "unimplemented_wrapped":
		return fmt.Errorf("cannot rewind right now: %w", gerrors.ErrUnimplemented)
	case "dataloss":
		return gerrors.ErrDataLoss
	case "dataloss_wrapped":
		return fmt.Errorf("cannot rewind right now: %w", gerrors.ErrDataLoss)
	case "internal":
		return gerrors.ErrInternal
	case "eof":
		return io.EOF
	case "", "plain":
		return errors.New("cannot rewind right now")
	}
	panic("bad error class " + class)
}

// flaky is the wrapper of a transiently failing source.
type flaky struct {
	it    iterable.Iterator[int]
	left  int // Reset calls that will still fail
	err   error
	fails int // Reset calls that failed
	oks   int // Reset calls that went through
}

func (f *flaky) HasNext() bool     { return f.it.HasNext() }
func (f *flaky) Next() (int, bool) { return f.it.Next() }
func (f *flaky) Close() error      { return f.it.Close() }
func (f *flaky) Reset() error {
	if f.left > 0 {
		f.left--
		f.fails++
		return f.err
	}
	f.oks++
	return f.it.(golibs.Reseter).Reset()
}

// flakySource is source() with the transient Reset failures of fl (nil or K<=0: none). fw is nil when no wrapper was used.
func flakySource(kind string, s []int, fl *Flaky) (it iterable.Iterator[int], fw *flaky) {
	it = source(kind, s)
	if fl == nil || fl.K <= 0 || !CanReset(kind) {
		return it, nil
	}
	fw = &flaky{it: it, left: fl.K, err: flakyErr(fl.Err)}
	return fw, fw
}

func (fl *Flaky) active(kind string) bool { return fl != nil && fl.K > 0 && CanReset(kind) }

// Case is two value sequences, the kind of source each is served from, a selector and a call program:
// one letter per call, h = HasNext, n = Next, r = Reset, i = Init again on the same Mixer value with fresh
// iterators (same kinds) over the other pair of inputs: the first i switches to (A2,B2), the next one back
// to (A,B) and so on. The letter r may be followed by a decimal repeat count: "r256" is a RUN of 256 consecutive
// Reset calls (so that programs with hundreds or tens of thousands of Resets in a row stay short).
// After the program the mixer is drained with Next.
type Case struct {
	A    []int  `json:"a"`
	B    []int  `json:"b"`
	A2   []int  `json:"a2,omitempty"`
	B2   []int  `json:"b2,omitempty"`
	// NilA / NilB: an empty input on that side is handed to the source as a nil slice instead of an empty
	// non-nil one (WrapIntSlice(nil) is what mixer_test.go itself uses). Shared: input 2 is served from the very
	// same slice as input 1 (B/B2 are ignored; the two iterators are independent, the elements coincide).
	NilA   bool `json:"nil_a,omitempty"`
	NilB   bool `json:"nil_b,omitempty"`
	Shared bool `json:"shared,omitempty"`
	KA   string `json:"ka"`
	KB   string `json:"kb"`
	Sel  string `json:"sel"`
	Prog string `json:"prog"`
	// FA / FB: transient Reset failures of the source of input 1 / 2 (every Init makes fresh sources with the full count).
	FA *Flaky `json:"flaky_a,omitempty"`
	FB *Flaky `json:"flaky_b,omitempty"`
}

// call is one token of a program: the letter, its repeat count (1 unless the letter is an r followed by digits) and the
// position of the letter in the program text.
type call struct {
	ch  byte
	n   int
	pos int
}

// MaxRun bounds the repeat count of a Reset run.
const MaxRun = 1 << 17

// parseProg splits a program into its calls. Only r takes a repeat count.
func parseProg(prog string) []call {
	out := make([]call, 0, len(prog))
	for p := 0; p < len(prog); p++ {
		tk := call{ch: prog[p], n: 1, pos: p}
		if q := p + 1; q < len(prog) && prog[q] >= '0' && prog[q] <= '9' {
			if tk.ch != 'r' {
				panic("only r takes a repeat count: " + prog)
			}
			tk.n = 0
			for ; q < len(prog) && prog[q] >= '0' && prog[q] <= '9'; q++ {
				tk.n = tk.n*10 + int(prog[q]-'0')
				if tk.n > MaxRun {
					panic("repeat count too large: " + prog)
				}
			}
			p = q - 1
		}
		out = append(out, tk)
	}
	return out
}

// RunLengths are the lengths Reset runs are drawn from: short ones, and the neighbourhoods of the points at which a
// narrow pass counter (8 or 16 bits wide) would come round again.
var RunLengths = []int{1, 2, 3, 4, 255, 256, 257, 511, 512, 513, 1024, 65535, 65536, 65537}

var runLengthNames = func() []string {
	var out []string
	for _, l := range RunLengths {
		if l > 4 {
			out = append(out, fmt.Sprintf("%d", l))
		}
	}
	return out
}()

// runClass names a number of consecutive successful Reset calls for the histogram.
func runClass(n int) string {
	switch {
	case n <= 1:
		return ""
	case n <= 4:
		return "2-4"
	}
	for _, l := range RunLengths {
		if n == l {
			return fmt.Sprintf("%d", n)
		}
	}
	return "other_ge_5"
}

// Info is what the classifier needs.
type Info struct {
	// Reset runs: ConsecResets lists (as classes) the numbers of successful Reset calls made in a row, with no
	// HasNext/Next between them, that were followed by a HasNext/Next (program or final drain)
	ConsecResets     map[string]bool
	ConsecLook       bool // >= 2 such Resets began on a loaded look-ahead (after a HasNext that said true, or in the middle of the merge)
	ConsecMult256    bool // their number was a multiple of 256
	ConsecMult256Look bool // ... and they began on a loaded look-ahead

	Tie          bool // the selector decided between two heads of equal value
	OneEmpty     bool // exactly one input is empty
	BothEmpty    bool
	ResetMid     bool // successful Reset after >= 1 element was emitted and before the end was reported
	ResetLook    bool // successful Reset right after a HasNext (look-ahead loaded, nothing emitted since)
	ResetAtEnd   bool // successful Reset after the end was observed
	ResetRefused bool // Reset on a pair with a non-resettable source
	RepeatH      bool // HasNext called >= 2 times in a row
	BlindNext    bool // Next not preceded by HasNext
	PastEnd      bool // the program called Next/HasNext after the end had been observed
	Phantom      bool // a disparity source's lying HasNext was consumed while the other source still had elements
	PhantomAny   bool // a disparity source is present
	ReInit       bool // Init was called again on the used mixer
	ReInitLook   bool // ... while a look-ahead was pending (after a HasNext that said true, or in the middle of a merge)
	ReInitEmpty  bool // ... with at least one empty new input
	ReInitDiff   bool // ... with inputs that differ from the previous ones
	SelCalls     int  // selector calls made by the mixer
	NilInput     bool // an empty input was served from a nil slice
	ResetNil     bool // successful Reset with a nil-slice input
	SharedSlice  bool
	Extreme      bool // a value below 1 or above 2^31
	LongInput    bool // an input of >= 500 elements
	Sorted       bool // both inputs sorted under the selector (lt/le ascending, gt descending), both non-empty
	Emitted      int
	ValueKind     bool // an input is a value-type (non-pointer) iterator
	SameValueKind bool // both inputs are value-type iterators of one and the same type
	ResetOK       bool // a Reset succeeded
	// transient Reset failures of the sources
	FlakyA, FlakyB     bool   // the source of input 1 / 2 fails its first Reset calls
	FlakyErr           string // class of the error(s)
	ResetTransient     bool   // Reset was called on the mixer while a source still had a failure to deliver
	LimboCalls         int    // HasNext/Next calls between a failed Reset and the next Reset that both sources accepted (not judged)
	ResetRecovered     bool   // a Reset that both sources accepted followed a failed one (the merge must restart completely)
	RecoveredAfterRead bool   // ... with HasNext/Next calls in between
	RecoveredAtEnd     bool   // ... made by the harness after the program (the program ended between the two)
}

// element encoding: value<<21 | 1<<20 | generation<<14 | side<<13 | index, so every element of a case is unique
// (also across re-Inits: generation = number of Init calls before) and the origin of each emitted
// element is observable (ties, stale look-ahead!). Selectors see value = e>>21 only; bit 20 makes sure
// that the zero value is never an element. Values may be negative (|value| < 2^42), index < 8192.
const (
	maxLen   = 8191
	maxValue = 1 << 42
)

func enc(vals []int, side, gen int, nilIfEmpty bool) []int {
	if len(vals) == 0 && nilIfEmpty {
		return nil
	}
	out := make([]int, len(vals))
	for i, v := range vals {
		out[i] = v<<21 | 1<<20 | (gen&63)<<14 | side<<13 | i
	}
	return out
}

func val(e int) int { return e >> 21 }

func show(e int) string {
	if e&(1<<20) == 0 {
		return fmt.Sprintf("raw(%d)", e)
	}
	g := ""
	if gen := (e >> 14) & 63; gen > 0 {
		g = fmt.Sprintf(" of Init #%d", gen)
	}
	return fmt.Sprintf("%d(%c[%d]%s)", val(e), "AB"[(e>>13)&1], e&8191, g)
}

func selector(id string) iterable.SelectF[int] {
	switch id {
	case "lt":
		return func(a, b int) bool { return val(a) < val(b) }
	case "le":
		return func(a, b int) bool { return val(a) <= val(b) }
	case "first":
		return func(a, b int) bool { return true }
	case "second":
		return func(a, b int) bool { return false }
	case "gt":
		return func(a, b int) bool { return val(a) > val(b) }
	}
	panic("bad selector " + id)
}

// noReset hides the Reset method of the wrapped iterator.
type noReset struct{ it iterable.Iterator[int] }

func (n *noReset) HasNext() bool     { return n.it.HasNext() }
func (n *noReset) Next() (int, bool) { return n.it.Next() }
func (n *noReset) Close() error      { return n.it.Close() }

// disparity is the documented map-iterator imparity (iterator.go): the element the iterator pointed
// to was the last one and is removed between HasNext and Next. HasNext is true (and stays true,
// the element is still there as far as HasNext can tell) until Next finds nothing; exhausted afterwards.
type disparity struct {
	s       []int
	idx     int
	dead    bool
	lied    bool // HasNext said true at the end at least once
	phantom int  // number of Next calls that returned (0,false) after a lying HasNext
}

func (d *disparity) HasNext() bool {
	if d.idx < len(d.s) {
		return true
	}
	if !d.dead {
		d.lied = true
		return true
	}
	return false
}

func (d *disparity) Next() (int, bool) {
	if d.idx < len(d.s) {
		d.idx++
		return d.s[d.idx-1], true
	}
	if !d.dead && d.lied {
		d.phantom++
	}
	d.dead = true
	return 0, false
}

func (d *disparity) Reset() error {
	d.idx, d.dead, d.lied = 0, false, false
	return nil
}

func (d *disparity) Close() error { return nil }

// Value-type iterators. Nothing in iterable.Iterator asks for a pointer: an adapter struct of closures, or a small
// struct that points at its cursor, is an iterator when handed over by value. All of them walk a slice like WrapIntSlice.

// fnIter / fnIterNoReset: adapter of closures (func fields make the struct type uncomparable).
type fnIterNoReset struct {
	hasNext func() bool
	next    func() (int, bool)
	close   func() error
}

func (f fnIterNoReset) HasNext() bool     { return f.hasNext() }
func (f fnIterNoReset) Next() (int, bool) { return f.next() }
func (f fnIterNoReset) Close() error      { return f.close() }

type fnIter struct {
	fnIterNoReset
	reset func() error
}

func (f fnIter) Reset() error { return f.reset() }

func newFnIter(s []int) fnIter {
	pos := 0
	return fnIter{fnIterNoReset{
		hasNext: func() bool { return pos < len(s) },
		next: func() (int, bool) {
			if pos < len(s) {
				pos++
				return s[pos-1], true
			}
			return 0, false
		},
		close: func() error { return nil },
	}, func() error { pos = 0; return nil }}
}

// sliceCursor: the elements in a slice field (uncomparable struct), the position behind a pointer.
type sliceCursor struct {
	s   []int
	pos *int
}

func (c sliceCursor) HasNext() bool { return *c.pos < len(c.s) }
func (c sliceCursor) Next() (int, bool) {
	if *c.pos < len(c.s) {
		*c.pos++
		return c.s[*c.pos-1], true
	}
	return 0, false
}
func (c sliceCursor) Reset() error { *c.pos = 0; return nil }
func (c sliceCursor) Close() error { return nil }

// handle: a comparable struct value around a pointer to the state.
type handleState struct {
	s   []int
	pos int
}
type handle struct{ st *handleState }

func (h handle) HasNext() bool { return h.st.pos < len(h.st.s) }
func (h handle) Next() (int, bool) {
	if h.st.pos < len(h.st.s) {
		h.st.pos++
		return h.st.s[h.st.pos-1], true
	}
	return 0, false
}
func (h handle) Reset() error { h.st.pos = 0; return nil }
func (h handle) Close() error { return nil }

func source(kind string, s []int) iterable.Iterator[int] {
	if z := zoo[kind]; z != nil {
		return z.mk(s)
	}
	switch kind {
	case KValFunc:
		return newFnIter(s)
	case KValFuncNoReset:
		return newFnIter(s).fnIterNoReset
	case KValSlice:
		return sliceCursor{s: s, pos: new(int)}
	case KValCmp:
		return handle{&handleState{s: s}}
	case KSlice:
		return iterable.WrapIntSlice(s)
	case KNoReset:
		return &noReset{iterable.WrapIntSlice(s)}
	case KDisparity:
		return &disparity{s: s}
	}
	panic("bad source kind " + kind)
}

// Run executes the case against the real mixer and the two-pointer reference merge.
func Run(c Case) (info Info, v *vstat.Violation) {
	return info, vstat.Guard("mixer:panic", func() *vstat.Violation { return run(c, &info) })
}

func run(c Case, info *Info) *vstat.Violation {
	for _, s := range [][]int{c.A, c.B, c.A2, c.B2} {
		if len(s) > maxLen {
			panic("inputs longer than 8191 are not encodable")
		}
		if len(s) >= 500 {
			info.LongInput = true
		}
		for _, v := range s {
			if v <= -maxValue || v >= maxValue {
				panic("values must be in (-2^42, 2^42)")
			}
			if v < 1 || v > 1<<31 {
				info.Extreme = true
			}
		}
	}
	sel := selector(c.Sel)
	resettable := CanReset(c.KA) && CanReset(c.KB)
	info.ValueKind = IsValueKind(c.KA) && !c.FA.active(c.KA) || IsValueKind(c.KB) && !c.FB.active(c.KB)
	info.SameValueKind = IsValueKind(c.KA) && c.KA == c.KB && !c.FA.active(c.KA) && !c.FB.active(c.KB)
	info.PhantomAny = c.KA == KDisparity || c.KB == KDisparity

	// reference state: the current inputs and two pointers
	var a, b []int
	i, j := 0, 0

	// the selector handed to the mixer is the pure selector plus a check: the preference is defined on the
	// current heads of the two inputs, so it must be asked about exactly (head of input 1, head of input 2)
	// and never when an input has no head (zero value, stale or already emitted element).
	var selViol *vstat.Violation
	limbo := false // see below: between a failed Reset and the next one that both sources accept
	checking := func(x, y int) bool {
		info.SelCalls++
		if selViol == nil && !limbo {
			switch {
			case i >= len(a) || j >= len(b):
				selViol = vstat.V("mixer:selector-got-non-head", "selector called with (%s, %s) although an input has no head (consumed A=%d/%d B=%d/%d)",
					show(x), show(y), i, len(a), j, len(b))
			case x != a[i] || y != b[j]:
				selViol = vstat.V("mixer:selector-got-non-head", "selector called with (%s, %s), the heads are (%s, %s) (consumed A=%d/%d B=%d/%d)",
					show(x), show(y), show(a[i]), show(b[j]), i, len(a), j, len(b))
			}
		}
		return sel(x, y)
	}

	var m iterable.Mixer[int]
	var sa, sb iterable.Iterator[int]
	var phantoms []*disparity
	gen := 0
	// transient Reset failures: fa/fb are the wrappers of the current sources (nil: none). While a source still has a
	// failure to deliver, a Reset of the mixer cannot be expected to succeed; what the mixer returns then and how it
	// behaves until the next Reset that both sources accept is not documented: in this state (limbo) calls are made
	// but not judged, and the selector does not check its arguments. A Reset made when neither source has a failure
	// left is a Reset "when both inputs can be reset": it must succeed and restart the merge completely.
	var fa, fb *flaky
	limboCalls := 0
	pending := func() bool { return (fa != nil && fa.left > 0) || (fb != nil && fb.left > 0) }
	info.FlakyA, info.FlakyB = c.FA.active(c.KA), c.FB.active(c.KB)
	if info.FlakyA {
		info.FlakyErr = c.FA.Err
	} else if info.FlakyB {
		info.FlakyErr = c.FB.Err
	}
	initMixer := func() {
		va, vb := c.A, c.B
		if gen%2 == 1 {
			va, vb = c.A2, c.B2
		}
		a = enc(va, 0, gen, c.NilA)
		if c.Shared {
			b, vb = a, va
			info.SharedSlice = true
		} else {
			b = enc(vb, 1, gen, c.NilB)
		}
		if a == nil || b == nil {
			info.NilInput = true
		}
		i, j = 0, 0
		sa, fa = flakySource(c.KA, a, c.FA)
		sb, fb = flakySource(c.KB, b, c.FB)
		limbo = false
		for _, it := range []iterable.Iterator[int]{sa, sb} {
			if fw, ok := it.(*flaky); ok {
				it = fw.it
			}
			if d, ok := it.(*disparity); ok {
				phantoms = append(phantoms, d)
			}
		}
		m.Init(checking, sa, sb)
		gen++
		if len(a) > 0 && len(b) > 0 && sortedUnder(c.Sel, va) && sortedUnder(c.Sel, vb) {
			info.Sorted = true
		}
		if (len(a) == 0) != (len(b) == 0) {
			info.OneEmpty = true
		}
		if len(a) == 0 && len(b) == 0 {
			info.BothEmpty = true
		}
	}
	initMixer()

	// reference: the head of input 1 goes out iff input 2 is exhausted or
	// (input 1 is not exhausted and the selector prefers head 1).
	peek := func() (e int, ok bool, first bool) {
		switch {
		case i < len(a) && j >= len(b):
			return a[i], true, true
		case i < len(a) && j < len(b):
			if val(a[i]) == val(b[j]) {
				info.Tie = true
			}
			if sel(a[i], b[j]) {
				return a[i], true, true
			}
			return b[j], true, false
		case j < len(b):
			return b[j], true, false
		}
		return 0, false, false
	}
	advance := func(first bool) {
		if first {
			i++
		} else {
			j++
		}
	}

	var lastH *bool // answer of the HasNext calls since the last Next/Reset
	hRun := 0
	sawEnd := false
	sinceReset := 0
	state := func() string { return fmt.Sprintf("consumed A=%d/%d B=%d/%d", i, len(a), j, len(b)) }

	next := func(wheref func() string) *vstat.Violation {
		where := lazyStr(wheref)
		got, ok := m.Next()
		if selViol != nil {
			return vstat.V(selViol.Sig, "%s: during Next: %s", where, selViol.Msg)
		}
		want, wok, first := peek()
		if lastH != nil && *lastH != ok {
			return vstat.V("mixer:hasnext-next-disagree", "%s: HasNext said %v, the following Next returned ok=%v (%s)", where, *lastH, ok, state())
		}
		if ok != wok {
			if wok {
				return vstat.V("mixer:next-ends-early", "%s: Next returned ok=false, reference still has %s (%s)", where, show(want), state())
			}
			return vstat.V("mixer:next-past-end", "%s: Next returned (%s,true) although both inputs are exhausted (%s)", where, show(got), state())
		}
		if ok && got != want {
			return vstat.V("mixer:next-wrong-element", "%s: Next returned %s, reference merge emits %s (%s)", where, show(got), show(want), state())
		}
		if ok {
			advance(first)
			info.Emitted++
			sinceReset++
		} else {
			sawEnd = true
		}
		return nil
	}

	// consecutive successful Resets (classification): how many in a row, and whether the first of them met a look-ahead
	consec, consecLook := 0, false
	endConsec := func() {
		if k := runClass(consec); k != "" {
			if info.ConsecResets == nil {
				info.ConsecResets = map[string]bool{}
			}
			info.ConsecResets[k] = true
			info.ConsecLook = info.ConsecLook || consecLook
			if consec%256 == 0 {
				info.ConsecMult256 = true
				info.ConsecMult256Look = info.ConsecMult256Look || consecLook
			}
		}
		consec, consecLook = 0, false
	}
	for _, tk := range parseProg(c.Prog) {
		p, rep := tk.pos, 0
		wheref := func() string {
			if tk.n > 1 {
				return fmt.Sprintf("call #%d %c (Reset %d of a run of %d) of %q", p, tk.ch, rep+1, tk.n, c.Prog)
			}
			return fmt.Sprintf("call #%d %c of %q", p, tk.ch, c.Prog)
		}
		where := lazyStr(wheref)
		if limbo && tk.ch != 'r' && tk.ch != 'i' {
			// between a failed Reset and the next accepted one: the call is made, nothing is judged
			if tk.ch == 'h' {
				m.HasNext()
			} else {
				m.Next()
			}
			limboCalls++
			info.LimboCalls++
			continue
		}
		if tk.ch == 'i' {
			consec, consecLook = 0, false // not followed by a read: the sources are replaced
		} else if tk.ch != 'r' {
			endConsec()
		}
		switch tk.ch {
		case 'h':
			got := m.HasNext()
			if selViol != nil {
				return vstat.V(selViol.Sig, "%s: during HasNext: %s", where, selViol.Msg)
			}
			_, want, _ := peek()
			if lastH != nil && *lastH != got {
				return vstat.V("mixer:hasnext-not-idempotent", "%s: HasNext changed its answer from %v to %v without a Next in between (%s)", where, *lastH, got, state())
			}
			if got != want {
				return vstat.V("mixer:hasnext-wrong", "%s: HasNext=%v, reference says %v (%s)", where, got, want, state())
			}
			if sawEnd {
				info.PastEnd = true
			}
			if !got {
				sawEnd = true
			}
			hRun++
			if hRun >= 2 {
				info.RepeatH = true
			}
			lastH = &got
		case 'n':
			if lastH == nil {
				info.BlindNext = true
			}
			if sawEnd {
				info.PastEnd = true
			}
			if v := next(wheref); v != nil {
				return v
			}
			lastH, hRun = nil, 0
		case 'r':
			for rep = 0; rep < tk.n; rep++ {
				transient := resettable && pending()
				err := m.Reset()
				if selViol != nil {
					return vstat.V(selViol.Sig, "%s: during Reset: %s", where, selViol.Msg)
				}
				if transient {
					// a source had a failure to deliver: neither the result nor the state of the mixer is judged
					info.ResetTransient = true
					limbo, limboCalls = true, 0
					lastH, hRun = nil, 0
					consec, consecLook = 0, false
					continue
				}
				if !resettable {
					info.ResetRefused = true
					if err == nil {
						return vstat.V("mixer:reset-no-error", "%s: Reset returned nil although a source (%s,%s) cannot be reset", where, c.KA, c.KB)
					}
					// the documentation says nothing about the mixer's state after a refused Reset: stop here
					return nil
				}
				if err != nil {
					return vstat.V("mixer:reset-failed", "%s: Reset returned %v although both sources can be reset%s", where, err, flakyNote(fa, fb))
				}
				if limbo {
					info.ResetRecovered = true
					if limboCalls > 0 {
						info.RecoveredAfterRead = true
					}
					limbo = false
					sawEnd, lastH, sinceReset = false, nil, 0 // what was seen before belongs to the abandoned merge
				}
				info.ResetOK = true
				switch {
				case sawEnd:
					info.ResetAtEnd = true
				case lastH != nil:
					info.ResetLook = true
				}
				if sinceReset > 0 && !sawEnd {
					info.ResetMid = true
				}
				if a == nil || b == nil {
					info.ResetNil = true
				}
				if consec == 0 {
					consecLook = (lastH != nil && *lastH) || (sinceReset > 0 && !sawEnd)
				}
				consec++
				i, j = 0, 0
				lastH, hRun, sawEnd, sinceReset = nil, 0, false, 0
			}
		case 'i':
			info.ReInit = true
			if (lastH != nil && *lastH) || (sinceReset > 0 && !sawEnd) {
				info.ReInitLook = true
			}
			pa, pb := a, b
			initMixer()
			if selViol != nil {
				return vstat.V(selViol.Sig, "%s: during Init: %s", where, selViol.Msg)
			}
			if len(a) == 0 || len(b) == 0 {
				info.ReInitEmpty = true
			}
			if !sameValues(pa, a) || !sameValues(pb, b) {
				info.ReInitDiff = true
			}
			lastH, hRun, sawEnd, sinceReset = nil, 0, false, 0
		default:
			panic("bad call " + string(tk.ch))
		}
	}

	// the program ended between a failed Reset and an accepted one: Reset until both sources accept it (each call of
	// the mixer's Reset passes at least one pending failure on; bounded anyway), then the complete merge must come out
	for tries := 0; limbo && tries < 16; tries++ {
		can := !pending()
		err := m.Reset()
		if !can {
			continue
		}
		if err != nil {
			return vstat.V("mixer:reset-failed", "Reset #%d after %q returned %v although both sources can be reset%s", tries+1, c.Prog, err, flakyNote(fa, fb))
		}
		info.ResetRecovered, info.RecoveredAtEnd, info.ResetOK = true, true, true
		if limboCalls > 0 {
			info.RecoveredAfterRead = true
		}
		limbo = false
		i, j = 0, 0
		lastH, hRun, sawEnd, sinceReset = nil, 0, false, 0
	}
	if limbo {
		return nil // the mixer never passed the pending failures on: no Reset that both sources accepted, nothing to judge
	}
	// final drain: the rest of the merge comes out, then the mixer stays exhausted
	endConsec()
	lastH = nil
	for k := 0; k <= len(a)+len(b)+1; k++ {
		_, more, _ := peek()
		if v := next(func() string { return fmt.Sprintf("final drain step %d after %q", k, c.Prog) }); v != nil {
			return v
		}
		if !more {
			break
		}
	}
	if m.HasNext() {
		return vstat.V("mixer:hasnext-wrong", "after the final drain HasNext=true (%s)", state())
	}
	if got, ok := m.Next(); ok {
		return vstat.V("mixer:next-past-end", "after the final drain Next returned (%s,true)", show(got))
	}
	if selViol != nil {
		return vstat.V(selViol.Sig, "after the final drain: %s", selViol.Msg)
	}
	for _, d := range phantoms {
		if d.phantom > 0 {
			info.Phantom = true
		}
	}
	return nil
}

// flakyNote describes what the transiently failing sources have seen so far (for messages).
func flakyNote(fs ...*flaky) string {
	out := ""
	for k, f := range fs {
		if f != nil {
			out += fmt.Sprintf("; source of input %d: its Reset failed %d time(s) with %q, succeeded %d time(s), %d failure(s) left", k+1, f.fails, f.err.Error(), f.oks, f.left)
		}
	}
	return out
}

func sameValues(x, y []int) bool {
	if len(x) != len(y) {
		return false
	}
	for k := range x {
		if val(x[k]) != val(y[k]) {
			return false
		}
	}
	return true
}

// lazyStr formats only when a violation message is actually built.
type lazyStr func() string

func (l lazyStr) String() string { return l() }

func sortedUnder(sel string, s []int) bool {
	for k := 1; k < len(s); k++ {
		switch sel {
		case "lt", "le":
			if s[k-1] > s[k] {
				return false
			}
		case "gt":
			if s[k-1] < s[k] {
				return false
			}
		default:
			return false
		}
	}
	return true
}

// Hash is a cheap FNV-1a hash of the case.
func (c Case) Hash() uint64 {
	h := uint64(14695981039346656037)
	mix := func(b uint64) {
		h ^= b
		h *= 1099511628211
	}
	mixs := func(s string) {
		for k := 0; k < len(s); k++ {
			mix(uint64(s[k]))
		}
		mix(0xff)
	}
	for _, v := range c.A {
		mix(uint64(int64(v)))
	}
	mix(0xfffe)
	for _, v := range c.B {
		mix(uint64(int64(v)))
	}
	mix(0xfffd)
	for _, v := range c.A2 {
		mix(uint64(int64(v)))
	}
	mix(0xfffc)
	for _, v := range c.B2 {
		mix(uint64(int64(v)))
	}
	mix(0xfffb)
	for _, f := range []bool{c.NilA, c.NilB, c.Shared} {
		if f {
			mix(1)
		} else {
			mix(2)
		}
	}
	mixs(c.KA)
	mixs(c.KB)
	mixs(c.Sel)
	mixs(c.Prog)
	for _, f := range []*Flaky{c.FA, c.FB} {
		if f != nil && f.K > 0 {
			mix(uint64(f.K) | 0x100)
			mixs(f.Err)
		} else if c.FA != nil || c.FB != nil {
			mix(0x1ff)
		}
	}
	return h
}

// NonTrivial is the rule of C18: the case exercises something mixer_test.go does not - a tie between
// the two heads, exactly one empty input, a successful Reset in the middle of the merge or on a loaded
// look-ahead or after the end, HasNext repeated, a lying final HasNext of a source, or Init called again
// on the mixer while a look-ahead was pending, or a Reset that both sources accepted after one that a source failed.
func (i Info) NonTrivial() bool {
	return i.Tie || i.OneEmpty || i.ResetMid || i.ResetLook || i.ResetAtEnd || i.RepeatH || i.Phantom || i.ReInitLook || i.ResetRecovered
}

// Classes for the histogram.
func (i Info) Classes() []string {
	c := make([]string, 0, 16)
	add := func(b bool, s string) {
		if b {
			c = append(c, s)
		}
	}
	add(i.Tie, "tie_between_heads")
	add(i.OneEmpty, "one_input_empty")
	add(i.BothEmpty, "both_inputs_empty")
	add(i.ResetMid, "reset_midway")
	add(i.ResetLook, "reset_on_loaded_lookahead")
	add(i.ResetAtEnd, "reset_after_end")
	add(i.ResetRefused, "reset_refused_nonresettable")
	add(i.RepeatH, "hasnext_repeated")
	add(i.BlindNext, "next_without_hasnext")
	add(i.PastEnd, "calls_past_end")
	add(i.Phantom, "lying_final_hasnext_consumed")
	add(i.PhantomAny, "disparity_source")
	add(i.Sorted, "both_sorted_under_selector")
	add(i.Emitted >= 20, "emitted_ge_20")
	add(i.ReInit, "reinit")
	add(i.ReInitLook, "reinit_with_pending_lookahead")
	add(i.ReInitEmpty, "reinit_with_an_empty_input")
	add(i.ReInitDiff, "reinit_with_different_inputs")
	add(i.SelCalls > 0, "selector_consulted")
	add(i.NilInput, "empty_input_is_nil_slice")
	add(i.ResetNil, "reset_ok_with_nil_slice_input")
	add(i.SharedSlice, "both_inputs_share_one_slice")
	add(i.Extreme, "negative_zero_or_huge_values")
	add(i.LongInput, "input_ge_500_elements")
	add(i.ValueKind, "value_type_iterator_input")
	add(i.SameValueKind, "both_inputs_same_value_type")
	add(i.SameValueKind && i.ResetOK, "both_inputs_same_value_type_and_reset_ok")
	add(i.SameValueKind && i.ResetRefused, "both_inputs_same_value_type_and_reset_refused")
	for _, l := range append([]string{"2-4", "other_ge_5"}, runLengthNames...) {
		add(i.ConsecResets[l], "consecutive_successful_resets_then_read:"+l)
	}
	add(i.ConsecLook, "consecutive_successful_resets_begun_on_loaded_lookahead")
	add(i.ConsecMult256, "consecutive_successful_resets_multiple_of_256")
	add(i.ConsecMult256Look, "consecutive_successful_resets_multiple_of_256_begun_on_loaded_lookahead")
	add(i.FlakyA && !i.FlakyB, "source_reset_fails_transiently:input_1")
	add(!i.FlakyA && i.FlakyB, "source_reset_fails_transiently:input_2")
	add(i.FlakyA && i.FlakyB, "source_reset_fails_transiently:both_inputs")
	if i.ResetTransient {
		c = append(c, "reset_failed_transiently:error_"+i.FlakyErr)
	}
	add(i.ResetTransient, "reset_while_a_source_fails_transiently")
	add(i.ResetRecovered, "accepted_reset_after_a_failed_one")
	add(i.RecoveredAfterRead, "accepted_reset_after_a_failed_one_with_calls_in_between")
	add(i.RecoveredAfterRead && !i.RecoveredAtEnd, "accepted_reset_after_a_failed_one_with_calls_in_between_inside_the_program")
	add(i.ResetTransient && !i.ResetRecovered, "failed_reset_never_followed_by_an_accepted_one")
	return c
}
