// Package p_distlock decides C01 (mutual exclusion) and C04 (hand-off, cancellation, shutdown leave no
// residue) of the KV based distributed lock. A case runs inside a testing/synctest bubble with the clock
// frozen; every storage call of a locker parks at a gate until the generated schedule releases it.
package p_distlock

import (
	"context"
	"errors"
	"fmt"
	"runtime"
	"sort"
	"strings"
	"sync"
	"sync/atomic"
	"testing"
	"testing/synctest"
	"time"

	gerrors "github.com/acquirecloud/golibs/errors"
	"github.com/acquirecloud/golibs/kvs"
	dist "github.com/acquirecloud/golibs/kvs/distlock"
	"github.com/acquirecloud/golibs/kvs/inmem"
	gsync "github.com/acquirecloud/golibs/sync"
	"verifharness/internal/gated"
	"verifharness/internal/vstat"
)

// ---------------------------------------------------------------------------------------------
// the generated object

const (
	KLock = iota
	KTryLock
	KLockWithCtx
)

// Round is one acquire attempt of a worker; when it succeeds the worker's next command is Unlock.
type Round struct {
	Kind     int  `json:"kind"`
	Pre      bool `json:"pre,omitempty"`       // the context is cancelled before the call (TryLock / LockWithCtx)
	GateDone bool `json:"gate_done,omitempty"` // the first ctx.Done() call of the lock code (entry of the local wait) parks at the scheduler
	GateErr  bool `json:"gate_err,omitempty"`  // the first ctx.Err() call that reports the cancellation parks at the scheduler (a schedule point between an attempt's decision to give up and its clean-up)
	Cause    bool `json:"cause,omitempty"`     // the context is a WithCancelCause context and is cancelled with a cause of the harness (ctx.Err() is still context.Canceled)
}

// LockerCfg is one Locker object: which provider made it, for which lock name.
type LockerCfg struct {
	Provider int `json:"provider"`
	Name     int `json:"name"`
}

// WorkerCfg is one goroutine: the Locker it uses and its program.
type WorkerCfg struct {
	Locker int     `json:"locker"`
	Rounds []Round `json:"rounds"`
}

// Dec is one scheduler decision, interpreted against the moves enabled at that moment:
// C selects the class of move (by fixed weights), I the move inside the class.
type Dec struct {
	C int  `json:"c"`
	I int  `json:"i"`
	P bool `json:"p,omitempty"` // a release of a Create/Delete applies the call and parks its reply
}

// Fault makes the At-th released storage call fail (1 = request lost, 2 = reply lost).
type Fault struct {
	At   int `json:"at"`
	Kind int `json:"kind"`
}

// Case is a configuration plus a schedule.
type Case struct {
	Mode      string      `json:"mode"` // C01 | C04
	Providers int         `json:"providers"`
	Names     int         `json:"names"`
	Lockers   []LockerCfg `json:"lockers"`
	Workers   []WorkerCfg `json:"workers"`
	Decs      []Dec       `json:"decs"`
	Faults    []Fault     `json:"faults,omitempty"`
	Shutdown  bool        `json:"shutdown,omitempty"`   // shutdown moves are enabled
	Path      string      `json:"path,omitempty"`       // key-space prefix of every provider ("" = /locks/)
	NameStyle int         `json:"name_style,omitempty"` // how lock name i is spelled: 0 "n<i>", 1 one letter, 2 "k" + 3*i times "z"
	FaultErr  int         `json:"fault_err,omitempty"`  // shape of the injected storage errors (see transientErr in lease.go; 0 = a plain error)
	HonourCtx bool        `json:"honour_ctx,omitempty"` // the storage refuses calls whose context is done (as a networked backend does)
}

// Info is what the classifiers need.
type Info struct {
	Contended     bool // a locker's Create met the record of another Locker object (ErrExist)
	FaultHit      bool // an injected fault hit a pending acquire/release call
	CancelHit     bool // a cancel hit an attempt that was parked (local wait, gate, storage wait)
	HandoffWaited bool // an Unlock happened while another Locker object was parked in the storage wait
	ShutdownHit   bool // Shutdown hit a provider with parked attempts
	Stuck         bool
	Steps         int
	GatedCalls    int
	Classes       map[string]bool
}

func (i *Info) class(c string) {
	if i.Classes == nil {
		i.Classes = map[string]bool{}
	}
	i.Classes[c] = true
}

// ClassList for the histogram.
func (i *Info) ClassList() []string {
	var r []string
	for c := range i.Classes {
		r = append(r, c)
	}
	sort.Strings(r)
	return r
}

// ---------------------------------------------------------------------------------------------
// engine

const lockPath = "/locks/"

var errHarnessCause = errors.New("the harness had its reasons")

// errGateCtx parks its first Err() call that reports the end of the context at the scheduler.
type errGateCtx struct {
	context.Context
	g        *gated.Storage
	once     atomic.Bool
	gateDone bool // also park the first Done() call the lock code makes (the entry of its local wait)
	doneOnce atomic.Bool
}

func (c *errGateCtx) Done() <-chan struct{} {
	if c.gateDone && calledFromLockCode() && c.doneOnce.CompareAndSwap(false, true) {
		c.g.Park("ctxdone", "")
	}
	return c.Context.Done()
}

// calledFromLockCode: the Err() call comes from the lock package itself (storage backends also poll Err(), some of
// them with their mutex held - no schedule point there).
func calledFromLockCode() bool {
	var pcs [8]uintptr
	n := runtime.Callers(2, pcs[:])
	frames := runtime.CallersFrames(pcs[:n])
	for {
		fr, more := frames.Next()
		switch {
		case strings.Contains(fr.Function, "verifharness/"), fr.Function == "":
			// the context wrapper's own methods
		case strings.Contains(fr.Function, "/kvs/distlock."):
			return true
		default:
			return false // a storage backend, the context package, ...
		}
		if !more {
			return false
		}
	}
}

func (c *errGateCtx) Err() error {
	err := c.Context.Err()
	if err != nil && calledFromLockCode() && c.once.CompareAndSwap(false, true) {
		c.g.Park("ctxerr", "")
	}
	return err
}

type command struct {
	unlock bool
	round  Round
	ctx    context.Context
}

type wk struct {
	idx int
	cfg WorkerCfg
	cmd chan command
	// guarded by eng.mu
	running       bool
	cur           command
	round         int
	holding       bool
	cancel        context.CancelFunc
	cancelled     bool
	afterShutdown bool
	inWait        bool // inside the storage's WaitForVersionChange
	sawStorage    bool // the current attempt has issued a storage call
	lastOK        bool
	lastErr       error
	lastPanic     any
	finished      int // completed commands
}

type eng struct {
	c       Case
	g       *gated.Storage
	inner   kvs.Storage
	provs   []dist.LockProvider
	down    []bool
	lockers []gsync.Locker
	ws      []*wk

	mu        sync.Mutex
	holders   []int
	viol      *vstat.Violation
	trace     []string
	faultsHit int
	lapses    int
	info      *Info
	faultAt   map[int]int
}

func (e *eng) logf(format string, a ...any) {
	if len(e.trace) < 400 {
		e.trace = append(e.trace, fmt.Sprintf(format, a...))
	}
}

func (e *eng) setViol(sig, format string, a ...any) {
	if e.viol == nil {
		e.viol = vstat.V(sig, format, a...)
	}
}

func (c *Case) path() string {
	if c.Path == "" {
		return lockPath
	}
	return c.Path
}

func (c *Case) lockName(i int) string {
	switch c.NameStyle {
	case 1:
		return string(rune('a' + i))
	case 2:
		return "k" + strings.Repeat("z", 3*i)
	}
	return fmt.Sprintf("n%d", i)
}

func (e *eng) key(name int) string { return e.c.path() + e.c.lockName(name) }

func (e *eng) nameOf(w *wk) int { return e.c.Lockers[w.cfg.Locker].Name }
func (e *eng) provOf(w *wk) int { return e.c.Lockers[w.cfg.Locker].Provider }

func (e *eng) workerLoop(w *wk) {
	e.g.Register(w.idx)
	lk := e.lockers[w.cfg.Locker]
	name := e.nameOf(w)
	for c := range w.cmd {
		if c.unlock {
			e.mu.Lock()
			e.holders[name]--
			w.holding = false
			e.mu.Unlock()
			p := func() (p any) {
				defer func() { p = recover() }()
				lk.Unlock()
				return nil
			}()
			e.mu.Lock()
			if p != nil {
				e.setViol("unlock-panic", "worker %d: Unlock of a lock it holds panicked: %v", w.idx, p)
			}
			w.running = false
			w.finished++
			e.logf("  w%d: Unlock returned", w.idx)
			e.mu.Unlock()
			continue
		}
		var ok bool
		var err error
		var pnc any
		func() {
			defer func() { pnc = recover() }()
			switch c.round.Kind {
			case KLock:
				lk.Lock()
				ok = true
			case KTryLock:
				ok = lk.TryLock(c.ctx)
			case KLockWithCtx:
				err = lk.LockWithCtx(c.ctx)
				ok = err == nil
			}
		}()
		e.mu.Lock()
		if pnc != nil {
			ok = false
		}
		w.lastOK, w.lastErr, w.lastPanic = ok, err, pnc
		if ok {
			e.holders[name]++
			w.holding = true
			if e.holders[name] > 1 {
				e.setViol("two-holders", "worker %d acquired lock n%d through %s while another caller holds it (%d holders now)", w.idx, name, kindName(c.round.Kind), e.holders[name])
			}
		}
		w.running = false
		w.inWait = false
		w.finished++
		w.round++
		e.logf("  w%d: %s returned ok=%v err=%v panic=%v", w.idx, kindName(c.round.Kind), ok, err, pnc)
		e.mu.Unlock()
	}
}

func kindName(k int) string { return [...]string{"Lock", "TryLock", "LockWithCtx"}[k] }

// move classes
const (
	mRelease = iota
	mStart
	mCancel
	mLapse
	mShutdown
)

type move struct {
	class    int
	w        int  // worker
	n        int  // name (lapse) / provider (shutdown)
	twoPhase bool // release: apply the call and park its reply
}

// class weights for a decision's C in 0..9
var classOf = [10]int{mRelease, mRelease, mRelease, mRelease, mStart, mStart, mStart, mCancel, mLapse, mShutdown}

func (e *eng) enabled() map[int][]move {
	e.mu.Lock()
	defer e.mu.Unlock()
	m := map[int][]move{}
	unlocking := make([]bool, e.c.Names)
	for _, w := range e.ws {
		switch {
		case !w.running && (w.holding || w.round < len(w.cfg.Rounds)):
			m[mStart] = append(m[mStart], move{class: mStart, w: w.idx})
		case w.running && e.g.PendingOf(w.idx) != nil:
			m[mRelease] = append(m[mRelease], move{class: mRelease, w: w.idx})
		}
		if w.running && !w.cur.unlock && w.cur.round.Kind != KLock && !w.cancelled {
			m[mCancel] = append(m[mCancel], move{class: mCancel, w: w.idx})
		}
		if w.running && w.cur.unlock {
			unlocking[e.nameOf(w)] = true
		}
	}
	for n := 0; n < e.c.Names; n++ {
		if e.holders[n] == 0 && !unlocking[n] && !e.acquiring(n) {
			if _, err := e.inner.Get(context.Background(), e.key(n)); err == nil {
				m[mLapse] = append(m[mLapse], move{class: mLapse, n: n})
			}
		}
	}
	if e.c.Shutdown {
		for p := range e.provs {
			if !e.down[p] {
				m[mShutdown] = append(m[mShutdown], move{class: mShutdown, n: p})
			}
		}
	}
	return m
}

// choose interprets a decision against the enabled moves. drain: no cancels, no shutdowns.
func choose(m map[int][]move, d Dec, drain bool) (move, bool) {
	order := []int{mRelease, mStart, mLapse}
	if !drain {
		cl := classOf[((d.C%10)+10)%10]
		if len(m[cl]) > 0 {
			mv := m[cl][((d.I%len(m[cl]))+len(m[cl]))%len(m[cl])]
			mv.twoPhase = d.P && cl == mRelease
			return mv, true
		}
		order = []int{mRelease, mStart, mLapse, mCancel}
	}
	for _, cl := range order {
		if len(m[cl]) > 0 {
			i := 0
			if !drain {
				i = ((d.I % len(m[cl])) + len(m[cl])) % len(m[cl])
			}
			return m[cl][i], true
		}
	}
	return move{}, false
}

// acquiring: a Create for lock n has been applied by the storage and its reply is parked: the record belongs to an
// attempt that is about to succeed.
func (e *eng) acquiring(n int) bool {
	for _, w := range e.ws {
		if p := e.g.PendingOf(w.idx); p != nil && p.Op == "reply:create" && p.Key == e.key(n) {
			return true
		}
	}
	return false
}

func (e *eng) parkedAttempts(prov int) int {
	n := 0
	for _, w := range e.ws {
		if w.running && !w.cur.unlock && (prov < 0 || e.provOf(w) == prov) {
			n++
		}
	}
	return n
}

func (e *eng) apply(mv move) {
	switch mv.class {
	case mStart:
		w := e.ws[mv.w]
		e.mu.Lock()
		var c command
		if w.holding {
			c = command{unlock: true}
			// hand-off classification: somebody else (another Locker object) is parked in the storage wait
			for _, o := range e.ws {
				if o != w && o.running && o.inWait && o.cfg.Locker != w.cfg.Locker && e.nameOf(o) == e.nameOf(w) {
					e.info.HandoffWaited = true
				}
			}
			e.logf("start w%d: Unlock", w.idx)
		} else {
			r := w.cfg.Rounds[w.round]
			c = command{round: r, ctx: context.Background()}
			w.cancel, w.cancelled = nil, false
			if r.Kind != KLock {
				ctx, cancel := context.WithCancel(context.Background())
				if r.Cause {
					cctx, ccancel := context.WithCancelCause(context.Background())
					ctx, cancel = cctx, func() { ccancel(errHarnessCause) }
					e.info.class("context_with_cause")
				}
				if (r.GateErr || r.GateDone) && !r.Pre {
					ctx = &errGateCtx{Context: ctx, g: e.g, gateDone: r.GateDone}
					if !r.GateErr {
						ctx.(*errGateCtx).once.Store(true) // only the Done() gate
					}
					e.info.class("context_gated")
				}
				c.ctx, w.cancel = ctx, cancel
				if r.Pre {
					cancel()
					w.cancelled = true
					e.info.class("cancel:before_start")
				}
			}
			w.afterShutdown = e.down[e.provOf(w)]
			w.sawStorage, w.inWait = false, false
			e.logf("start w%d: %s pre-cancelled=%v locker=%d provider-down=%v", w.idx, kindName(r.Kind), r.Pre && r.Kind != KLock, w.cfg.Locker, w.afterShutdown)
		}
		w.running, w.cur = true, c
		e.mu.Unlock()
		w.cmd <- c
	case mRelease:
		p := e.g.PendingOf(mv.w)
		out := gated.OK
		if mv.twoPhase && (p.Op == "create" || p.Op == "delete") {
			// the call is applied now, its reply stays parked: a schedule point between the storage's action and the caller seeing it
			out = gated.Applied
			e.mu.Lock()
			e.info.class("reply_parked:" + p.Op)
			e.mu.Unlock()
		}
		if k, ok := e.faultAt[e.g.Released]; ok && (p.Op == "create" || p.Op == "delete" || p.Op == "wait") {
			out = gated.Outcome(k)
			e.mu.Lock()
			e.faultsHit++
			e.info.FaultHit = true
			e.info.class("fault:" + out.String() + ":" + p.Op)
			e.mu.Unlock()
		}
		e.mu.Lock()
		e.ws[mv.w].sawStorage = true
		e.logf("release w%d: %s(%s) -> %s", mv.w, p.Op, p.Key, out)
		e.mu.Unlock()
		e.g.Release(mv.w, out)
	case mCancel:
		w := e.ws[mv.w]
		e.mu.Lock()
		pos := "local_wait"
		if p := e.g.PendingOf(w.idx); p != nil {
			pos = "gate_before_" + p.Op
		} else if w.inWait {
			pos = "inside_storage_wait"
		}
		e.info.class("cancel:" + pos)
		e.info.CancelHit = true
		w.cancelled = true
		e.logf("cancel w%d (%s)", w.idx, pos)
		e.mu.Unlock()
		w.cancel()
		if e.c.Mode == "C04" {
			// the attempt must now end: let its own pending call (if any) go and look at the result
			synctest.Wait()
			atErr := func() bool { p := e.g.PendingOf(w.idx); return p != nil && p.Op == "ctxerr" }
			if !atErr() && e.g.PendingOf(w.idx) != nil {
				e.g.Release(w.idx, gated.OK)
			}
			synctest.Wait()
			if !atErr() && e.g.PendingOf(w.idx) != nil { // e.g. a Create that followed a wait which had already been satisfied
				e.g.Release(w.idx, gated.OK)
				synctest.Wait()
			}
			if atErr() {
				// the attempt has noticed the cancellation and is parked before its clean-up: later moves decide when it goes on
				e.mu.Lock()
				e.info.class("cancel:parked_before_cleanup")
				e.logf("w%d parked at its ctx.Err() call", w.idx)
				e.mu.Unlock()
				break
			}
			e.mu.Lock()
			switch {
			case w.running:
				e.setViol("cancel-not-honoured", "worker %d: %s is still blocked after its context was cancelled (%s) and its pending storage call was let go", w.idx, kindName(w.cur.round.Kind), pos)
			case w.lastOK && strings.HasPrefix(pos, "gate_before_reply:"):
				// the storage had already created the record when the context ended: acquiring is fine (giving up is fine
				// too, as long as nothing is left behind - checked at the end)
			case w.lastOK:
				e.setViol("acquired-although-cancelled", "worker %d: %s acquired the lock although its context had been cancelled while it was parked (%s)", w.idx, kindName(w.cur.round.Kind), pos)
			case w.cur.round.Kind == KLockWithCtx && !errors.Is(w.lastErr, context.Canceled) && !(e.down[e.provOf(w)] && gerrors.Is(w.lastErr, gerrors.ErrClosed)):
				e.setViol("cancel-wrong-error", "worker %d: LockWithCtx returned %v after its context was cancelled, want the context's error", w.idx, w.lastErr)
			}
			e.mu.Unlock()
		}
	case mLapse:
		e.mu.Lock()
		e.lapses++
		e.info.class("lapse_of_orphan_record")
		e.logf("lapse n%d (record without a live holder disappears)", mv.n)
		e.mu.Unlock()
		e.inner.Delete(context.Background(), e.key(mv.n))
	case mShutdown:
		e.mu.Lock()
		if e.parkedAttempts(mv.n) > 0 {
			e.info.ShutdownHit = true
		}
		e.down[mv.n] = true
		// an attempt that is still at the entry of its local wait (it has not taken the token) must fail from now on
		for _, w := range e.ws {
			if w.running && !w.cur.unlock && e.provOf(w) == mv.n {
				if p := e.g.PendingOf(w.idx); p != nil && p.Op == "ctxdone" {
					w.afterShutdown = true
					e.info.class("shutdown_while_entering_local_wait")
				}
			}
		}
		e.info.class("shutdown")
		e.logf("shutdown provider %d", mv.n)
		e.mu.Unlock()
		e.provs[mv.n].Shutdown()
	}
}

// check runs the invariants at a quiescent point.
func (e *eng) check() *vstat.Violation {
	e.mu.Lock()
	defer e.mu.Unlock()
	if e.viol != nil {
		return e.viol
	}
	for n, h := range e.holders {
		if h > 1 {
			return vstat.V("two-holders", "lock n%d has %d holders", n, h)
		}
		if h < 0 {
			panic("harness: negative holder count")
		}
	}
	unlocking := make([]bool, e.c.Names)
	for _, w := range e.ws {
		if w.running && w.cur.unlock {
			unlocking[e.nameOf(w)] = true
		}
	}
	for n := 0; n < e.c.Names; n++ {
		_, err := e.inner.Get(context.Background(), e.key(n))
		exists := err == nil
		if e.faultsHit == 0 && e.lapses == 0 && e.holders[n] == 1 && !exists {
			return vstat.V("holder-without-record", "a caller holds lock n%d but the lock record is not in the storage (no fault was injected)", n)
		}
		if e.c.Mode == "C04" && exists && e.holders[n] == 0 && !unlocking[n] && !e.acquiring(n) {
			return vstat.V("record-left-behind", "nobody holds lock n%d and no Unlock is in progress, but its record is still in the storage", n)
		}
	}
	for _, w := range e.ws {
		if w.running || w.finished == 0 || w.cur.unlock {
			continue
		}
		// verdicts on the attempt that has just completed (idempotent: re-evaluated while the worker is idle)
		kind := w.cur.round.Kind
		if w.afterShutdown && w.lastOK {
			return vstat.V("acquired-after-shutdown", "worker %d: %s started after Shutdown() of its provider had returned, and acquired the lock", w.idx, kindName(kind))
		}
		if e.c.Mode == "C04" && !w.afterShutdown && !e.down[e.provOf(w)] && !w.cancelled {
			if kind == KLock && w.lastPanic != nil {
				return vstat.V("lock-panic", "worker %d: Lock() panicked without any fault, cancellation or shutdown: %v", w.idx, w.lastPanic)
			}
			if kind == KLockWithCtx && w.lastErr != nil {
				return vstat.V("lockwithctx-error", "worker %d: LockWithCtx with a live context failed without any fault or shutdown: %v", w.idx, w.lastErr)
			}
		}
		if kind == KTryLock && w.lastPanic != nil {
			return vstat.V("trylock-panic", "worker %d: TryLock panicked: %v", w.idx, w.lastPanic)
		}
		if kind == KLockWithCtx && w.lastPanic != nil {
			return vstat.V("lockwithctx-panic", "worker %d: LockWithCtx panicked: %v", w.idx, w.lastPanic)
		}
		if w.cancelled && w.cur.round.Pre && w.lastOK && e.c.Mode == "C04" {
			return vstat.V("acquired-although-cancelled", "worker %d: %s acquired the lock with a context that was cancelled before the call", w.idx, kindName(kind))
		}
		if w.cancelled && kind == KLockWithCtx && !w.lastOK && e.c.Mode == "C04" && !errors.Is(w.lastErr, context.Canceled) && !gerrors.Is(w.lastErr, gerrors.ErrClosed) {
			return vstat.V("cancel-wrong-error", "worker %d: LockWithCtx returned %v although its context is cancelled, want the context's error", w.idx, w.lastErr)
		}
	}
	return nil
}

// Run executes one case in a bubble. found (may be nil) is called with the verdict before the bubble is torn
// down, so that a violation is on record even if the broken code cannot be brought to quiescence any more.
func Run(t *testing.T, c Case, found func(v *vstat.Violation, trace []string)) (info Info, v *vstat.Violation, trace []string) {
	var teardownErr string
	synctest.Test(t, func(*testing.T) {
		e := &eng{c: c, info: &info}
		v = vstat.Guard("distlock:panic", func() *vstat.Violation { return e.run() })
		if v != nil && found != nil {
			found(v, e.trace)
		}
		teardownErr = e.teardown()
		trace = e.trace
	})
	if teardownErr != "" && v == nil {
		v = vstat.V("teardown", "%s", teardownErr)
	}
	return
}

func (e *eng) run() *vstat.Violation {
	c := e.c
	resetTimers()
	e.inner = inmem.New()
	e.g = gated.New(e.inner)
	e.g.HonourCtx = c.HonourCtx
	e.g.InjectErr = transientErr(c.FaultErr)
	e.faultAt = map[int]int{}
	for _, f := range c.Faults {
		if f.Kind == 1 || f.Kind == 2 {
			e.faultAt[f.At] = f.Kind
		}
	}
	e.holders = make([]int, c.Names)
	e.down = make([]bool, c.Providers)
	for p := 0; p < c.Providers; p++ {
		e.provs = append(e.provs, dist.NewKvsLockProvider(e.g, c.path()))
	}
	for _, lc := range c.Lockers {
		e.lockers = append(e.lockers, e.provs[lc.Provider].NewLocker(c.lockName(lc.Name)))
	}
	e.g.Observe = func(w int, op, key string, err error) {
		e.mu.Lock()
		defer e.mu.Unlock()
		switch op {
		case "create":
			if gerrors.Is(err, gerrors.ErrExist) {
				e.info.Contended = true
			}
		case "wait-enter":
			e.ws[w].inWait = true
		case "wait":
			e.ws[w].inWait = false
		}
	}
	for i, wc := range c.Workers {
		w := &wk{idx: i, cfg: wc, cmd: make(chan command, 1)}
		e.ws = append(e.ws, w)
		go e.workerLoop(w)
	}
	synctest.Wait()
	maxSteps := len(c.Decs) + 600
	for step := 0; step < maxSteps; step++ {
		m := e.enabled()
		var d Dec
		drain := step >= len(c.Decs)
		if !drain {
			d = c.Decs[step]
		}
		mv, ok := choose(m, d, drain)
		if !ok {
			break
		}
		e.info.Steps++
		e.apply(mv)
		synctest.Wait()
		if v := e.check(); v != nil {
			return v
		}
	}
	e.info.GatedCalls = e.g.Released
	// drain is over: nobody may be left inside a call
	e.mu.Lock()
	var stuck []string
	for _, w := range e.ws {
		if w.running {
			where := "local wait"
			if w.inWait {
				where = "storage wait"
			}
			if w.cur.unlock {
				where = "Unlock"
			}
			stuck = append(stuck, fmt.Sprintf("w%d in %s (%s)", w.idx, kindName(w.cur.round.Kind), where))
		}
	}
	e.mu.Unlock()
	if len(stuck) > 0 {
		e.info.Stuck = true
		if c.Mode == "C04" {
			return vstat.V("lost-wakeup", "no move is possible any more (no pending storage call, no holder left to unlock) but work remains: %v", stuck)
		}
		return nil
	}
	if c.Mode == "C04" {
		return e.residue()
	}
	return nil
}

// residue: once every holder has unlocked, nothing is left behind and everybody can acquire again.
func (e *eng) residue() *vstat.Violation {
	ctx := context.Background()
	it, err := e.inner.ListKeys(ctx, "*")
	if err == nil {
		var left []string
		for it.HasNext() {
			k, ok := it.Next()
			if !ok {
				break
			}
			left = append(left, k)
		}
		it.Close()
		if len(left) > 0 {
			return vstat.V("record-left-behind", "every holder has unlocked but the storage still holds %q", left)
		}
	}
	if ent, n, ok := waiterTable(e.inner); ok && (ent != 0 || n != 0) {
		return vstat.V("waiter-table-residue", "every attempt has ended but the storage's waiter table has %d entries / %d waiters", ent, n)
	}
	e.g.Open()
	for i, lk := range e.lockers {
		if e.down[e.c.Lockers[i].Provider] {
			var got bool
			p := func() (p any) {
				defer func() { p = recover() }()
				got = lk.TryLock(ctx)
				return nil
			}()
			if p == nil && got {
				return vstat.V("acquired-after-shutdown", "TryLock on locker %d succeeded after Shutdown() of its provider", i)
			}
			continue
		}
		var got bool
		p := func() (p any) {
			defer func() { p = recover() }()
			got = lk.TryLock(ctx)
			if got {
				lk.Unlock()
			}
			return nil
		}()
		if p != nil {
			return vstat.V("reacquire-panic", "after every holder unlocked, TryLock/Unlock on locker %d panicked: %v", i, p)
		}
		if !got {
			return vstat.V("cannot-reacquire", "after every holder unlocked (and every failed or cancelled attempt ended) TryLock on locker %d (lock n%d) returns false", i, e.c.Lockers[i].Name)
		}
	}
	return nil
}

// teardown frees every goroutine of the case so that the bubble can be left.
func (e *eng) teardown() string {
	if e.g == nil {
		return ""
	}
	for _, w := range e.ws {
		e.mu.Lock()
		if w.cancel != nil {
			w.cancel()
		}
		e.mu.Unlock()
	}
	e.g.Open()
	busy := func() int {
		e.mu.Lock()
		defer e.mu.Unlock()
		n := 0
		for _, w := range e.ws {
			if w.running {
				n++
			}
		}
		return n
	}
	for i := 0; i < len(e.ws)+3; i++ {
		synctest.Wait()
		if busy() == 0 {
			break
		}
		for n := 0; n < e.c.Names; n++ {
			e.inner.Delete(context.Background(), e.key(n))
		}
		if i >= 1 {
			for p := range e.provs {
				if !e.down[p] {
					e.down[p] = true
					e.provs[p].Shutdown()
				}
			}
		}
	}
	synctest.Wait()
	for i := 0; i < len(e.ws)+2 && busy() > 0; i++ {
		// last resort: let fake time pass just beyond one lease, so that whoever waits on a record's expiry gives
		// up and moves on. The renewal timers armed meanwhile (lease/2 later) are dropped before the next round:
		// the timeout package must never reach a firing time inside a bubble (DESIGN.md §2.2).
		drainTimers()
		time.Sleep(10*time.Second + time.Millisecond)
		synctest.Wait()
		for n := 0; n < e.c.Names; n++ {
			e.inner.Delete(context.Background(), e.key(n))
		}
		synctest.Wait()
	}
	left := busy()
	if left == 0 {
		for _, w := range e.ws {
			close(w.cmd)
		}
	}
	drainTimers()
	for i := 0; i < 2000 && timerWorkers() > 0; i++ {
		time.Sleep(time.Millisecond)
	}
	synctest.Wait()
	if left > 0 {
		// goroutines parked forever inside the lock code: the bubble cannot be left cleanly
		panic(fmt.Sprintf("VERIF-TEARDOWN: %d worker(s) could not be freed; trace:\n%v", left, e.trace))
	}
	if n := timerWorkers(); n > 0 {
		return fmt.Sprintf("%d timer pool goroutines did not wind down after the case", n)
	}
	return ""
}
