//go:build nohooks

package p_distlock

import (
	"time"

	"github.com/acquirecloud/golibs/kvs"
)

// Without the timeout hooks the lock cannot run inside a bubble: the tests skip themselves.
const hooksOn = false

func resetTimers()                                {}
func drainTimers()                                {}
func timerWorkers() int                           { return 0 }
func waiterTable(st kvs.Storage) (int, int, bool) { return 0, 0, false }

func setLease(d time.Duration) time.Duration { return d }
