package p_distlock

import (
	"context"
	"errors"
	"fmt"
	"runtime"

	"github.com/acquirecloud/golibs/kvs"
	kvredis "github.com/acquirecloud/golibs/kvs/redis"
	"github.com/alicebob/miniredis/v2"
	goredis "github.com/go-redis/redis/v8"
	"sync"
	"sync/atomic"
	"testing"
	"time"

	dist "github.com/acquirecloud/golibs/kvs/distlock"
	"github.com/acquirecloud/golibs/kvs/inmem"
	gsync "github.com/acquirecloud/golibs/sync"
	"pgregory.net/rapid"
	"verifharness/internal/vstat"
)

// StressCase: free-running goroutines on the real clock, no gates - the statistical probe of
// interleavings below storage-operation granularity (run with -race in the thorough tier).
type StressCase struct {
	Providers int     `json:"providers"`
	Lockers   []int   `json:"lockers"` // provider of each Locker object (all for one lock name)
	Workers   []int   `json:"workers"` // Locker used by each worker
	Kinds     [][]int `json:"kinds"`   // per worker, per round: acquire kind
	Yields    [][]int `json:"yields"`
	Redis     bool    `json:"redis,omitempty"` // storage = the Redis backend over an own miniredis server
	// FailEvery > 0: every FailEvery-th Create call of the storage is lost (a transient error, nothing applied): attempts fail
	// after they took the Locker's local token and must give it back cleanly (no Lock() kinds in such a case: Lock panics on
	// a storage error by design)
	FailEvery int `json:"fail_every,omitempty"`
}

type lossyCreate struct {
	kvs.Storage
	n     atomic.Int64
	every int64
	off   atomic.Bool
}

func (l *lossyCreate) Create(ctx context.Context, r kvs.Record) (string, error) {
	if !l.off.Load() && l.n.Add(1)%l.every == 0 {
		return "", errInjectedCreate
	}
	return l.Storage.Create(ctx, r)
}

var errInjectedCreate = errors.New("injected: the Create request was lost")

func runStress(c StressCase) *vstat.Violation {
	resetTimers()
	defer drainTimers()
	var st kvs.Storage = inmem.New()
	if c.Redis {
		m, err := miniredis.Run()
		if err != nil {
			return nil // infrastructure, not a verdict
		}
		defer m.Close()
		rs := kvredis.New(&goredis.Options{Addr: m.Addr(), PoolSize: 32})
		defer rs.(interface{ Close() error }).Close()
		st = rs
	}
	var lossy *lossyCreate
	if c.FailEvery > 0 {
		lossy = &lossyCreate{Storage: st, every: int64(c.FailEvery)}
		st = lossy
	}
	var provs []dist.LockProvider
	for i := 0; i < c.Providers; i++ {
		provs = append(provs, dist.NewKvsLockProvider(st, lockPath))
	}
	defer func() {
		for _, p := range provs {
			p.Shutdown()
		}
	}()
	var lockers []gsync.Locker
	for _, p := range c.Lockers {
		lockers = append(lockers, provs[p].NewLocker("stress"))
	}
	var inCS atomic.Int32
	var viol atomic.Pointer[vstat.Violation]
	var acquired atomic.Int64
	var wg sync.WaitGroup
	start := make(chan struct{})
	for wi, li := range c.Workers {
		wg.Add(1)
		go func(wi int, lk gsync.Locker) {
			defer wg.Done()
			defer func() {
				if p := recover(); p != nil {
					viol.CompareAndSwap(nil, vstat.V("stress-panic", "worker %d: the lock code panicked: %v", wi, p))
				}
			}()
			<-start
			for r, kind := range c.Kinds[wi] {
				if viol.Load() != nil {
					return // somebody has a verdict already: do not spend the budget on the wreckage
				}
				got := false
				switch kind {
				case KLock:
					lk.Lock()
					got = true
				case KTryLock:
					for try := 0; try < 2000 && !got; try++ {
						got = lk.TryLock(context.Background())
						if !got {
							runtime.Gosched()
						}
					}
				case KLockWithCtx:
					patience := 20 * time.Second
					if c.FailEvery > 0 {
						patience = 3 * time.Second // attempts fail quickly here; a token that got lost must not cost minutes
					}
					ctx, cancel := context.WithTimeout(context.Background(), patience)
					err := lk.LockWithCtx(ctx)
					got = err == nil
					if err != nil && ctx.Err() == nil && !(c.FailEvery > 0 && errors.Is(err, errInjectedCreate)) {
						viol.CompareAndSwap(nil, vstat.V("lockwithctx-error", "worker %d: LockWithCtx with a live context failed: %v", wi, err))
					}
					cancel()
				}
				if !got {
					continue
				}
				acquired.Add(1)
				if n := inCS.Add(1); n != 1 {
					viol.CompareAndSwap(nil, vstat.V("two-holders", "worker %d entered the critical section through %s while %d other caller(s) were inside", wi, kindName(kind), n-1))
				}
				for y := 0; y < c.Yields[wi][r]; y++ {
					runtime.Gosched()
				}
				inCS.Add(-1)
				lk.Unlock()
			}
		}(wi, lockers[li])
	}
	close(start)
	done := make(chan struct{})
	go func() { wg.Wait(); close(done) }()
	select {
	case <-done:
	case <-time.After(map[bool]time.Duration{false: 120 * time.Second, true: 40 * time.Second}[c.FailEvery > 0]):
		if v := viol.Load(); v != nil {
			return v
		}
		return vstat.V("stress-stuck", "the free-running workers did not finish within their wall-clock budget (acquired %d times)", acquired.Load())
	}
	if v := viol.Load(); v != nil {
		return v
	}
	// once every holder has unlocked nothing is left behind
	if it, err := st.ListKeys(context.Background(), lockPath+"*"); err == nil {
		var left []string
		for it.HasNext() {
			k, ok := it.Next()
			if !ok {
				break
			}
			left = append(left, k)
		}
		it.Close()
		if len(left) > 0 {
			return vstat.V("record-left-behind", "every worker has finished and unlocked, but the storage still holds %q", left)
		}
	}
	for i, lk := range lockers {
		if lossy != nil {
			lossy.off.Store(true) // the storage answers again
		}
		if ok := lk.TryLock(context.Background()); !ok {
			return vstat.V("cannot-reacquire", "every worker has finished and unlocked, but TryLock on locker %d returns false", i)
		}
		lk.Unlock()
	}
	return nil
}

func TestC01Stress(t *testing.T) {
	if !hooksOn {
		t.Skip("timeout hooks unavailable")
	}
	st := vstat.For("C01")
	rapid.Check(t, func(rt *rapid.T) {
		c := StressCase{Providers: rapid.IntRange(1, 2).Draw(rt, "providers")}
		nl := rapid.IntRange(2, 4).Draw(rt, "lockers")
		for i := 0; i < nl; i++ {
			c.Lockers = append(c.Lockers, rapid.IntRange(0, c.Providers-1).Draw(rt, "prov"))
		}
		nw := rapid.IntRange(2, 8).Draw(rt, "workers")
		for i := 0; i < nw; i++ {
			c.Workers = append(c.Workers, rapid.IntRange(0, nl-1).Draw(rt, "locker"))
			nr := rapid.IntRange(1, 30).Draw(rt, "rounds")
			var ks, ys []int
			for r := 0; r < nr; r++ {
				ks = append(ks, rapid.SampledFrom([]int{KLock, KLock, KTryLock, KLockWithCtx}).Draw(rt, "kind"))
				ys = append(ys, rapid.IntRange(0, 3).Draw(rt, "yield"))
			}
			c.Kinds = append(c.Kinds, ks)
			c.Yields = append(c.Yields, ys)
		}
		v := runStress(c)
		if v != nil && v.Sig == "stress-stuck" {
			st.Inconclusivef("stress case hit its wall-clock budget: %s", v.Msg)
			v = nil
		}
		st.Report(rt, "TestC01Stress", c, v)
		distinct := map[int]bool{}
		for _, l := range c.Workers {
			distinct[l] = true
		}
		st.Case(len(distinct) >= 2, vstat.Hash(c), func() any { return c }, "stress_free_running", fmt.Sprintf("stress_workers_%d", len(c.Workers)))
	})
}

// TestC04SharedFail: many goroutines share one or two Locker objects and their attempts keep failing in the storage phase
// (every k-th Create is lost; k = 1: all of them): each failed attempt must give the local token back in a state in which
// the next goroutine can use it - no panic, nobody stuck, nothing left behind, everybody can acquire afterwards.
func TestC04SharedFail(t *testing.T) {
	if !hooksOn {
		t.Skip("timeout hooks unavailable")
	}
	st := vstat.For("C04")
	rapid.Check(t, func(rt *rapid.T) {
		c := StressCase{Providers: 1, FailEvery: rapid.SampledFrom([]int{1, 1, 2, 3, 5}).Draw(rt, "failEvery")}
		nl := rapid.IntRange(1, 2).Draw(rt, "lockers")
		for i := 0; i < nl; i++ {
			c.Lockers = append(c.Lockers, 0)
		}
		nw := rapid.IntRange(4, 16).Draw(rt, "workers")
		tryPct := rapid.SampledFrom([]int{0, 0, 10, 25}).Draw(rt, "tryLockPct") // mostly blocking attempts: they queue on the local token
		for i := 0; i < nw; i++ {
			c.Workers = append(c.Workers, i%nl)
			nr := rapid.IntRange(100, 600).Draw(rt, "rounds")
			var ks, ys []int
			for r := 0; r < nr; r++ {
				k := KLockWithCtx
				if (r*7+i*13)%100 < tryPct {
					k = KTryLock
				}
				ks = append(ks, k)
				ys = append(ys, (r+i)%2)
			}
			c.Kinds = append(c.Kinds, ks)
			c.Yields = append(c.Yields, ys)
		}
		v := runStress(c)
		if v != nil && v.Sig == "stress-stuck" {
			if v2 := runStress(c); v2 == nil || v2.Sig != "stress-stuck" {
				st.Inconclusivef("shared-locker case hit its wall-clock budget once: %s", v.Msg)
				v = v2
			}
		}
		st.Report(rt, "TestC04SharedFail", c, v)
		st.Case(true, vstat.Hash(c), func() any { return c }, "shared_locker_with_failing_attempts", fmt.Sprintf("shared_locker_create_lost_every:%d", c.FailEvery))
	})
}

// TestC04Redis: hand-off chains over the Redis backend (its Create is SETNX + GET, its wait is polling): every blocking
// attempt with a live context gets the lock, nothing is left behind, everybody can acquire again.
func TestC04Redis(t *testing.T) {
	if !hooksOn {
		t.Skip("timeout hooks unavailable")
	}
	st := vstat.For("C04")
	rapid.Check(t, func(rt *rapid.T) {
		c := StressCase{Providers: rapid.IntRange(1, 2).Draw(rt, "providers"), Redis: true}
		nl := rapid.IntRange(2, 4).Draw(rt, "lockers")
		for i := 0; i < nl; i++ {
			c.Lockers = append(c.Lockers, rapid.IntRange(0, c.Providers-1).Draw(rt, "prov"))
		}
		nw := rapid.IntRange(2, 6).Draw(rt, "workers")
		for i := 0; i < nw; i++ {
			c.Workers = append(c.Workers, i%nl)
			nr := rapid.IntRange(1, 12).Draw(rt, "rounds")
			var ks, ys []int
			for r := 0; r < nr; r++ {
				ks = append(ks, rapid.SampledFrom([]int{KLock, KLock, KTryLock, KLockWithCtx, KLockWithCtx}).Draw(rt, "kind"))
				ys = append(ys, rapid.IntRange(0, 2).Draw(rt, "yield"))
			}
			c.Kinds = append(c.Kinds, ks)
			c.Yields = append(c.Yields, ys)
		}
		v := runStress(c)
		if v != nil && v.Sig == "stress-stuck" {
			if v2 := runStress(c); v2 == nil || v2.Sig != "stress-stuck" {
				st.Inconclusivef("redis hand-off case hit its wall-clock budget once: %s", v.Msg)
				v = v2
			} else {
				v = vstat.V("lost-wakeup", "free-running hand-off over the Redis backend: %s (twice)", v.Msg)
			}
		}
		st.Report(rt, "TestC04Redis", c, v)
		st.Case(true, vstat.Hash(c), func() any { return c }, "redis_backend_handoff")
	})
}
