package p_distlock

import (
	"context"
	"fmt"
	"github.com/acquirecloud/golibs/timeout"
	"io"
	"os"
	"sync"
	"sync/atomic"
	"time"

	gerrors "github.com/acquirecloud/golibs/errors"
	"github.com/acquirecloud/golibs/kvs"
	dist "github.com/acquirecloud/golibs/kvs/distlock"
	"github.com/acquirecloud/golibs/kvs/inmem"
	"verifharness/internal/gated"
	"verifharness/internal/vstat"
)

// ---------------------------------------------------------------------------------------------
// C05: lease kept while held, lapses after holder death, renewal dies out after Unlock (real clock)

// LeaseScenario is one generated scenario.
type LeaseScenario struct {
	Kind        string        `json:"kind"`                   // hold | death | unlockrace
	LeaseMs     int           `json:"lease_ms"`               // lease period
	Periods     int           `json:"periods,omitempty"`      // hold: duration in lease periods
	FailCas     []int         `json:"fail_cas,omitempty"`     // hold: renewal calls (1-based) that fail transiently
	PhasePct    int           `json:"phase_pct,omitempty"`    // death: the holder dies at this % of the lease after locking or after a renewal
	Renewals    int           `json:"renewals,omitempty"`     // death: number of successful renewals before the death
	After       bool          `json:"after,omitempty"`        // unlockrace: the renewal in flight is applied before Unlock runs
	Same        bool          `json:"same,omitempty"`         // handoff: the second tenure is on the same Locker object (else on another provider's)
	DelayPct    int           `json:"delay_pct,omitempty"`    // hold: every renewal call takes this % of the lease to reach the storage
	ReplyPct    int           `json:"reply_pct,omitempty"`    // hold: the reply of every applied renewal call takes this % of the lease to come back
	HonourAll   bool          `json:"honour_all,omitempty"`   // hold: the storage honours the context of a call for the whole time the call is on its way (a remote storage), not only at its start
	Waiters     int           `json:"waiters,omitempty"`      // death: number of lockers parked in Lock() when the holder dies (default 1)
	Wait10      int           `json:"wait10,omitempty"`       // waithold: the second locker waits this many tenths of a lease in Lock() before it gets the lock
	OnlyExcl    bool          `json:"only_excl,omitempty"`    // waithold: judge mutual exclusion only (C01), not the stored record (C05)
	Acquire     string        `json:"acquire,omitempty"`      // hold: "" = Lock(); "lockctx" / "trylock": acquired with a context that is cancelled right after the acquisition, on a storage that refuses done contexts
	Early       bool          `json:"early,omitempty"`        // relock: the late reply of the first tenure's renewal arrives between Unlock and the re-lock (Wait10 hundredths of a lease before it) instead of after it
	Busy        bool          `json:"busy,omitempty"`         // relock (with Early): a callback of another user of the process-wide timer pool occupies a pool worker across the moment the second tenure's first renewal is due
	HoldCreate  bool          `json:"hold_create,omitempty"`  // relock: the Create of the second tenure is in flight while the late renewal of the first completes
	Hold10      int           `json:"hold10,omitempty"`       // unlockfail: the lock is held this many tenths of a lease before the failing Unlock
	Applied     bool          `json:"applied,omitempty"`      // unlockfail: the Delete is applied and only its reply is lost
	Blocking    bool          `json:"blocking,omitempty"`     // hold: the contender tries with a blocking LockWithCtx (a tenth of a lease) instead of TryLock
	Shared      int           `json:"shared,omitempty"`       // hold: a second goroutine uses the holder's Locker meanwhile: 1 = its LockWithCtx is cancelled while it waits for the token, 2 = its TryLock fails
	Warm        int           `json:"warm,omitempty"`         // multi, relock: this many callbacks due at once were run through the process-wide timer pool (and the pool left idle) before the first lock is taken
	CancelFirst bool          `json:"cancel_first,omitempty"` // death: the waiter that started waiting first gives up (its context is cancelled) before the dead holder's record expires
	ErrKind     int           `json:"err_kind,omitempty"`     // hold: what the failing renewal calls return: 0 a plain error, 1 wraps ErrClosed, 2 wraps ErrCommunication, 3 context.DeadlineExceeded, 4 io.ErrUnexpectedEOF, 5 wraps ErrInternal
	InFlight    int           `json:"in_flight,omitempty"`    // unlockfail: a renewal is in flight across the Unlock: 1 held before the storage applied it, 2 after
	FailCreate  []int         `json:"fail_create,omitempty"`  // hold: the contender's k-th Create fails: k > 0 request lost, k < 0 the (-k)-th is applied and its reply lost
	Locks       int           `json:"locks,omitempty"`        // multi: number of locks one process holds
	Stagger10   int           `json:"stagger10,omitempty"`    // multi: tenths of a lease between the acquisitions
	Unlocks     []MultiUnlock `json:"unlocks,omitempty"`      // multi: which locks are unlocked when
}

// MultiUnlock: lock I is unlocked At10 tenths of a lease after the last acquisition.
type MultiUnlock struct {
	I    int `json:"i"`
	At10 int `json:"at10"`
}

// transientErr: the shapes a passing storage failure takes (never ErrNotExist / ErrConflict, which are answers).
func transientErr(kind int) error {
	switch kind {
	case 1:
		return fmt.Errorf("connection reset, reconnecting: %w", gerrors.ErrClosed)
	case 2:
		return fmt.Errorf("storage unreachable: %w", gerrors.ErrCommunication)
	case 3:
		return context.DeadlineExceeded
	case 4:
		return io.ErrUnexpectedEOF
	case 5:
		return fmt.Errorf("storage hiccup: %w", gerrors.ErrInternal)
	}
	return nil
}

// parkCtx parks the first call the lock code makes to any of its methods until the harness lets it go (a schedule
// point wherever the lock code consults the caller's context).
type parkCtx struct {
	context.Context
	once            sync.Once
	reached, resume chan struct{}
}

func newParkCtx(parent context.Context) *parkCtx {
	return &parkCtx{Context: parent, reached: make(chan struct{}), resume: make(chan struct{})}
}

func (c *parkCtx) park() {
	if calledFromLockCode() {
		c.once.Do(func() { close(c.reached); <-c.resume })
	}
}
func (c *parkCtx) Err() error                  { c.park(); return c.Context.Err() }
func (c *parkCtx) Done() <-chan struct{}       { c.park(); return c.Context.Done() }
func (c *parkCtx) Deadline() (time.Time, bool) { c.park(); return c.Context.Deadline() }

var leaseMu sync.Mutex

func newProvider(st kvs.Storage, lease time.Duration) dist.LockProvider {
	leaseMu.Lock()
	defer leaseMu.Unlock()
	old := setLease(lease)
	p := dist.NewKvsLockProvider(st, lockPath)
	setLease(old)
	return p
}

const leaseKey = lockPath + "lease"

// LeaseInfo classifies a scenario run.
type LeaseInfo struct {
	InjectedFailures int
	HeldInFlight     bool
	Samples          int
	Retried          int
	Overloaded       bool // a time-bound verdict was dropped because the machine was found overloaded
}

type exactViolation struct{ *vstat.Violation }

// RunLease runs a scenario; a failure that depends on real-time bounds is confirmed by re-running the
// scenario with the lease doubled (twice) before it is reported. Lower-bound ("too early") verdicts are
// exact and are never retried.
func RunLease(s LeaseScenario) (info LeaseInfo, v *vstat.Violation) {
	// lease periods of the confirmation runs: 4x, then at least 2 s
	leases := []int{s.LeaseMs, max(4*s.LeaseMs, 1000), max(8*s.LeaseMs, 2000)}
	for attempt, ms := range leases {
		ss := s
		ss.LeaseMs = ms
		info2, v2, exact := runLease(ss)
		info2.Retried = attempt
		info, v = info2, v2
		if v == nil || exact {
			return
		}
	}
	// a verdict that rests on a time bound is only as good as the machine's scheduling: measure it now
	if noise := schedulingNoise(); noise > time.Duration(leases[len(leases)-1])*time.Millisecond/16 {
		info.Overloaded = true // the caller notes it as inconclusive
		v = nil
	}
	return
}

// schedulingNoise: how late sleeping goroutines of this process wake up at the moment (worst of 4 x 25 sleeps of 4 ms).
func schedulingNoise() time.Duration {
	var worst atomic.Int64
	var wg sync.WaitGroup
	for g := 0; g < 4; g++ {
		wg.Add(1)
		go func() {
			defer wg.Done()
			for i := 0; i < 25; i++ {
				t := time.Now()
				time.Sleep(4 * time.Millisecond)
				if over := int64(time.Since(t) - 4*time.Millisecond); over > worst.Load() {
					worst.Store(over)
				}
			}
		}()
	}
	wg.Wait()
	return time.Duration(worst.Load())
}

func runLease(s LeaseScenario) (info LeaseInfo, v *vstat.Violation, exact bool) {
	defer func() {
		if p := recover(); p != nil {
			v, exact = vstat.V("lease:panic", "the lock code panicked: %v", p), true
		}
	}()
	switch s.Kind {
	case "hold":
		return runHold(s)
	case "death":
		return runDeath(s)
	case "unlockrace":
		return runUnlockRace(s)
	case "handoff":
		return runHandoff(s)
	case "waithold":
		return runWaitHold(s)
	case "bystander":
		return runBystander(s)
	case "relock":
		return runRelock(s)
	case "unlockfail":
		return runUnlockFail(s)
	case "multi":
		return runMulti(s)
	case "sharedhandoff":
		return runSharedHandoff(s)
	case "trygate":
		return runTryGate(s)
	case "tryfail":
		return runTryFail(s)
	}
	panic("bad scenario " + s.Kind)
}

func describeEvents(ev []gated.Event, t0 time.Time) string {
	out := ""
	for _, e := range ev {
		out += fmt.Sprintf("\n    +%6.1fms %s applied=%v err=%v", float64(e.T.Sub(t0).Microseconds())/1000, e.Op, e.Applied, e.Err)
	}
	return out
}

// hold: A holds for n lease periods while some renewal calls fail; the record never expires and a
// contender stays excluded; after Unlock the contender gets the lock.
func runHold(s LeaseScenario) (info LeaseInfo, v *vstat.Violation, exact bool) {
	L := time.Duration(s.LeaseMs) * time.Millisecond
	inner := inmem.New()
	fa, fb := gated.NewFaulty(inner), gated.NewFaulty(inner)
	for _, k := range s.FailCas {
		fa.FailCas(k)
	}
	fa.CasDelay = L * time.Duration(s.DelayPct) / 100
	fa.CasReplyDelay = L * time.Duration(s.ReplyPct) / 100
	fa.HonourCtx = s.HonourAll
	fa.CasErr = transientErr(s.ErrKind)
	for _, k := range s.FailCreate {
		if k > 0 {
			fb.FailCreate(k, false)
		} else {
			fb.FailCreate(-k, true)
		}
	}
	pa, pb := newProvider(fa, L), newProvider(fb, L)
	defer pa.Shutdown()
	defer pb.Shutdown()
	a, b := pa.NewLocker("lease"), pb.NewLocker("lease")
	ctx := context.Background()
	t0 := time.Now()
	switch s.Acquire {
	case "lockctx-deadline", "trylock-deadline":
		// the context carries a deadline a quarter of a lease ahead and is simply left to run out while the lock is held
		fa.HonourCtx = true
		actx, cancel := context.WithTimeout(ctx, L/4)
		defer cancel()
		if s.Acquire == "lockctx-deadline" {
			if err := a.LockWithCtx(actx); err != nil {
				return info, vstat.V("lease:cannot-acquire", "LockWithCtx on a free lock returned %v", err), true
			}
		} else if !a.TryLock(actx) {
			return info, vstat.V("lease:cannot-acquire", "TryLock on a free lock returned false"), true
		}
	case "lockctx", "trylock":
		// the context bounds the acquisition only; once the call has returned, the caller is done with it
		fa.HonourCtx = true
		actx, cancel := context.WithCancel(ctx)
		if s.Acquire == "lockctx" {
			if err := a.LockWithCtx(actx); err != nil {
				cancel()
				return info, vstat.V("lease:cannot-acquire", "LockWithCtx on a free lock returned %v", err), true
			}
		} else if !a.TryLock(actx) {
			cancel()
			return info, vstat.V("lease:cannot-acquire", "TryLock on a free lock returned false"), true
		}
		cancel()
	default:
		a.Lock()
	}
	unlocked := false
	defer func() {
		if !unlocked {
			a.Unlock()
		}
	}()
	if s.Shared > 0 {
		// another goroutine of the process tries the same Locker object while it is held, and gives up
		go func() {
			time.Sleep(L / 5)
			if s.Shared == 2 {
				a.TryLock(ctx)
				return
			}
			sctx, scancel := context.WithCancel(ctx)
			go func() { time.Sleep(L / 5); scancel() }()
			a.LockWithCtx(sctx)
		}()
	}
	end := t0.Add(time.Duration(s.Periods) * L)
	for time.Now().Before(end) {
		time.Sleep(L / 5)
		info.Samples++
		now := time.Now()
		if !s.OnlyExcl {
			r, err := inner.Get(ctx, leaseKey)
			if err != nil {
				return info, vstat.V("lease:record-gone-while-held", "lease %v: %.1f leases after Lock the record of the held lock is not in the storage (%v); renewal calls so far:%s\n  calls of the contender:%s",
					L, float64(now.Sub(t0))/float64(L), err, describeEvents(fa.Events(), t0), describeEvents(fb.Events(), t0)), false
			}
			if r.ExpiresAt == nil || !r.ExpiresAt.After(now) {
				return info, vstat.V("lease:record-expired-while-held", "lease %v: %.1f leases after Lock the record's expiration %v is not in the future; renewal calls so far:%s",
					L, float64(now.Sub(t0))/float64(L), r.ExpiresAt, describeEvents(fa.Events(), t0)), false
			}
		}
		got := false
		if s.Blocking {
			cctx, ccancel := context.WithTimeout(ctx, L/10)
			got = b.LockWithCtx(cctx) == nil
			ccancel()
		} else {
			got = b.TryLock(ctx)
		}
		if got {
			b.Unlock()
			return info, vstat.V("lease:contender-acquired-while-held", "lease %v: %.1f leases after Lock a contender acquired the lock while it is held; renewal calls so far:%s\n  calls of the contender:%s",
				L, float64(now.Sub(t0))/float64(L), describeEvents(fa.Events(), t0), describeEvents(fb.Events(), t0)), false
		}
	}
	// the renewal log shows attempts continuing after every injected failure
	ev := fa.Events()
	lastFail, lastOK := -1, -1
	for i, e := range ev {
		if e.Op != "cas" {
			continue
		}
		if e.Err == gated.ErrInjected {
			info.InjectedFailures++
			lastFail = i
		} else if e.Err == nil {
			lastOK = i
		}
	}
	if lastFail >= 0 && lastOK < lastFail && time.Since(ev[lastFail].T) > L {
		return info, vstat.V("lease:renewal-chain-died", "lease %v: no renewal succeeded after the injected failure although the lock stayed held for more than a lease; calls:%s", L, describeEvents(ev, t0)), false
	}
	a.Unlock()
	unlocked = true
	// a contender whose storage calls are not being failed by the harness
	pc := newProvider(gated.NewFaulty(inner), L)
	defer pc.Shutdown()
	c := pc.NewLocker("lease")
	if !c.TryLock(ctx) {
		return info, vstat.V("lease:not-released", "lease %v: after Unlock a contender's TryLock returns false", L), true
	}
	c.Unlock()
	return info, nil, false
}

// death: A holds, B waits in LockWithCtx; A's storage dies at some phase of the renewal cycle.
// B must acquire - not before the expiration stored at that moment, and within about one lease after it.
func runDeath(s LeaseScenario) (info LeaseInfo, v *vstat.Violation, exact bool) {
	L := time.Duration(s.LeaseMs) * time.Millisecond
	inner := inmem.New()
	fa, fb := gated.NewFaulty(inner), gated.NewFaulty(inner)
	pa, pb := newProvider(fa, L), newProvider(fb, L)
	defer pa.Shutdown()
	defer pb.Shutdown()
	a, b := pa.NewLocker("lease"), pb.NewLocker("lease")
	ctx := context.Background()
	t0 := time.Now()
	a.Lock()
	defer a.Unlock() // its Delete fails (dead storage); only frees the local state

	nw := s.Waiters
	if nw < 1 {
		nw = 1
	}
	type res struct {
		err error
		at  time.Time
	}
	done := make(chan res, nw)
	bctx, cancel := context.WithTimeout(ctx, time.Duration(4+nw)*L+10*time.Second)
	defer cancel()
	firstCtx, firstCancel := context.WithCancel(bctx)
	defer firstCancel()
	var inCS atomic.Int32
	var twoHolders atomic.Pointer[vstat.Violation]
	for i := 0; i < nw; i++ {
		bl := b
		if i > 0 {
			bl = newProvider(gated.NewFaulty(inner), L).NewLocker("lease")
		}
		go func(i int) {
			wctx := bctx
			if i == 0 && s.CancelFirst && nw > 1 {
				wctx = firstCtx
			}
			err := bl.LockWithCtx(wctx)
			at := time.Now()
			if i == 0 && s.CancelFirst && nw > 1 && err != nil {
				done <- res{nil, time.Time{}} // gave up, as planned
				return
			}
			if err == nil {
				if n := inCS.Add(1); n != 1 {
					twoHolders.CompareAndSwap(nil, vstat.V("lease:two-holders-after-death", "lease %v: after the holder died, waiter %d acquired the lock while %d other waiter(s) were holding it", L, i, n-1))
				}
				time.Sleep(3 * L / 10)
				inCS.Add(-1)
				bl.Unlock()
			}
			done <- res{err, at}
		}(i)
		if i == 0 && s.CancelFirst {
			time.Sleep(L / 20) // this one registers its storage wait before the others
		}
	}
	// wait for the requested number of successful renewals, then for the phase inside the cycle
	deadline := time.Now().Add(time.Duration(s.Renewals+2)*L + 5*time.Second)
	for {
		n := 0
		var last time.Time = t0
		for _, e := range fa.Events() {
			if e.Op == "cas" && e.Err == nil {
				n++
				last = e.T
			}
		}
		if n >= s.Renewals {
			wait := time.Until(last.Add(L / 2 * time.Duration(s.PhasePct) / 100))
			if wait > 0 {
				time.Sleep(wait)
			}
			break
		}
		if time.Now().After(deadline) {
			return info, vstat.V("lease:renewal-missing", "lease %v: only %d renewals happened within %v", L, n, time.Since(t0)), false
		}
		time.Sleep(L / 20)
	}
	fa.Kill()
	killAt := time.Now()
	if s.CancelFirst && nw > 1 {
		firstCancel() // the waiter that registered first leaves; the others must still see the record lapse
	}
	r, err := inner.Get(ctx, leaseKey)
	if err != nil {
		return info, vstat.V("lease:record-gone-while-held", "lease %v: at the moment of the holder's death the record is not in the storage: %v", L, err), false
	}
	if r.ExpiresAt == nil {
		return info, vstat.V("lease:record-without-expiry", "the lock record has no expiration, a dead holder would keep the lock forever"), true
	}
	exp := *r.ExpiresAt
	for i := 0; i < nw; i++ {
		select {
		case got := <-done:
			if got.at.IsZero() && got.err == nil {
				continue // the first waiter gave up as planned
			}
			if got.err != nil {
				return info, vstat.V("lease:waiter-failed", "lease %v: a waiting LockWithCtx returned %v after the holder's death", L, got.err), false
			}
			if got.at.Before(exp) {
				return info, vstat.V("lease:dropped-early", "lease %v: a waiter acquired the lock %v BEFORE the expiration %v of the dead holder's record (the record was dropped early)",
					L, exp.Sub(got.at), exp.Format("15:04:05.000000")), true
			}
			if i == 0 {
				if late := got.at.Sub(exp); late > L+2*time.Second {
					return info, vstat.V("lease:late-release", "lease %v: the first waiter acquired the lock %v after the record's expiration (holder died %v before it)", L, late, exp.Sub(killAt)), false
				}
			}
		case <-time.After(time.Until(exp) + time.Duration(1+nw)*L + 4*time.Second):
			return info, vstat.V("lease:never-released", "lease %v: %v after the expiration of the dead holder's record only %d of %d waiters have had the lock", L, time.Since(exp), i, nw), false
		}
	}
	if v := twoHolders.Load(); v != nil {
		return info, v, true
	}
	return info, nil, false
}

// unlockrace: Unlock races a renewal that is in flight. At most one renewal attempt reaches the storage
// after Unlock returned, none succeeds, nothing is re-created, and a new tenure works.
func runUnlockRace(s LeaseScenario) (info LeaseInfo, v *vstat.Violation, exact bool) {
	L := time.Duration(s.LeaseMs) * time.Millisecond
	inner := inmem.New()
	fa, fb := gated.NewFaulty(inner), gated.NewFaulty(inner)
	pa, pb := newProvider(fa, L), newProvider(fb, L)
	defer pa.Shutdown()
	defer pb.Shutdown()
	a, b := pa.NewLocker("lease"), pb.NewLocker("lease")
	ctx := context.Background()
	fa.HoldNextCas(s.After)
	t0 := time.Now()
	a.Lock()
	select {
	case <-fa.Held:
		info.HeldInFlight = true
	case <-time.After(L/2 + 5*time.Second):
		a.Unlock()
		return info, vstat.V("lease:renewal-missing", "lease %v: no renewal call reached the storage within %v of Lock", L, time.Since(t0)), false
	}
	a.Unlock()
	unlockedAt := time.Now()
	close(fa.Resume)
	// observe three leases
	for time.Since(unlockedAt) < 3*L {
		time.Sleep(L / 5)
		if _, err := inner.Get(ctx, leaseKey); err == nil {
			return info, vstat.V("lease:record-after-unlock", "lease %v: the lock record exists %v after Unlock returned; calls:%s", L, time.Since(unlockedAt), describeEvents(fa.Events(), t0)), true
		} else if !gerrors.Is(err, gerrors.ErrNotExist) {
			return info, vstat.V("lease:get-error", "unexpected storage error %v", err), false
		}
	}
	after, succeeded := 0, 0
	for _, e := range fa.Events() {
		if e.Op == "cas" && e.T.After(unlockedAt) {
			after++
			if e.Err == nil {
				succeeded++
			}
		}
	}
	if succeeded > 0 {
		return info, vstat.V("lease:renewal-succeeded-after-unlock", "lease %v: a renewal succeeded after Unlock had returned; calls:%s", L, describeEvents(fa.Events(), t0)), true
	}
	if after > 1 {
		return info, vstat.V("lease:renewal-continues-after-unlock", "lease %v: %d renewal attempts reached the storage after Unlock had returned (at most one already armed attempt is allowed); calls:%s", L, after, describeEvents(fa.Events(), t0)), true
	}
	// a new tenure of the same Locker is not disturbed by what is left of the old one
	if !a.TryLock(ctx) {
		return info, vstat.V("lease:cannot-reacquire", "lease %v: TryLock of the same Locker fails after Unlock", L), true
	}
	t1 := time.Now()
	for time.Since(t1) < 2*L {
		time.Sleep(L / 5)
		now := time.Now()
		r, err := inner.Get(ctx, leaseKey)
		if err != nil || r.ExpiresAt == nil || !r.ExpiresAt.After(now) {
			a.Unlock()
			return info, vstat.V("lease:second-tenure-lapsed", "lease %v: the record of the second tenure is missing or expired %v after its start (err=%v); calls:%s", L, now.Sub(t1), err, describeEvents(fa.Events(), t0)), false
		}
		if b.TryLock(ctx) {
			b.Unlock()
			a.Unlock()
			return info, vstat.V("lease:contender-acquired-while-held", "lease %v: a contender acquired the lock during the second tenure", L), false
		}
	}
	a.Unlock()
	if !b.TryLock(ctx) {
		return info, vstat.V("lease:not-released", "lease %v: after the second Unlock a contender's TryLock returns false", L), true
	}
	b.Unlock()
	return info, nil, false
}

// handoff: a first tenure ends at some phase of its renewal cycle and a second tenure starts at once. Whatever is left
// of the first tenure's renewal chain must not touch the second tenure's record: it stays present and unexpired for
// three leases and a contender stays excluded.
func runHandoff(s LeaseScenario) (info LeaseInfo, v *vstat.Violation, exact bool) {
	L := time.Duration(s.LeaseMs) * time.Millisecond
	inner := inmem.New()
	fa, fb, fc := gated.NewFaulty(inner), gated.NewFaulty(inner), gated.NewFaulty(inner)
	pa, pb, pc := newProvider(fa, L), newProvider(fb, L), newProvider(fc, L)
	defer pa.Shutdown()
	defer pb.Shutdown()
	defer pc.Shutdown()
	a, b, c := pa.NewLocker("lease"), pb.NewLocker("lease"), pc.NewLocker("lease")
	second := b
	if s.Same {
		second = a
	}
	ctx := context.Background()
	t0 := time.Now()
	a.Lock()
	// end the first tenure at the given phase of the renewal cycle (after s.Renewals renewals)
	time.Sleep(time.Duration(s.Renewals)*L/2 + L/2*time.Duration(s.PhasePct)/100)
	a.Unlock()
	second.Lock()
	t1 := time.Now()
	held := true
	defer func() {
		if held {
			second.Unlock()
		}
	}()
	for time.Since(t1) < 3*L {
		time.Sleep(L / 5)
		info.Samples++
		now := time.Now()
		r, err := inner.Get(ctx, leaseKey)
		if err != nil || r.ExpiresAt == nil || !r.ExpiresAt.After(now) {
			return info, vstat.V("lease:second-tenure-lapsed", "lease %v: %.1f leases into the second tenure its record is missing or expired (err=%v); storage calls of the first holder:%s\n  of the second:%s",
				L, float64(now.Sub(t1))/float64(L), err, describeEvents(fa.Events(), t0), describeEvents(fb.Events(), t0)), false
		}
		if c.TryLock(ctx) {
			c.Unlock()
			return info, vstat.V("lease:contender-acquired-while-held", "lease %v: %.1f leases into the second tenure a contender acquired the lock; storage calls of the first holder:%s",
				L, float64(now.Sub(t1))/float64(L), describeEvents(fa.Events(), t0)), false
		}
	}
	second.Unlock()
	held = false
	if !c.TryLock(ctx) {
		return info, vstat.V("lease:not-released", "lease %v: after the second Unlock a contender's TryLock returns false", L), true
	}
	c.Unlock()
	return info, nil, false
}

// waithold: B waits in Lock() for a good part of a lease (or several) while A holds and renews; then A unlocks, B
// acquires and holds for 2.5 leases. B's record must be fresh (not dated from the start of its wait): it stays present
// and unexpired, and a contender stays excluded.
func runWaitHold(s LeaseScenario) (info LeaseInfo, v *vstat.Violation, exact bool) {
	L := time.Duration(s.LeaseMs) * time.Millisecond
	inner := inmem.New()
	fa, fb, fc := gated.NewFaulty(inner), gated.NewFaulty(inner), gated.NewFaulty(inner)
	pa, pb, pc := newProvider(fa, L), newProvider(fb, L), newProvider(fc, L)
	defer pa.Shutdown()
	defer pb.Shutdown()
	defer pc.Shutdown()
	a, b, c := pa.NewLocker("lease"), pb.NewLocker("lease"), pc.NewLocker("lease")
	ctx := context.Background()
	t0 := time.Now()
	a.Lock()
	got := make(chan time.Time, 1)
	go func() {
		b.Lock()
		got <- time.Now()
	}()
	time.Sleep(L * time.Duration(s.Wait10) / 10)
	select {
	case <-got:
		a.Unlock()
		b.Unlock()
		// not exact: on an overloaded machine the holder's renewal can come too late (confirmed with longer leases)
		return info, vstat.V("lease:contender-acquired-while-held", "lease %v: a second locker's Lock() returned while the first still holds the lock; storage calls of the holder:%s", L, describeEvents(fa.Events(), t0)), false
	default:
	}
	a.Unlock()
	var t1 time.Time
	select {
	case t1 = <-got:
	case <-time.After(L + 5*time.Second):
		return info, vstat.V("lease:never-released", "lease %v: the waiting Lock() did not return within %v of the holder's Unlock", L, L+5*time.Second), false
	}
	defer b.Unlock()
	for time.Since(t1) < 5*L/2 {
		now := time.Now()
		if c.TryLock(ctx) {
			c.Unlock()
			return info, vstat.V("lease:contender-acquired-while-held", "lease %v: %.2f leases after a locker that had waited %.1f leases acquired the lock, a contender's TryLock succeeded while it is held; storage calls of the holder:%s",
				L, float64(now.Sub(t1))/float64(L), float64(s.Wait10)/10, describeEvents(fb.Events(), t0)), false
		}
		if !s.OnlyExcl {
			r, err := inner.Get(ctx, leaseKey)
			if err != nil || r.ExpiresAt == nil || !r.ExpiresAt.After(now) {
				return info, vstat.V("lease:record-expired-while-held", "lease %v: %.2f leases after a locker that had waited %.1f leases acquired the lock, its record is missing or expired (err=%v); storage calls of the holder:%s",
					L, float64(now.Sub(t1))/float64(L), float64(s.Wait10)/10, err, describeEvents(fb.Events(), t0)), false
			}
		}
		info.Samples++
		time.Sleep(L / 5)
	}
	return info, nil, false
}

// bystander: lock A is unlocked while its renewal is in flight (the renewal timer has already fired), and other
// locks of the same process are acquired in that very window. Whatever Unlock and the late renewal do to the shared
// timer machinery must not touch the other locks: they stay held - record present, unexpired, contenders excluded -
// for three leases.
func runBystander(s LeaseScenario) (info LeaseInfo, v *vstat.Violation, exact bool) {
	L := time.Duration(s.LeaseMs) * time.Millisecond
	inner := inmem.New()
	fa, fo, fc := gated.NewFaulty(inner), gated.NewFaulty(inner), gated.NewFaulty(inner)
	pa, po, pc := newProvider(fa, L), newProvider(fo, L), newProvider(fc, L)
	defer pa.Shutdown()
	defer po.Shutdown()
	defer pc.Shutdown()
	ctx := context.Background()
	a := pa.NewLocker("lease")
	n := 2 + s.Waiters%3
	fa.HoldNextCas(s.After)
	t0 := time.Now()
	a.Lock()
	select {
	case <-fa.Held:
		info.HeldInFlight = true
	case <-time.After(L/2 + 5*time.Second):
		a.Unlock()
		return info, vstat.V("lease:renewal-missing", "lease %v: no renewal call reached the storage within %v of Lock", L, time.Since(t0)), false
	}
	names := make([]string, n)
	held := make([]interface{ Unlock() }, 0, n)
	for i := range names {
		names[i] = fmt.Sprintf("bystander%d", i)
		lk := po.NewLocker(names[i])
		lk.Lock() // arms a renewal timer while A's fired one is still referenced by A
		held = append(held, lk)
	}
	defer func() {
		for _, h := range held {
			h.Unlock()
		}
	}()
	a.Unlock()
	close(fa.Resume)
	t1 := time.Now()
	for time.Since(t1) < 3*L {
		time.Sleep(L / 5)
		info.Samples++
		now := time.Now()
		for _, nm := range names {
			c := pc.NewLocker(nm)
			if c.TryLock(ctx) {
				c.Unlock()
				return info, vstat.V("lease:contender-acquired-while-held", "lease %v: %.1f leases after another lock of the same process was unlocked during its renewal, a contender acquired the held lock %q; storage calls of its holder's provider:%s",
					L, float64(now.Sub(t1))/float64(L), nm, describeEvents(fo.Events(), t0)), false
			}
			if !s.OnlyExcl {
				r, err := inner.Get(ctx, lockPath+nm)
				if err != nil || r.ExpiresAt == nil || !r.ExpiresAt.After(now) {
					return info, vstat.V("lease:record-expired-while-held", "lease %v: %.1f leases after another lock of the same process was unlocked during its renewal, the record of the held lock %q is missing or expired (err=%v); storage calls:%s",
						L, float64(now.Sub(t1))/float64(L), nm, err, describeEvents(fo.Events(), t0)), false
				}
			}
		}
	}
	return info, nil, false
}

// relock: a renewal of the first tenure is in flight (held before or after the storage applied it) while the holder
// unlocks and THE SAME Locker is locked again at once; only then the late renewal completes. Optionally the Create of
// the second tenure is itself in flight while the late renewal completes. The second tenure must be acquired (nothing
// may have put a record back), its record stays present and unexpired for 2.5 leases, a contender stays excluded, and
// after its Unlock the contender gets the lock.
func runRelock(s LeaseScenario) (info LeaseInfo, v *vstat.Violation, exact bool) {
	L := time.Duration(s.LeaseMs) * time.Millisecond
	inner := inmem.New()
	fa, fb := gated.NewFaulty(inner), gated.NewFaulty(inner)
	pa, pb := newProvider(fa, L), newProvider(fb, L)
	defer pa.Shutdown()
	defer pb.Shutdown()
	a, b := pa.NewLocker("lease"), pb.NewLocker("lease")
	ctx := context.Background()
	fa.HoldNextCas(s.After)
	warmPool(s.Warm)
	t0 := time.Now()
	a.Lock()
	select {
	case <-fa.Held:
		info.HeldInFlight = true
	case <-time.After(L/2 + 5*time.Second):
		a.Unlock()
		return info, vstat.V("lease:renewal-missing", "lease %v: no renewal call reached the storage within %v of Lock", L, time.Since(t0)), false
	}
	a.Unlock()
	ok := false
	if s.HoldCreate {
		fa.HoldNextCreate()
		res := make(chan bool, 1)
		go func() { res <- a.TryLock(ctx) }()
		select {
		case <-fa.CreateHeld:
		case <-time.After(5 * time.Second):
			close(fa.Resume)
			close(fa.CreateResume)
			return info, vstat.V("lease:relock-stuck", "lease %v: TryLock of the unlocked Locker made no Create call within 5s", L), false
		}
		close(fa.Resume)
		// let the late renewal run to its end: its CasByVersion is logged once answered; then whatever it does next
		dl := time.Now().Add(5 * time.Second)
		for time.Now().Before(dl) {
			n := 0
			for _, e := range fa.Events() {
				if e.Op == "cas" {
					n++
				}
			}
			if n > 0 {
				break
			}
			time.Sleep(time.Millisecond)
		}
		time.Sleep(L/20 + 5*time.Millisecond)
		close(fa.CreateResume)
		ok = <-res
	} else if s.Early {
		// the late reply arrives between the Unlock and the re-lock
		close(fa.Resume)
		rT := time.Now()
		time.Sleep(L * time.Duration(s.Wait10) / 100)
		ok = a.TryLock(ctx)
		if s.Busy {
			// another user of the process-wide timer pool: its callback keeps a pool worker from shortly before the first
			// renewal of the second tenure is due until shortly after - what is due meanwhile is served late and at once
			from, to := rT.Add(L/2-L/20), time.Now().Add(L/2+L/20)
			timeout.Call(func() { time.Sleep(time.Until(to)) }, time.Until(from))
		}
	} else {
		ok = a.TryLock(ctx)
		close(fa.Resume)
	}
	// the second tenure may meet a slow storage and transient failures of individual renewal calls (numbered from the held
	// call of the first tenure on), as any tenure may
	fa.SetCasDelay(L * time.Duration(s.DelayPct) / 100)
	fa.SetCasReplyDelay(L * time.Duration(s.ReplyPct) / 100)
	fa.CasErr = transientErr(s.ErrKind)
	for _, k := range s.FailCas {
		if k > 1 {
			fa.FailCas(k)
		}
	}
	if !ok {
		_, err := inner.Get(ctx, leaseKey)
		return info, vstat.V("lease:cannot-reacquire", "lease %v: the Locker was unlocked while its renewal was in flight; its TryLock right afterwards returns false although nobody holds the lock (record lookup: err=%v); storage calls:%s", L, err, describeEvents(fa.Events(), t0)), true
	}
	t1 := time.Now()
	held := true
	defer func() {
		if held {
			a.Unlock()
		}
	}()
	for time.Since(t1) < 5*L/2 {
		time.Sleep(L / 5)
		info.Samples++
		now := time.Now()
		if b.TryLock(ctx) {
			b.Unlock()
			return info, vstat.V("lease:contender-acquired-while-held", "lease %v: %.1f leases into a tenure that started while a renewal of the same Locker's previous tenure was in flight, a contender acquired the held lock; storage calls:%s",
				L, float64(now.Sub(t1))/float64(L), describeEvents(fa.Events(), t0)), false
		}
		if !s.OnlyExcl {
			r, err := inner.Get(ctx, leaseKey)
			if err != nil || r.ExpiresAt == nil || !r.ExpiresAt.After(now) {
				return info, vstat.V("lease:second-tenure-lapsed", "lease %v: %.1f leases into a tenure that started while a renewal of the same Locker's previous tenure was in flight, its record is missing or expired (err=%v); storage calls:%s",
					L, float64(now.Sub(t1))/float64(L), err, describeEvents(fa.Events(), t0)), false
			}
		}
	}
	if os.Getenv("VERIF_DEBUG_EVENTS") != "" {
		fmt.Fprintln(os.Stderr, "relock events:", describeEvents(fa.Events(), t0))
	}
	a.Unlock()
	held = false
	if !b.TryLock(ctx) {
		return info, vstat.V("lease:not-released", "lease %v: after the second Unlock a contender's TryLock returns false", L), true
	}
	b.Unlock()
	if _, err := inner.Get(ctx, leaseKey); err == nil {
		return info, vstat.V("lease:record-after-unlock", "lease %v: every holder has unlocked, the lock record is still in the storage; calls:%s", L, describeEvents(fa.Events(), t0)), true
	}
	return info, nil, false
}

// warmPool gives the process-wide timer pool a history: n callbacks due at once (the pool grows), then nothing (it idles).
func warmPool(n int) {
	if n <= 0 {
		return
	}
	var wg sync.WaitGroup
	for i := 0; i < n; i++ {
		wg.Add(1)
		timeout.Call(func() { time.Sleep(3 * time.Millisecond); wg.Done() }, time.Millisecond)
	}
	wg.Wait()
	time.Sleep(20 * time.Millisecond)
}

// unlockfail: the Delete made by Unlock fails (request or reply lost). The tenure is over all the same: at most one
// already armed renewal attempt reaches the storage afterwards and none succeeds, the record (if the Delete was not
// applied) lapses at the expiration it had at that moment, and a contender then gets the lock.
func runUnlockFail(s LeaseScenario) (info LeaseInfo, v *vstat.Violation, exact bool) {
	L := time.Duration(s.LeaseMs) * time.Millisecond
	inner := inmem.New()
	fa, fb := gated.NewFaulty(inner), gated.NewFaulty(inner)
	pa, pb := newProvider(fa, L), newProvider(fb, L)
	defer pa.Shutdown()
	defer pb.Shutdown()
	a, b := pa.NewLocker("lease"), pb.NewLocker("lease")
	ctx := context.Background()
	t0 := time.Now()
	if s.InFlight > 0 {
		fa.HoldNextCas(s.InFlight == 2)
	}
	a.Lock()
	if s.InFlight > 0 {
		select {
		case <-fa.Held:
			info.HeldInFlight = true
		case <-time.After(L/2 + 5*time.Second):
			a.Unlock()
			return info, vstat.V("lease:renewal-missing", "lease %v: no renewal call reached the storage within %v of Lock", L, time.Since(t0)), false
		}
	} else {
		time.Sleep(L * time.Duration(s.Hold10) / 10)
	}
	fa.FailNextDelete(s.Applied)
	a.Unlock()
	unlockedAt := time.Now()
	relock := make(chan error, 1)
	if s.Same {
		go func() {
			rctx, rcancel := context.WithTimeout(ctx, 2*L+2*time.Second)
			defer rcancel()
			relock <- a.LockWithCtx(rctx)
		}()
	}
	if s.InFlight > 0 {
		close(fa.Resume)
		// the one attempt that was already under way completes: wait until the storage wrapper has logged it (on a loaded
		// machine the parked call may need many milliseconds to get going again) - the expiration read below must include it
		for t := time.Now(); s.InFlight == 1 && time.Since(t) < 3*time.Second; time.Sleep(time.Millisecond) {
			done := false
			for _, e := range fa.Events() {
				if e.Op == "cas" && e.T.After(unlockedAt) {
					done = true
				}
			}
			if done {
				break
			}
		}
		time.Sleep(L / 20)
	}
	info.InjectedFailures = 1
	exp := unlockedAt
	if r, err := inner.Get(ctx, leaseKey); err == nil && r.ExpiresAt != nil {
		exp = *r.ExpiresAt
	}
	judge := func() *vstat.Violation {
		after, succeeded := 0, 0
		for _, e := range fa.Events() {
			if e.Op == "create" && e.Err == nil && e.T.After(unlockedAt) {
				break // the same Locker has acquired again (Same): what follows are the renewals of its NEW tenure
			}
			if e.Op == "cas" && e.T.After(unlockedAt) {
				after++
				if e.Err == nil {
					succeeded++
				}
			}
		}
		if succeeded > 0 && s.InFlight == 0 {
			return vstat.V("lease:renewal-succeeded-after-unlock", "lease %v: a renewal succeeded after Unlock (whose Delete failed) had returned; calls:%s", L, describeEvents(fa.Events(), t0))
		}
		if after > 1 {
			return vstat.V("lease:renewal-continues-after-unlock", "lease %v: %d renewal attempts reached the storage after Unlock (whose Delete failed) had returned (at most one already armed attempt is allowed); calls:%s", L, after, describeEvents(fa.Events(), t0))
		}
		return nil
	}
	if w := time.Until(exp.Add(L / 10)); w > 0 {
		time.Sleep(w)
	}
	if v := judge(); v != nil {
		return info, v, true
	}
	info.Samples++
	if s.Same {
		// the same Locker locks again with a blocking call that started right after the failed Unlock: it has to get the lock
		// once the leftover record has lapsed
		select {
		case err := <-relock:
			if err != nil {
				return info, vstat.V("lease:never-released", "lease %v: after an Unlock whose Delete failed the same Locker called LockWithCtx (budget: two leases + 2 s); it returned %v; calls:%s", L, err, describeEvents(fa.Events(), t0)), false
			}
		case <-time.After(2*L + 4*time.Second):
			return info, vstat.V("lease:never-released", "lease %v: after an Unlock whose Delete failed the same Locker's LockWithCtx has not returned; calls:%s", L, describeEvents(fa.Events(), t0)), false
		}
		a.Unlock()
		if !b.TryLock(ctx) {
			return info, vstat.V("lease:not-released", "lease %v: after the second Unlock a contender's TryLock returns false", L), true
		}
		b.Unlock()
		return info, nil, false
	}
	if !b.TryLock(ctx) {
		_, err := inner.Get(ctx, leaseKey)
		return info, vstat.V("lease:never-released", "lease %v: %v after Unlock (whose Delete failed), and past the expiration the record had then, a contender's TryLock returns false (record lookup: err=%v); calls:%s",
			L, time.Since(unlockedAt), err, describeEvents(fa.Events(), t0)), true
	}
	// the contender now holds: what is left of the old tenure must not disturb it
	t1 := time.Now()
	for time.Since(t1) < 3*L/2 {
		time.Sleep(L / 5)
		now := time.Now()
		r, err := inner.Get(ctx, leaseKey)
		if err != nil || r.ExpiresAt == nil || !r.ExpiresAt.After(now) {
			b.Unlock()
			return info, vstat.V("lease:second-tenure-lapsed", "lease %v: the record of the contender that acquired after the failed Unlock is missing or expired %v after its start (err=%v); calls of the old holder:%s", L, now.Sub(t1), err, describeEvents(fa.Events(), t0)), false
		}
	}
	b.Unlock()
	if v := judge(); v != nil {
		return info, v, true
	}
	return info, nil, false
}

// multi: one process holds several locks, acquired a few tenths of a lease apart, and unlocks some of them at chosen moments
// while nothing else in the process uses the timer machinery; the locks that stay held must keep their records alive
// (present, unexpired) for three leases after the last acquisition. The scenario must run alone in the process.
func runMulti(s LeaseScenario) (info LeaseInfo, v *vstat.Violation, exact bool) {
	L := time.Duration(s.LeaseMs) * time.Millisecond
	inner := inmem.New()
	fa := gated.NewFaulty(inner)
	pa := newProvider(fa, L)
	defer pa.Shutdown()
	ctx := context.Background()
	names := make([]string, s.Locks)
	lockers := make([]interface{ Unlock() }, s.Locks)
	held := make([]bool, s.Locks)
	warmPool(s.Warm)
	t0 := time.Now()
	for i := range names {
		names[i] = fmt.Sprintf("multi%d", i)
		lk := pa.NewLocker(names[i])
		lk.Lock()
		lockers[i], held[i] = lk, true
		if i < s.Locks-1 {
			time.Sleep(L * time.Duration(s.Stagger10) / 10)
		}
	}
	defer func() {
		for i, h := range held {
			if h {
				lockers[i].Unlock()
			}
		}
	}()
	t1 := time.Now()
	unl := append([]MultiUnlock(nil), s.Unlocks...)
	for time.Since(t1) < 3*L {
		time.Sleep(L / 10)
		now := time.Now()
		for j := 0; j < len(unl); j++ {
			if u := unl[j]; now.Sub(t1) >= L*time.Duration(u.At10)/10 {
				if u.I < s.Locks && held[u.I] {
					lockers[u.I].Unlock()
					held[u.I] = false
				}
				unl = append(unl[:j], unl[j+1:]...)
				j--
			}
		}
		info.Samples++
		now = time.Now()
		for i, h := range held {
			if !h {
				continue
			}
			r, err := inner.Get(ctx, lockPath+names[i])
			if err != nil || r.ExpiresAt == nil || !r.ExpiresAt.After(now) {
				return info, vstat.V("lease:record-expired-while-held", "lease %v: a process holds %d locks (acquired %.1f leases apart) and unlocked some of them (%v); %.1f leases after the last acquisition the record of the still held lock %q is missing or expired (err=%v); storage calls of the process:%s",
					L, s.Locks, float64(s.Stagger10)/10, s.Unlocks, float64(now.Sub(t1))/float64(L), names[i], err, describeEvents(fa.Events(), t0)), false
			}
		}
	}
	return info, nil, false
}

// sharedhandoff: two goroutines share one Locker. The first holds, the second waits in Lock(); the first unlocks and the
// reply of its Delete is delayed (the storage has applied it) for a tenth of a lease. Whatever the two do to the Locker's
// shared state in that window, the second goroutine ends up holding the lock and keeps it: record present, unexpired,
// contender excluded for 2.5 leases; then it unlocks and the contender acquires.
func runSharedHandoff(s LeaseScenario) (info LeaseInfo, v *vstat.Violation, exact bool) {
	L := time.Duration(s.LeaseMs) * time.Millisecond
	inner := inmem.New()
	fa, fb := gated.NewFaulty(inner), gated.NewFaulty(inner)
	pa, pb := newProvider(fa, L), newProvider(fb, L)
	defer pa.Shutdown()
	defer pb.Shutdown()
	a, b := pa.NewLocker("lease"), pb.NewLocker("lease")
	ctx := context.Background()
	t0 := time.Now()
	a.Lock()
	got := make(chan time.Time, 1)
	go func() {
		a.Lock() // same Locker object: waits for the local token
		got <- time.Now()
	}()
	time.Sleep(L * time.Duration(s.Wait10) / 10)
	h := fa.HoldNextDelete(!s.After) // After=false: the reply is delayed; After=true: the request is delayed
	unlocked := make(chan struct{})
	go func() { a.Unlock(); close(unlocked) }()
	select {
	case <-h.Held:
		info.HeldInFlight = true
	case <-time.After(5 * time.Second):
		return info, vstat.V("lease:unlock-stuck", "lease %v: Unlock made no Delete call within 5 s", L), false
	}
	time.Sleep(L / 10)
	close(h.Resume)
	select {
	case <-unlocked:
	case <-time.After(5 * time.Second):
		return info, vstat.V("lease:unlock-stuck", "lease %v: Unlock did not return within 5 s of its Delete being answered", L), false
	}
	var t1 time.Time
	select {
	case t1 = <-got:
	case <-time.After(L + 5*time.Second):
		return info, vstat.V("lease:never-released", "lease %v: the goroutine waiting in Lock() on the same Locker did not get the lock within %v of the Unlock", L, L+5*time.Second), false
	}
	defer func() {
		if v != nil {
			a.Unlock()
		}
	}()
	for time.Since(t1) < 5*L/2 {
		time.Sleep(L / 5)
		info.Samples++
		now := time.Now()
		if b.TryLock(ctx) {
			b.Unlock()
			return info, vstat.V("lease:contender-acquired-while-held", "lease %v: two goroutines share a Locker; %.1f leases after the second one took over from the first (whose Delete was answered late) a contender acquired the held lock; storage calls:%s",
				L, float64(now.Sub(t1))/float64(L), describeEvents(fa.Events(), t0)), false
		}
		if !s.OnlyExcl {
			r, err := inner.Get(ctx, leaseKey)
			if err != nil || r.ExpiresAt == nil || !r.ExpiresAt.After(now) {
				return info, vstat.V("lease:record-expired-while-held", "lease %v: two goroutines share a Locker; %.1f leases after the second one took over from the first (whose Delete was answered late) its record is missing or expired (err=%v); storage calls:%s",
					L, float64(now.Sub(t1))/float64(L), err, describeEvents(fa.Events(), t0)), false
			}
		}
	}
	a.Unlock()
	if !b.TryLock(ctx) {
		return info, vstat.V("lease:not-released", "lease %v: after the second Unlock a contender's TryLock returns false", L), true
	}
	b.Unlock()
	return info, nil, false
}

// trygate: two goroutines share a Locker; the first holds the lock, the second calls TryLock (or LockWithCtx) with a
// context that parks the first time the lock code consults it. If the call parks, the first goroutine unlocks before it
// is let go; if it returns without ever consulting the context (TryLock on a taken lock), the first goroutine unlocks
// and the second tries again. Either way the second goroutine ends up holding the lock and keeps it: record present,
// unexpired, contender excluded for 1.8 leases.
func runTryGate(s LeaseScenario) (info LeaseInfo, v *vstat.Violation, exact bool) {
	L := time.Duration(s.LeaseMs) * time.Millisecond
	inner := inmem.New()
	fa, fb := gated.NewFaulty(inner), gated.NewFaulty(inner)
	pa, pb := newProvider(fa, L), newProvider(fb, L)
	defer pa.Shutdown()
	defer pb.Shutdown()
	a, b := pa.NewLocker("lease"), pb.NewLocker("lease")
	ctx := context.Background()
	t0 := time.Now()
	a.Lock()
	time.Sleep(L * time.Duration(s.Wait10) / 10)
	pc := newParkCtx(ctx)
	res := make(chan bool, 1)
	go func() {
		if s.After {
			res <- a.LockWithCtx(pc) == nil
		} else {
			res <- a.TryLock(pc)
		}
	}()
	got, unlocked := false, false
	select {
	case <-pc.reached:
		info.HeldInFlight = true
		a.Unlock()
		unlocked = true
		close(pc.resume)
		select {
		case got = <-res:
		case <-time.After(L + 5*time.Second):
			return info, vstat.V("lease:never-released", "lease %v: an attempt on a Locker whose holder has unlocked did not return within %v", L, L+5*time.Second), false
		}
	case got = <-res:
	case <-time.After(L/10 + 100*time.Millisecond):
		// LockWithCtx waiting for the token without having consulted the context yet: unlock, it takes over
		a.Unlock()
		unlocked = true
		select {
		case got = <-res:
		case <-pc.reached:
			close(pc.resume)
			got = <-res
		case <-time.After(L + 5*time.Second):
			return info, vstat.V("lease:never-released", "lease %v: the goroutine waiting in LockWithCtx on the same Locker did not get the lock within %v of the Unlock", L, L+5*time.Second), false
		}
	}
	if !unlocked {
		if got {
			return info, vstat.V("lease:contender-acquired-while-held", "lease %v: TryLock on a held Locker returned true", L), true
		}
		a.Unlock()
	}
	if !got {
		if !a.TryLock(ctx) {
			return info, vstat.V("lease:cannot-reacquire", "lease %v: TryLock of the Locker fails after Unlock", L), true
		}
	}
	t1 := time.Now()
	defer a.Unlock()
	for time.Since(t1) < 18*L/10 {
		time.Sleep(L / 5)
		info.Samples++
		now := time.Now()
		if b.TryLock(ctx) {
			b.Unlock()
			return info, vstat.V("lease:contender-acquired-while-held", "lease %v: two goroutines share a Locker; %.1f leases after the second one acquired it (its attempt overlapped the first one's Unlock) a contender acquired the held lock; storage calls:%s",
				L, float64(now.Sub(t1))/float64(L), describeEvents(fa.Events(), t0)), false
		}
		if !s.OnlyExcl {
			r, err := inner.Get(ctx, leaseKey)
			if err != nil || r.ExpiresAt == nil || !r.ExpiresAt.After(now) {
				return info, vstat.V("lease:record-expired-while-held", "lease %v: two goroutines share a Locker; %.1f leases after the second one acquired it (its attempt overlapped the first one's Unlock) its record is missing or expired (err=%v); storage calls:%s",
					L, float64(now.Sub(t1))/float64(L), err, describeEvents(fa.Events(), t0)), false
			}
		}
	}
	return info, nil, false
}

// tryfail: one Create issued by TryLock (or LockWithCtx, After=true) fails with a transient error of a drawn shape. The attempt
// fails; nothing is held or left behind: another Locker can take and release the lock, and THE SAME Locker can acquire
// afterwards (a failed attempt must not keep the Locker's local token).
func runTryFail(s LeaseScenario) (info LeaseInfo, v *vstat.Violation, exact bool) {
	L := time.Duration(s.LeaseMs) * time.Millisecond
	inner := inmem.New()
	fa, fb := gated.NewFaulty(inner), gated.NewFaulty(inner)
	fa.CreateErr = transientErr(s.ErrKind)
	fa.FailCreate(1, s.Applied)
	pa, pb := newProvider(fa, L), newProvider(fb, L)
	defer pa.Shutdown()
	defer pb.Shutdown()
	a, b := pa.NewLocker("lease"), pb.NewLocker("lease")
	ctx := context.Background()
	info.InjectedFailures = 1
	got := false
	if s.After {
		cctx, cancel := context.WithTimeout(ctx, L/2)
		got = a.LockWithCtx(cctx) == nil
		cancel()
	} else {
		got = a.TryLock(ctx)
	}
	if got {
		// legitimate only for LockWithCtx, which may try again after the failure
		if !s.After {
			return info, vstat.V("lease:trylock-true-after-error", "TryLock returned true although its only Create call failed with %v", fa.CreateErr), true
		}
		a.Unlock()
	}
	if s.Applied && !got {
		// the Create was applied and only its reply was lost: an ownerless record may be there for one lease
		time.Sleep(L + L/5)
	}
	if !b.TryLock(ctx) {
		return info, vstat.V("lease:not-released", "lease %v: after an attempt whose Create failed (%v) another Locker's TryLock returns false", L, fa.CreateErr), true
	}
	b.Unlock()
	done := make(chan bool, 1)
	go func() { done <- a.TryLock(ctx) }()
	select {
	case ok := <-done:
		if !ok {
			return info, vstat.V("lease:cannot-reacquire", "lease %v: a TryLock/LockWithCtx of this Locker failed because its Create returned %v; the lock is free (another Locker has just taken and released it), yet TryLock of the same Locker returns false", L, fa.CreateErr), true
		}
		a.Unlock()
	case <-time.After(5 * time.Second):
		return info, vstat.V("lease:cannot-reacquire", "lease %v: TryLock of a Locker whose previous attempt failed with %v does not return", L, fa.CreateErr), true
	}
	return info, nil, false
}
