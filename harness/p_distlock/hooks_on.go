//go:build !nohooks

package p_distlock

import (
	"time"

	"github.com/acquirecloud/golibs/kvs"
	dist "github.com/acquirecloud/golibs/kvs/distlock"
	"github.com/acquirecloud/golibs/kvs/inmem"
	"github.com/acquirecloud/golibs/timeout"
)

const hooksOn = true

// resetTimers gives the timer package a control block whose wake channel belongs to the current bubble.
func resetTimers()      { timeout.VerifReset(10, 30*time.Second) }
func drainTimers()      { timeout.VerifDrain() }
func timerWorkers() int { return timeout.VerifWatchers() }

func waiterTable(st kvs.Storage) (int, int, bool) { return inmem.VerifWaiterTable(st) }

func setLease(d time.Duration) time.Duration { return dist.VerifSetLease(d) }
