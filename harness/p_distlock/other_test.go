package p_distlock

import (
	"testing"

	"verifharness/internal/vstat"
)

func replayOther(t *testing.T, env *vstat.Envelope, p string) {
	switch env.Test {
	case "TestC01Stress":
		var c StressCase
		if _, err := vstat.LoadReplay(p, &c); err != nil {
			t.Fatalf("cannot decode %s: %v", p, err)
		}
		for i := 0; i < 50; i++ { // the schedule is not reproducible, the programs are
			vstat.For("C01").Report(t, "TestReplay", c, runStress(c))
		}
	default:
		t.Fatalf("replay of %s is not implemented", env.Test)
	}
}
