package p_distlock

import (
	"testing"

	"verifharness/internal/vstat"
)

func replayOther(t *testing.T, env *vstat.Envelope, p string) {
	switch env.Test {
	case "TestC04Redis", "TestC04SharedFail":
		var c StressCase
		if _, err := vstat.LoadReplay(p, &c); err != nil {
			t.Fatalf("cannot decode %s: %v", p, err)
		}
		for i := 0; i < 30; i++ {
			vstat.For("C04").Report(t, "TestReplay", c, runStress(c))
		}
	case "TestC01Stress":
		var c StressCase
		if _, err := vstat.LoadReplay(p, &c); err != nil {
			t.Fatalf("cannot decode %s: %v", p, err)
		}
		for i := 0; i < 50; i++ { // the schedule is not reproducible, the programs are
			vstat.For("C01").Report(t, "TestReplay", c, runStress(c))
		}
	case "TestC01LongWaiter":
		var sc LeaseScenario
		if _, err := vstat.LoadReplay(p, &sc); err != nil {
			t.Fatalf("cannot decode %s: %v", p, err)
		}
		resetTimers()
		defer drainTimers()
		_, v := RunLease(sc)
		vstat.For("C01").Report(t, "TestReplay", sc, v)
	case "TestC04LateRenewal":
		var sc LeaseScenario
		if _, err := vstat.LoadReplay(p, &sc); err != nil {
			t.Fatalf("cannot decode %s: %v", p, err)
		}
		resetTimers()
		defer drainTimers()
		_, v := RunLease(sc)
		vstat.For("C04").Report(t, "TestReplay", sc, v)
	case "TestC05Rapid", "TestC05EveryK", "TestC05Multi":
		var sc LeaseScenario
		if _, err := vstat.LoadReplay(p, &sc); err != nil {
			t.Fatalf("cannot decode %s: %v", p, err)
		}
		resetTimers()
		defer drainTimers()
		info, v := RunLease(sc)
		vstat.For("C05").Report(t, "TestReplay", sc, v)
		recordLease(sc, info)
	default:
		t.Fatalf("replay of %s is not implemented", env.Test)
	}
}
