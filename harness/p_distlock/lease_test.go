package p_distlock

import (
	"fmt"
	"sync"
	"testing"

	"pgregory.net/rapid"
	"verifharness/internal/vstat"
)

func genScenario(t *rapid.T, kind string) LeaseScenario {
	leases := []int{300}
	if vstat.Thorough() {
		leases = []int{60, 100, 200, 300, 500, 1000}
	}
	s := LeaseScenario{Kind: kind, LeaseMs: rapid.SampledFrom(leases).Draw(t, "lease")}
	switch kind {
	case "hold":
		s.Periods = rapid.IntRange(3, vstat.Pick(6, 10)).Draw(t, "periods")
		s.DelayPct = rapid.SampledFrom([]int{0, 0, 5, 10, 15}).Draw(t, "delayPct")
		// the record lives a full lease from the moment the renewal CALL is made (that is when the library computes the new
		// expiry); the next call is made half a lease after the reply and reaches the storage one request latency later:
		// 2 x request latency + reply latency must stay well below half a lease (30% here, as for the request latency alone)
		s.ReplyPct = rapid.SampledFrom([]int{0, 0, 5, 10, 15, 20}).Draw(t, "replyPct")
		if 2*s.DelayPct+s.ReplyPct > 30 {
			s.ReplyPct = 30 - 2*s.DelayPct
		}
		s.HonourAll = rapid.Bool().Draw(t, "honourCtxWhileOnTheWay")
		switch rapid.IntRange(0, 6).Draw(t, "faults") {
		case 0: // fault free
		case 1, 2, 3: // one failing renewal call, any k
			s.FailCas = []int{rapid.IntRange(1, 2*s.Periods).Draw(t, "k")}
		case 4: // two consecutive failures
			k := rapid.IntRange(1, 2*s.Periods-1).Draw(t, "k")
			s.FailCas = []int{k, k + 1}
		case 6: // three failures in a row: the retries at 5/8, 6/8 and 7/8 of the lease, the last one succeeds
			k := rapid.IntRange(1, 2*s.Periods-2).Draw(t, "k")
			s.FailCas = []int{k, k + 1, k + 2}
		case 5: // two separate failures
			k := rapid.IntRange(1, 2*s.Periods-2).Draw(t, "k")
			s.FailCas = []int{k, k + 2 + rapid.IntRange(0, 3).Draw(t, "gap")}
		}
		if rapid.IntRange(0, 5).Draw(t, "manyFaults") == 0 {
			// a long tenure with many isolated failures, each repaired by its retry
			s.Periods = rapid.IntRange(6, vstat.Pick(8, 12)).Draw(t, "longPeriods")
			s.FailCas = nil
			k := rapid.IntRange(1, 3).Draw(t, "firstK")
			for len(s.FailCas) < 7 && k < 3*s.Periods {
				s.FailCas = append(s.FailCas, k)
				k += rapid.IntRange(2, 4).Draw(t, "gapK")
			}
		}
		// the renewal scheme tolerates latency + failures only up to a point (retry after lease/8): keep the generated
		// combination well inside it - "individual renewal attempts failed transiently" on a storage that answers
		// (a failed attempt costs lease/8 plus twice the latency: after lease/2 + lease/8 + 3 x latency the record must still be alive)
		switch {
		case len(s.FailCas) >= 2 && s.FailCas[1] == s.FailCas[0]+1:
			s.DelayPct, s.ReplyPct = 0, 0
		case len(s.FailCas) > 0:
			s.DelayPct = min(s.DelayPct, 5)
			s.ReplyPct = min(s.ReplyPct, 5-s.DelayPct)
		}
		s.Acquire = rapid.SampledFrom([]string{"", "", "lockctx", "trylock", "lockctx-deadline", "trylock-deadline"}).Draw(t, "acquire")
		s.ErrKind = rapid.IntRange(0, 5).Draw(t, "errKind")
		if rapid.IntRange(0, 3).Draw(t, "sharedUse") == 0 {
			s.Shared = rapid.IntRange(1, 2).Draw(t, "shared")
		}
		s.Blocking = rapid.Bool().Draw(t, "blockingContender")
		if s.Blocking && rapid.Bool().Draw(t, "contenderFaults") {
			// the contender makes about one Create per sample (five per lease) plus retries
			n := rapid.IntRange(1, 3).Draw(t, "nCreateFaults")
			for i := 0; i < n; i++ {
				k := rapid.IntRange(1, 5*s.Periods).Draw(t, "createK")
				if rapid.Bool().Draw(t, "replyLost") {
					k = -k
				}
				s.FailCreate = append(s.FailCreate, k)
			}
		}
	case "death":
		s.PhasePct = rapid.IntRange(0, 99).Draw(t, "phase")
		s.Renewals = rapid.IntRange(0, 3).Draw(t, "renewals")
		s.Waiters = rapid.SampledFrom([]int{1, 2, 2, 3}).Draw(t, "waiters")
		s.CancelFirst = s.Waiters > 1 && rapid.Bool().Draw(t, "cancelFirst")
	case "unlockrace":
		s.After = rapid.Bool().Draw(t, "after")
	case "relock":
		s.After = rapid.Bool().Draw(t, "after")
		s.HoldCreate = rapid.Bool().Draw(t, "holdCreate")
		s.Early = !s.HoldCreate && rapid.Bool().Draw(t, "replyBeforeRelock")
		if s.Early {
			s.Wait10 = rapid.SampledFrom([]int{0, 1, 1, 2, 5, 10}).Draw(t, "hundredthsBeforeRelock")
			s.Busy = rapid.Bool().Draw(t, "poolWorkerBusyAcrossDueTime")
		}
		s.Warm = rapid.SampledFrom([]int{0, 0, 3, 8}).Draw(t, "warm")
		if rapid.Bool().Draw(t, "faultsInSecondTenure") {
			s.FailCas = []int{rapid.IntRange(2, 4).Draw(t, "k")}
			s.DelayPct = rapid.SampledFrom([]int{0, 3, 5}).Draw(t, "delayPct")
			s.ReplyPct = rapid.SampledFrom([]int{0, 2, 4}).Draw(t, "replyPct")
			s.ErrKind = rapid.IntRange(0, 5).Draw(t, "errKind")
		}
	case "sharedhandoff":
		s.Wait10 = rapid.IntRange(1, 9).Draw(t, "wait10")
		s.After = rapid.Bool().Draw(t, "requestDelayed")
	case "tryfail":
		s.ErrKind = rapid.IntRange(0, 5).Draw(t, "errKind")
		s.After = rapid.Bool().Draw(t, "lockWithCtx")
		s.Applied = rapid.IntRange(0, 3).Draw(t, "applied") == 0
	case "trygate":
		s.Wait10 = rapid.IntRange(0, 9).Draw(t, "wait10")
		s.After = rapid.Bool().Draw(t, "lockWithCtx")
	case "unlockfail":
		s.Hold10 = rapid.IntRange(0, 14).Draw(t, "hold10")
		s.Applied = rapid.IntRange(0, 3).Draw(t, "applied") == 0
		s.InFlight = rapid.SampledFrom([]int{0, 0, 1, 2}).Draw(t, "inFlight")
		s.Same = !s.Applied && rapid.Bool().Draw(t, "sameLockerRelocks")
	case "bystander":
		s.After = rapid.Bool().Draw(t, "after")
		s.Waiters = rapid.IntRange(0, 2).Draw(t, "others")
	case "waithold":
		s.Wait10 = rapid.SampledFrom([]int{3, 6, 9, 12, 18, 25}).Draw(t, "wait10")
	case "handoff":
		s.PhasePct = rapid.SampledFrom([]int{5, 50, 80, 90, 95, 99, 101, 110}).Draw(t, "phase")
		s.Renewals = rapid.IntRange(0, 2).Draw(t, "renewals")
		s.Same = rapid.Bool().Draw(t, "same")
	}
	return s
}

func recordLease(s LeaseScenario, info LeaseInfo) {
	nt := (s.Kind == "hold" && info.InjectedFailures > 0) || s.Kind == "death" || s.Kind == "handoff" || s.Kind == "waithold" || (s.Kind == "bystander" && info.HeldInFlight) || (s.Kind == "unlockrace" && info.HeldInFlight) || (s.Kind == "relock" && info.HeldInFlight) || s.Kind == "unlockfail" || (s.Kind == "multi" && len(s.Unlocks) > 0) || s.Kind == "sharedhandoff" || s.Kind == "trygate" || s.Kind == "tryfail"
	cl := []string{"scenario:" + s.Kind, fmt.Sprintf("lease_ms:%d", s.LeaseMs)}
	if info.Retried > 0 {
		cl = append(cl, "confirmed_only_after_retry")
	}
	if info.Overloaded {
		cl = append(cl, "verdict_dropped_machine_overloaded")
	}
	if s.Kind == "hold" {
		cl = append(cl, fmt.Sprintf("hold_injected_failures:%d", info.InjectedFailures), fmt.Sprintf("hold_renewal_latency_pct:%d", s.DelayPct), fmt.Sprintf("hold_renewal_reply_latency_pct:%d", s.ReplyPct))
		if s.HonourAll {
			cl = append(cl, "hold_storage_honours_ctx_while_call_on_its_way")
		}
	}
	if s.Kind == "death" {
		cl = append(cl, fmt.Sprintf("death_waiters:%d", max(1, s.Waiters)))
	}
	if s.Kind == "unlockrace" {
		cl = append(cl, fmt.Sprintf("unlockrace_applied_before_unlock:%v", s.After))
	}
	if s.Kind == "hold" && s.Blocking {
		cl = append(cl, fmt.Sprintf("hold_blocking_contender_create_faults:%d", len(s.FailCreate)))
	}
	if s.Kind == "multi" {
		cl = append(cl, fmt.Sprintf("multi_locks:%d_unlocks:%d", s.Locks, len(s.Unlocks)))
	}
	if s.Kind == "hold" && s.Acquire != "" {
		cl = append(cl, "hold_acquired_with_context_cancelled_afterwards:"+s.Acquire)
	}
	if s.Kind == "relock" {
		cl = append(cl, fmt.Sprintf("relock_applied_before_unlock:%v_create_in_flight:%v_reply_before_relock:%v_pool_busy:%v", s.After, s.HoldCreate, s.Early, s.Busy))
		if len(s.FailCas) > 0 {
			cl = append(cl, "relock_transient_renewal_failure_in_second_tenure")
		}
	}
	if s.Kind == "unlockfail" {
		cl = append(cl, fmt.Sprintf("unlockfail_delete_applied:%v_renewal_in_flight:%d", s.Applied, s.InFlight))
	}
	vstat.For("C05").Case(nt, vstat.Hash(s), func() any { return s }, cl...)
	vstat.For("C05").AddExtra("store_samples", int64(info.Samples))
}

func runBatch(rt vstat.TB, test string, batch []LeaseScenario) {
	st := vstat.For("C05")
	infos := make([]LeaseInfo, len(batch))
	viols := make([]*vstat.Violation, len(batch))
	var wg sync.WaitGroup
	for i := range batch {
		wg.Add(1)
		go func(i int) {
			defer wg.Done()
			infos[i], viols[i] = RunLease(batch[i])
		}(i)
	}
	wg.Wait()
	for i := range batch {
		st.Report(rt, test, batch[i], viols[i])
		recordLease(batch[i], infos[i])
		if infos[i].Overloaded {
			st.Inconclusivef("a time-bound lease verdict was dropped after three runs with growing leases: goroutines of this process woke up more than a sixteenth of the longest lease late when measured right afterwards (machine overloaded)")
		}
	}
}

func TestC05Rapid(t *testing.T) {
	if !hooksOn {
		t.Skip("distlock/timeout hooks unavailable")
	}
	resetTimers()
	defer drainTimers()
	rapid.Check(t, func(rt *rapid.T) {
		n := rapid.IntRange(4, 8).Draw(rt, "batch")
		var batch []LeaseScenario
		races := 0
		for i := 0; i < n; i++ {
			kind := rapid.SampledFrom([]string{"hold", "hold", "hold", "death", "death", "unlockrace", "relock", "unlockfail", "handoff", "handoff", "waithold", "bystander", "sharedhandoff", "trygate", "tryfail"}).Draw(rt, "kind")
			if kind == "unlockrace" || kind == "bystander" || kind == "relock" || kind == "unlockfail" {
				if races >= 3 { // every such scenario parks one worker of the timer pool for a while
					kind = "hold"
				}
				races++
			}
			batch = append(batch, genScenario(rt, kind))
		}
		runBatch(rt, "TestC05Rapid", batch)
	})
}

// TestC05EveryK: "a transient error on the k-th renewal call for every k" - the enumeration part.
func TestC05EveryK(t *testing.T) {
	if !hooksOn {
		t.Skip("distlock/timeout hooks unavailable")
	}
	resetTimers()
	defer drainTimers()
	periods := vstat.Pick(4, 8)
	lease := 300
	var batch []LeaseScenario
	for k := 1; k <= 2*periods-1; k++ {
		batch = append(batch, LeaseScenario{Kind: "hold", LeaseMs: lease, Periods: periods, FailCas: []int{k}})
		if len(batch) == 8 || k == 2*periods-1 {
			runBatch(t, "TestC05EveryK", batch)
			batch = nil
		}
	}
	for _, after := range []bool{false, true} {
		batch = append(batch, LeaseScenario{Kind: "unlockrace", LeaseMs: lease, After: after})
	}
	for _, after := range []bool{false, true} {
		batch = append(batch, LeaseScenario{Kind: "relock", LeaseMs: lease, After: after, HoldCreate: !after})
	}
	runBatch(t, "TestC05EveryK", batch)
	batch = nil
	// a transient renewal failure in the second tenure of a re-locked Locker, with and without a late reply of the first
	// tenure's renewal arriving before the re-lock while another user keeps the timer pool busy; at most three at a time:
	// each of these scenarios parks a worker of the process-wide timer pool
	for _, k := range []int{2, 3} {
		var small []LeaseScenario
		for _, after := range []bool{false, true} {
			small = append(small, LeaseScenario{Kind: "relock", LeaseMs: lease, After: after, Early: true, Wait10: 1, FailCas: []int{k}, DelayPct: 3, ReplyPct: 3, Busy: true})
		}
		small = append(small, LeaseScenario{Kind: "relock", LeaseMs: lease, After: k == 2, FailCas: []int{k}, DelayPct: 5})
		runBatch(t, "TestC05EveryK", small)
	}
	batch = append(batch, LeaseScenario{Kind: "relock", LeaseMs: lease, After: true, HoldCreate: true}, LeaseScenario{Kind: "relock", LeaseMs: lease, After: false, HoldCreate: false})
	for _, h := range []int{2, 7} {
		batch = append(batch, LeaseScenario{Kind: "unlockfail", LeaseMs: lease, Hold10: h}, LeaseScenario{Kind: "unlockfail", LeaseMs: lease, Hold10: h + 4, Applied: true})
	}
	for _, inf := range []int{1, 2} {
		batch = append(batch, LeaseScenario{Kind: "unlockfail", LeaseMs: lease, InFlight: inf})
	}
	batch = append(batch, LeaseScenario{Kind: "sharedhandoff", LeaseMs: lease, Wait10: 3}, LeaseScenario{Kind: "sharedhandoff", LeaseMs: lease, Wait10: 7, After: true},
		LeaseScenario{Kind: "hold", LeaseMs: lease, Periods: 7, FailCas: []int{2, 5, 8, 11, 14, 17}},
		LeaseScenario{Kind: "trygate", LeaseMs: lease, Wait10: 2}, LeaseScenario{Kind: "trygate", LeaseMs: lease, Wait10: 6, After: true})
	for kind := 1; kind <= 5; kind++ {
		batch = append(batch, LeaseScenario{Kind: "hold", LeaseMs: lease, Periods: 4, FailCas: []int{kind}, ErrKind: kind})
	}
	runBatch(t, "TestC05EveryK", batch)
	batch = nil
	batch = append(batch, LeaseScenario{Kind: "hold", LeaseMs: lease, Periods: 4, FailCas: []int{1, 2, 3}}, LeaseScenario{Kind: "hold", LeaseMs: lease, Periods: 4, FailCas: []int{3, 4, 5}},
		LeaseScenario{Kind: "hold", LeaseMs: lease, Periods: 3, Shared: 1}, LeaseScenario{Kind: "hold", LeaseMs: lease, Periods: 3, Shared: 2},
		LeaseScenario{Kind: "unlockfail", LeaseMs: lease, Hold10: 3, Same: true}, LeaseScenario{Kind: "unlockfail", LeaseMs: lease, InFlight: 1, Same: true},
		LeaseScenario{Kind: "death", LeaseMs: lease, PhasePct: 40, Renewals: 1, Waiters: 2, CancelFirst: true}, LeaseScenario{Kind: "death", LeaseMs: lease, PhasePct: 80, Renewals: 0, Waiters: 3, CancelFirst: true})
	batch = append(batch, LeaseScenario{Kind: "hold", LeaseMs: lease, Periods: 3, Acquire: "trylock-deadline"}, LeaseScenario{Kind: "hold", LeaseMs: lease, Periods: 3, Acquire: "lockctx-deadline"})
	for _, acq := range []string{"lockctx", "trylock"} {
		batch = append(batch, LeaseScenario{Kind: "hold", LeaseMs: lease, Periods: 4, Acquire: acq})
	}
	batch = append(batch, LeaseScenario{Kind: "hold", LeaseMs: lease, Periods: 4, Blocking: true, FailCreate: []int{2, -5, 9}}, LeaseScenario{Kind: "hold", LeaseMs: lease, Periods: 4, Blocking: true})
	for _, pct := range []int{10, 15} { // a slow (but answering) storage: every renewal call takes 10-15% of the lease
		batch = append(batch, LeaseScenario{Kind: "hold", LeaseMs: lease, Periods: 6, DelayPct: pct})
		batch = append(batch, LeaseScenario{Kind: "hold", LeaseMs: lease, Periods: 6, ReplyPct: pct + 5, HonourAll: true}, LeaseScenario{Kind: "hold", LeaseMs: lease, Periods: 5, DelayPct: pct - 5, ReplyPct: 30 - 2*(pct-5), HonourAll: pct == 15})
	}
	for _, w := range []int{6, 12, 22} {
		batch = append(batch, LeaseScenario{Kind: "waithold", LeaseMs: lease, Wait10: w})
	}
	batch = append(batch, LeaseScenario{Kind: "bystander", LeaseMs: lease, After: false, Waiters: 1}, LeaseScenario{Kind: "bystander", LeaseMs: lease, After: true, Waiters: 2})
	for _, ph := range []int{90, 99, 105} {
		for _, same := range []bool{false, true} {
			batch = append(batch, LeaseScenario{Kind: "handoff", LeaseMs: lease, PhasePct: ph, Same: same})
		}
	}
	runBatch(t, "TestC05EveryK", batch)
	batch = nil
	for _, ph := range []int{0, 25, 50, 75, 99} {
		batch = append(batch, LeaseScenario{Kind: "death", LeaseMs: lease, PhasePct: ph, Renewals: 1, Waiters: 1 + ph%3})
	}
	runBatch(t, "TestC05EveryK", batch)
	vstat.For("C05").SetExhaustive("kth_renewal_failure", map[string]any{"periods": periods, "k_from": 1, "k_to": 2*periods - 1, "lease_ms": lease})
}

// TestC01LongWaiter: mutual exclusion on the real clock when the next holder had to wait a long time for the lock
// (the part of C01 the frozen-clock engine cannot see: everything that depends on time passing between the start of
// an attempt and its success).
func TestC01LongWaiter(t *testing.T) {
	if !hooksOn {
		t.Skip("distlock/timeout hooks unavailable")
	}
	resetTimers()
	defer drainTimers()
	st := vstat.For("C01")
	var batch []LeaseScenario
	for _, w := range vstat.Pick([]int{6, 12, 22}, []int{3, 6, 9, 12, 15, 22, 31}) {
		batch = append(batch, LeaseScenario{Kind: "waithold", LeaseMs: 300, Wait10: w, OnlyExcl: true})
	}
	batch = append(batch, LeaseScenario{Kind: "bystander", LeaseMs: 300, After: false, Waiters: 1, OnlyExcl: true}, LeaseScenario{Kind: "bystander", LeaseMs: 300, After: true, Waiters: 2, OnlyExcl: true})
	for _, after := range []bool{false, true} {
		for _, hc := range []bool{false, true} {
			batch = append(batch, LeaseScenario{Kind: "relock", LeaseMs: 300, After: after, HoldCreate: hc, OnlyExcl: true})
		}
	}
	for _, acq := range []string{"lockctx", "trylock"} {
		batch = append(batch, LeaseScenario{Kind: "hold", LeaseMs: 300, Periods: 3, Acquire: acq, OnlyExcl: true})
	}
	batch = append(batch, LeaseScenario{Kind: "hold", LeaseMs: 300, Periods: 3, Acquire: "trylock-deadline", OnlyExcl: true}, LeaseScenario{Kind: "hold", LeaseMs: 300, Periods: 3, Acquire: "lockctx-deadline", OnlyExcl: true},
		LeaseScenario{Kind: "trygate", LeaseMs: 300, Wait10: 3, OnlyExcl: true}, LeaseScenario{Kind: "trygate", LeaseMs: 300, Wait10: 5, After: true, OnlyExcl: true})
	batch = append(batch, LeaseScenario{Kind: "hold", LeaseMs: 300, Periods: 3, Shared: 1, OnlyExcl: true}, LeaseScenario{Kind: "hold", LeaseMs: 300, Periods: 3, Shared: 2, OnlyExcl: true},
		LeaseScenario{Kind: "hold", LeaseMs: 300, Periods: 4, FailCas: []int{1, 2, 3}, OnlyExcl: true}, LeaseScenario{Kind: "hold", LeaseMs: 300, Periods: 4, FailCas: []int{2, 3, 4}, OnlyExcl: true})
	batch = append(batch, LeaseScenario{Kind: "sharedhandoff", LeaseMs: 300, Wait10: 2, OnlyExcl: true}, LeaseScenario{Kind: "sharedhandoff", LeaseMs: 300, Wait10: 6, After: true, OnlyExcl: true})
	batch = append(batch, LeaseScenario{Kind: "hold", LeaseMs: 300, Periods: 3, Blocking: true, FailCreate: []int{1, -3, 6}, OnlyExcl: true})
	// an ownerless record expires under several waiters: they must take the lock one at a time
	for i := 0; i < vstat.Pick(4, 12); i++ {
		batch = append(batch, LeaseScenario{Kind: "death", LeaseMs: 300, PhasePct: 10 + 20*(i%5), Renewals: i % 2, Waiters: 2 + i%2, OnlyExcl: true})
	}
	infos := make([]LeaseInfo, len(batch))
	viols := make([]*vstat.Violation, len(batch))
	var wg sync.WaitGroup
	for i := range batch {
		wg.Add(1)
		go func(i int) {
			defer wg.Done()
			infos[i], viols[i] = RunLease(batch[i])
		}(i)
	}
	wg.Wait()
	for i := range batch {
		if v := viols[i]; v != nil {
			if batch[i].Kind == "death" && v.Sig != "lease:two-holders-after-death" {
				viols[i] = nil // anything else about a holder's death is C05's business
			} else {
				v.Sig = "two-holders:" + v.Sig
			}
		}
		st.Report(t, "TestC01LongWaiter", batch[i], viols[i])
		st.Case(true, vstat.Hash(batch[i]), func() any { return batch[i] }, "real_clock_long_waiter")
	}
}

// TestC04LateRenewal: release and hand-over on the real clock with a lease renewal in flight across the Unlock - the
// part of C04 the frozen-clock engine cannot see (no renewal ever fires there). Judged for C04 only: the record is
// gone after Unlock, the same Locker and a contender can acquire afterwards, nothing is left at the end.
func TestC04LateRenewal(t *testing.T) {
	if !hooksOn {
		t.Skip("distlock/timeout hooks unavailable")
	}
	resetTimers()
	defer drainTimers()
	st := vstat.For("C04")
	c04 := map[string]bool{"lease:record-after-unlock": true, "lease:cannot-reacquire": true, "lease:not-released": true, "lease:relock-stuck": true, "lease:panic": true, "lease:never-released": true, "lease:trylock-true-after-error": true}
	leases := vstat.Pick([]int{300}, []int{100, 300, 600})
	var batch []LeaseScenario
	for _, l := range leases {
		for _, after := range []bool{false, true} {
			batch = append(batch, LeaseScenario{Kind: "unlockrace", LeaseMs: l, After: after})
			for _, hc := range []bool{false, true} {
				batch = append(batch, LeaseScenario{Kind: "relock", LeaseMs: l, After: after, HoldCreate: hc})
			}
		}
	}
	for kind := 0; kind <= 5; kind++ {
		batch = append(batch, LeaseScenario{Kind: "tryfail", LeaseMs: 300, ErrKind: kind}, LeaseScenario{Kind: "tryfail", LeaseMs: 300, ErrKind: kind, After: true})
	}
	batch = append(batch, LeaseScenario{Kind: "tryfail", LeaseMs: 300, ErrKind: 1, Applied: true}, LeaseScenario{Kind: "unlockfail", LeaseMs: 300, Hold10: 3, Same: true})
	for lo := 0; lo < len(batch); lo += 3 { // every scenario parks one worker of the timer pool
		hi := min(lo+3, len(batch))
		viols := make([]*vstat.Violation, hi-lo)
		var wg sync.WaitGroup
		for i := lo; i < hi; i++ {
			wg.Add(1)
			go func(i int) {
				defer wg.Done()
				_, viols[i-lo] = RunLease(batch[i])
			}(i)
		}
		wg.Wait()
		for i := lo; i < hi; i++ {
			v := viols[i-lo]
			if v != nil && !c04[v.Sig] {
				v = nil // lease upkeep of a held lock is C05's business
			}
			st.Report(t, "TestC04LateRenewal", batch[i], v)
			st.Case(true, vstat.Hash(batch[i]), func() any { return batch[i] }, "real_clock_unlock_with_renewal_in_flight")
		}
	}
}

// TestC05Multi: several locks held by one process, some unlocked at chosen moments, nothing else touching the timer
// machinery - the scenarios run one at a time for that reason.
func TestC05Multi(t *testing.T) {
	if !hooksOn {
		t.Skip("distlock/timeout hooks unavailable")
	}
	st := vstat.For("C05")
	var list []LeaseScenario
	// systematic: three locks a < b < c, the two older ones unlocked in order of age at every pair of phases of their renewal cycles
	list = append(list, LeaseScenario{Kind: "multi", LeaseMs: 300, Locks: 1, Warm: 2}, LeaseScenario{Kind: "multi", LeaseMs: 300, Locks: 2, Stagger10: 1, Warm: 5})
	for _, at := range [][2]int{{1, 2}, {1, 4}, {2, 3}, {3, 6}} {
		list = append(list, LeaseScenario{Kind: "multi", LeaseMs: 300, Locks: 3, Stagger10: 1, Unlocks: []MultiUnlock{{0, at[0]}, {1, at[1]}}})
	}
	rapid.Check(t, func(rt *rapid.T) {
		if len(list) == 0 {
			n := rapid.IntRange(2, 5).Draw(rt, "locks")
			s := LeaseScenario{Kind: "multi", LeaseMs: rapid.SampledFrom(vstat.Pick([]int{300}, []int{100, 300, 600})).Draw(rt, "lease"), Locks: n, Stagger10: rapid.IntRange(0, 3).Draw(rt, "stagger")}
			if rapid.Bool().Draw(rt, "warmPool") {
				s.Warm = rapid.IntRange(2, 12).Draw(rt, "warm")
			}
			for i := 0; i < n; i++ {
				if rapid.IntRange(0, 2).Draw(rt, "unlock") > 0 {
					s.Unlocks = append(s.Unlocks, MultiUnlock{I: i, At10: rapid.IntRange(0, 12).Draw(rt, "at")})
				}
			}
			list = append(list, s)
		}
		s := list[0]
		list = list[1:]
		resetTimers()
		info, v := RunLease(s)
		drainTimers()
		st.Report(rt, "TestC05Multi", s, v)
		recordLease(s, info)
	})
}
