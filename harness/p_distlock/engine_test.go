package p_distlock

import (
	"strings"
	"testing"
	"time"

	"pgregory.net/rapid"
	"verifharness/internal/vstat"
)

func TestMain(m *testing.M) { vstat.Main(m) }

func genCase(t *rapid.T, mode string) Case {
	c := Case{Mode: mode}
	c.Providers = rapid.SampledFrom([]int{1, 1, 2, 2, 3}).Draw(t, "providers")
	c.Names = rapid.SampledFrom([]int{1, 1, 1, 2, 2, 3}).Draw(t, "names")
	// spelling of the key space: prefixes and names of various lengths (short names, odd prefix lengths)
	c.Path = rapid.SampledFrom([]string{"", "", "l/", "p", "/locks/abc/", "/a/rather/long/prefix/for/the/lock/key/space/", "locks:"}).Draw(t, "path")
	c.NameStyle = rapid.SampledFrom([]int{0, 1, 1, 2}).Draw(t, "nameStyle")
	nl := rapid.IntRange(2, 5).Draw(t, "lockers")
	for i := 0; i < nl; i++ {
		c.Lockers = append(c.Lockers, LockerCfg{Provider: rapid.IntRange(0, c.Providers-1).Draw(t, "prov"), Name: rapid.IntRange(0, c.Names-1).Draw(t, "name")})
	}
	nw := rapid.IntRange(2, vstat.Pick(4, 5)).Draw(t, "workers")
	for i := 0; i < nw; i++ {
		w := WorkerCfg{Locker: rapid.IntRange(0, nl-1).Draw(t, "locker")}
		if i < nl && rapid.IntRange(0, 3).Draw(t, "ownLocker") > 0 {
			w.Locker = i // most workers get a Locker object of their own, some share
		}
		nr := rapid.IntRange(1, vstat.Pick(3, 4)).Draw(t, "rounds")
		for r := 0; r < nr; r++ {
			w.Rounds = append(w.Rounds, Round{
				Kind:     rapid.SampledFrom([]int{KLock, KLock, KTryLock, KLockWithCtx, KLockWithCtx}).Draw(t, "kind"),
				Pre:      rapid.IntRange(0, 11).Draw(t, "pre") == 0,
				Cause:    rapid.IntRange(0, 2).Draw(t, "cause") == 0,
				GateErr:  rapid.IntRange(0, 2).Draw(t, "gateErr") == 0,
				GateDone: rapid.IntRange(0, 3).Draw(t, "gateDone") == 0,
			})
		}
		c.Workers = append(c.Workers, w)
	}
	nd := rapid.IntRange(0, vstat.Pick(60, 150)).Draw(t, "ndecs")
	for i := 0; i < nd; i++ {
		cls := rapid.IntRange(0, 8).Draw(t, "class")
		if rapid.IntRange(0, 30).Draw(t, "shutdownDice") == 0 {
			cls = 9 // only has an effect in cases that allow shutdown moves
		}
		c.Decs = append(c.Decs, Dec{C: cls, I: rapid.IntRange(0, 7).Draw(t, "idx"), P: rapid.IntRange(0, 3).Draw(t, "parkReply") == 0})
	}
	if mode == "C01" {
		nf := rapid.SampledFrom([]int{0, 0, 1, 1, 2}).Draw(t, "nfaults")
		for i := 0; i < nf; i++ {
			c.Faults = append(c.Faults, Fault{At: rapid.IntRange(0, 30).Draw(t, "faultAt"), Kind: rapid.IntRange(1, 2).Draw(t, "faultKind")})
		}
		c.Shutdown = rapid.IntRange(0, 5).Draw(t, "allowShutdown") == 0
	} else {
		c.Shutdown = rapid.IntRange(0, 3).Draw(t, "allowShutdown") == 0
	}
	c.HonourCtx = rapid.Bool().Draw(t, "honourCtx")
	if len(c.Faults) > 0 {
		c.FaultErr = rapid.IntRange(0, 5).Draw(t, "faultErr")
	}
	return c
}

type sample struct {
	Case  Case     `json:"case"`
	Trace []string `json:"trace"`
}

func record(prop string, c Case, info Info, trace []string) {
	var nt bool
	if prop == "C01" {
		nt = info.Contended || info.FaultHit || info.CancelHit
	} else {
		nt = info.HandoffWaited || info.CancelHit || info.ShutdownHit
	}
	cl := info.ClassList()
	if info.Contended {
		cl = append(cl, "contended_create")
	}
	if info.HandoffWaited {
		cl = append(cl, "handoff_with_waiter_in_storage_wait")
	}
	if info.Stuck {
		cl = append(cl, "stuck_at_end")
	}
	if c.Providers > 1 {
		cl = append(cl, "multi_provider")
	}
	if c.HonourCtx {
		cl = append(cl, "storage_refuses_done_contexts")
	}
	shared := map[int]int{}
	for _, w := range c.Workers {
		shared[w.Locker]++
	}
	for _, n := range shared {
		if n > 1 {
			cl = append(cl, "shared_locker")
			break
		}
	}
	if len(c.Faults) >= 2 && info.FaultHit {
		cl = append(cl, "two_faults_configured")
	}
	vstat.For(prop).Case(nt, vstat.Hash(c), func() any {
		tr := trace
		if len(tr) > 60 {
			tr = tr[:60]
		}
		return sample{c, tr}
	}, cl...)
	vstat.For(prop).AddExtra("scheduling_steps", int64(info.Steps))
	vstat.For(prop).AddExtra("gated_storage_calls", int64(info.GatedCalls))
}

func runOne(t *testing.T, rt vstat.TB, prop, test string, c Case) {
	stop := vstat.For(prop).Watch(test, "distlock", c, 60*time.Second)
	defer stop()
	info, v, trace := Run(t, c, func(v *vstat.Violation, trace []string) {
		vstat.For(prop).Record(test, c, &vstat.Violation{Sig: v.Sig, Msg: v.Msg + "\nschedule:\n  " + strings.Join(trace, "\n  ")})
	})
	if v != nil {
		v.Msg += "\nschedule:\n  " + strings.Join(trace, "\n  ")
	}
	vstat.For(prop).Report(rt, test, c, v)
	record(prop, c, info, trace)
}

func TestC01Rapid(t *testing.T) {
	if !hooksOn {
		t.Skip("timeout hooks unavailable")
	}
	rapid.Check(t, func(rt *rapid.T) {
		c := genCase(rt, "C01")
		runOne(t, rt, "C01", "TestC01Rapid", c)
	})
}

// TestC01FaultSweep: for fault-free base cases, every single placement of one request-lost / reply-lost
// fault over the gated storage calls of the case, and drawn pairs of placements.
func TestC01FaultSweep(t *testing.T) {
	if !hooksOn {
		t.Skip("timeout hooks unavailable")
	}
	st := vstat.For("C01")
	rapid.Check(t, func(rt *rapid.T) {
		c := genCase(rt, "C01")
		c.Faults = nil
		info, v, trace := Run(t, c, nil)
		if v != nil {
			v.Msg += "\nschedule:\n  " + strings.Join(trace, "\n  ")
		}
		st.Report(rt, "TestC01FaultSweep", c, v)
		record("C01", c, info, trace)
		n := info.GatedCalls
		if n > 40 {
			n = 40
		}
		for at := 0; at < n; at++ {
			for kind := 1; kind <= 2; kind++ {
				cc := c
				cc.Faults = []Fault{{At: at, Kind: kind}}
				runOne(t, rt, "C01", "TestC01FaultSweep", cc)
				st.AddExtra("single_fault_placements", 1)
			}
		}
		pairs := rapid.IntRange(0, 6).Draw(rt, "pairs")
		for i := 0; i < pairs && n >= 2; i++ {
			a := rapid.IntRange(0, n-1).Draw(rt, "a")
			b := rapid.IntRange(0, n-1).Draw(rt, "b")
			cc := c
			cc.Faults = []Fault{{At: a, Kind: rapid.IntRange(1, 2).Draw(rt, "ka")}, {At: b, Kind: rapid.IntRange(1, 2).Draw(rt, "kb")}}
			runOne(t, rt, "C01", "TestC01FaultSweep", cc)
			st.AddExtra("double_fault_placements", 1)
		}
	})
}

func TestC04Rapid(t *testing.T) {
	if !hooksOn {
		t.Skip("timeout hooks unavailable")
	}
	rapid.Check(t, func(rt *rapid.T) {
		c := genCase(rt, "C04")
		runOne(t, rt, "C04", "TestC04Rapid", c)
	})
}

func TestReplay(t *testing.T) {
	p := vstat.ReplayPath()
	if p == "" {
		t.Skip("no replay requested")
	}
	var c Case
	env, err := vstat.LoadReplay(p, &c)
	if err != nil {
		t.Fatalf("cannot load %s: %v", p, err)
	}
	if strings.HasPrefix(env.Test, "TestC01Stress") || strings.HasPrefix(env.Test, "TestC04Redis") || strings.HasPrefix(env.Test, "TestC04SharedFail") || strings.HasPrefix(env.Test, "TestC01LongWaiter") || strings.HasPrefix(env.Test, "TestC05") {
		replayOther(t, env, p)
		return
	}
	runOne(t, t, env.Property, "TestReplay", c)
}
