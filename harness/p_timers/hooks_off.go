//go:build nohooks

package p_timers

import (
	"time"

	"github.com/acquirecloud/golibs/timeout"
)

// Without the hooks the pool keeps its defaults (10 workers, 30 s idle): the wind-down part is skipped.
const hooksOn = false

func resetPool(maxWorkers int, idle time.Duration) {}
func poolWorkers() int                             { return watcherGoroutines() }
func pending() int                                 { return -1 }
func heapSane() bool                               { return true }

func withPoolLock(f func()) { f() }

func fireTime(f timeout.Future) (time.Time, bool) { return time.Time{}, false }

func abandonPool(maxWorkers int, idle time.Duration) {}
