package p_timers

import (
	"testing"
	"time"

	"pgregory.net/rapid"
	"verifharness/internal/vstat"
)

func TestMain(m *testing.M) { vstat.Main(m) }

// C12 generator: many ties, zero and negative delays, every kind of cancel plan, blocking callbacks.
func genC12(t *rapid.T) TCase {
	c := TCase{MaxWorkers: rapid.SampledFrom([]int{1, 2, 3, 10, 10}).Draw(t, "maxWorkers")}
	c.IdleMs = rapid.SampledFrom([]int{5, 20, 30000}).Draw(t, "idle") // 5: workers leave during the batch
	c.Warm = rapid.Bool().Draw(t, "warm")
	n := rapid.IntRange(1, 40).Draw(t, "futures")
	delays := []int{-5, 0, 0, 1, 1, 2, 5, 5, 10, 10, 10, 20, 20, 35, 60}
	made := 0
	for made < n {
		switch rapid.IntRange(0, 9).Draw(t, "what") {
		case 0, 1, 2, 3, 4:
			op := TOp{K: "call", D: rapid.SampledFrom(delays).Draw(t, "delay"), G: rapid.SampledFrom([]int{0, 0, 0, 1, 2, 3}).Draw(t, "g")}
			if rapid.IntRange(0, 4).Draw(t, "blocks") == 0 {
				op.Block = rapid.IntRange(1, 20).Draw(t, "block")
			}
			c.Ops = append(c.Ops, op)
			made++
		case 5, 6, 7:
			c.Ops = append(c.Ops, TOp{K: "cancel", F: rapid.IntRange(0, 63).Draw(t, "f"), N: rapid.SampledFrom([]int{1, 1, 1, 2, 3}).Draw(t, "times"),
				G: rapid.SampledFrom([]int{0, 0, 1}).Draw(t, "g"), Head: rapid.IntRange(0, 4).Draw(t, "head") == 0})
		case 8:
			if rapid.IntRange(0, 2).Draw(t, "formatInstead") == 0 {
				c.Ops = append(c.Ops, TOp{K: "format", F: rapid.IntRange(0, 63).Draw(t, "f")})
			} else if rapid.Bool().Draw(t, "farInsteadOfSleep") {
				c.Ops = append(c.Ops, TOp{K: "far", D: rapid.IntRange(60, 3600).Draw(t, "far"), N: rapid.IntRange(0, 3).Draw(t, "farKind")})
				made++
			} else {
				c.Ops = append(c.Ops, TOp{K: "sleep", D: rapid.SampledFrom([]int{1, 1, 2, 5, 10, 20}).Draw(t, "ms")})
			}
		case 9:
			switch rapid.IntRange(0, 5).Draw(t, "special") {
			case 0:
				c.Ops = append(c.Ops, TOp{K: "past", D: rapid.IntRange(1, 3600).Draw(t, "past"), N: rapid.IntRange(0, 7).Draw(t, "pastKind"), G: rapid.SampledFrom([]int{0, 0, 1}).Draw(t, "g")})
				made++
				continue
			case 1:
				c.Ops = append(c.Ops, TOp{K: "saturate", D: rapid.SampledFrom([]int{5, 10, 20, 30}).Draw(t, "keptMs")})
				made += c.MaxWorkers
				continue
			case 2:
				k := rapid.IntRange(2, 4).Draw(t, "equal")
				c.Ops = append(c.Ops, TOp{K: "equal", N: k, D: rapid.SampledFrom([]int{20, 30, 50}).Draw(t, "delay"), F: rapid.IntRange(0, 15).Draw(t, "cancelMask")})
				made += k
				continue
			}
			if rapid.Bool().Draw(t, "neighbourInsteadOfTie") {
				c.Ops = append(c.Ops, TOp{K: "neighbour", D: rapid.SampledFrom([]int{2, 5, 5, 10}).Draw(t, "delay"), N: rapid.SampledFrom([]int{3, 10, 20, 35, 45, 80, 200}).Draw(t, "gapMicros")})
				made += 2
				continue
			}
			k := rapid.IntRange(2, 8).Draw(t, "tie")
			c.Ops = append(c.Ops, TOp{K: "burst", N: k, D: rapid.SampledFrom(delays).Draw(t, "delay")})
			made += k
		}
	}
	return c
}

// C13 generator: arrival patterns over far / near / burst / cancel-head / idle gap, concurrent callers.
func genC13(t *rapid.T) TCase {
	c := TCase{MaxWorkers: rapid.SampledFrom([]int{1, 2, 3, 5, 10, 10}).Draw(t, "maxWorkers")}
	c.IdleMs = rapid.SampledFrom([]int{5, 20, 50, 50, 30000}).Draw(t, "idle") // 30000 = the package default: lateness must not hide behind the idle tick
	c.Warm = rapid.Bool().Draw(t, "warm")
	n := rapid.IntRange(1, 12).Draw(t, "steps")
	for i := 0; i < n; i++ {
		switch rapid.IntRange(0, 9).Draw(t, "what") {
		case 0, 1:
			c.Ops = append(c.Ops, TOp{K: "far", D: rapid.IntRange(60, 600).Draw(t, "far"), N: rapid.SampledFrom([]int{0, 0, 0, 1, 2, 3}).Draw(t, "farKind")})
		case 2, 3, 4:
			c.Ops = append(c.Ops, TOp{K: "call", D: rapid.IntRange(1, 30).Draw(t, "near"), G: rapid.SampledFrom([]int{0, 0, 1, 2}).Draw(t, "g")})
		case 5, 6:
			c.Ops = append(c.Ops, TOp{K: "burst", N: rapid.IntRange(1, 60).Draw(t, "n"), D: rapid.SampledFrom([]int{0, 1, 5, 15}).Draw(t, "delay"), G: rapid.SampledFrom([]int{0, 0, 1}).Draw(t, "g")})
		case 7:
			c.Ops = append(c.Ops, TOp{K: "cancel", Head: true, N: 1})
		case 8:
			if c.IdleMs > 1000 {
				c.Ops = append(c.Ops, TOp{K: "sleep", D: 30})
			} else {
				c.Ops = append(c.Ops, TOp{K: "gap"})
			}
		case 9:
			if rapid.Bool().Draw(t, "formatInstead") {
				c.Ops = append(c.Ops, TOp{K: "format", F: rapid.IntRange(0, 63).Draw(t, "f")})
			} else {
				c.Ops = append(c.Ops, TOp{K: "sleep", D: rapid.SampledFrom([]int{1, 3, 10, 40}).Draw(t, "ms")})
			}
		}
	}
	return c
}

func recordT(prop string, c TCase, info TInfo) {
	var nt bool
	cl := info.ClassList()
	if prop == "C12" {
		nt = info.CancelNonLast || info.CancelRaced
	} else {
		nt = info.NearWhileFar || info.BurstOverPool || info.CallAfterIdle
	}
	for name, on := range map[string]bool{"cancel_removed_non_last_of_heap": info.CancelNonLast, "cancel_raced_firing": info.CancelRaced,
		"near_while_only_far_pending": info.NearWhileFar, "burst_larger_than_pool": info.BurstOverPool, "call_after_full_wind_down": info.CallAfterIdle,
		"wind_down_and_restart_checked": info.WindDownChecked} {
		if on {
			cl = append(cl, name)
		}
	}
	st := vstat.For(prop)
	st.Case(nt, vstat.Hash(c), func() any { return c }, cl...)
	st.AddExtra("futures_scheduled", int64(info.Futures))
	st.Class(latBucket(info.MaxLatenessMs), 1)
}

func latBucket(ms float64) string {
	switch {
	case ms < 1:
		return "max_lateness:<1ms"
	case ms < 10:
		return "max_lateness:<10ms"
	case ms < 100:
		return "max_lateness:<100ms"
	case ms < 1000:
		return "max_lateness:<1s"
	}
	return "max_lateness:>=1s"
}

// liveness-like verdicts depend on an upper time bound: confirm by one re-run before reporting
var timeBound = map[string]bool{"timers:late": true, "timers:never-started": true, "timers:no-wind-down": true, "timers:no-restart": true, "timers:lost-after-cancel": true}

func runT(t vstat.TB, prop, test string, c TCase) {
	info, v := Run(c, prop)
	if v != nil && timeBound[v.Sig] {
		info2, v2 := Run(c, prop)
		if v2 == nil {
			vstat.For(prop).Inconclusivef("%s once, passed on re-run (machine stall?): %s", v.Sig, v.Msg)
			info, v = info2, nil
		}
	}
	vstat.For(prop).Report(t, test, c, v)
	recordT(prop, c, info)
}

func TestC12Rapid(t *testing.T) {
	rapid.Check(t, func(rt *rapid.T) { runT(rt, "C12", "TestC12Rapid", genC12(rt)) })
}

// TestC12Neighbours: the systematic part for futures whose deadlines are microseconds apart.
func TestC12Neighbours(t *testing.T) {
	for rep := 0; rep < vstat.Pick(6, 60); rep++ {
		for _, gap := range []int{3, 10, 20, 35, 45, 80, 200} {
			for _, mw := range []int{1, 10} {
				c := TCase{IdleMs: 20, MaxWorkers: mw, Warm: rep%2 == 0, Ops: []TOp{{K: "neighbour", D: 2 + rep%4, N: gap}, {K: "neighbour", D: 3, N: gap + 7}}}
				runT(t, "C12", "TestC12Neighbours", c)
			}
		}
	}
}

func TestC13Rapid(t *testing.T) {
	rapid.Check(t, func(rt *rapid.T) { runT(rt, "C13", "TestC13Rapid", genC13(rt)) })
}

// TestC13Patterns: every ordered pair of arrival patterns, for each idle timeout and a few pool limits (systematic part).
func TestC13Patterns(t *testing.T) {
	pats := map[string][]TOp{
		"far":        {{K: "far", D: 120}},
		"near":       {{K: "call", D: 10}},
		"burst":      {{K: "burst", N: 25, D: 2}},
		"cancelhead": {{K: "call", D: 40}, {K: "cancel", Head: true, N: 1}, {K: "format", F: 0}, {K: "format", F: 1}},
		"gap":        {{K: "gap"}},
		"concurrent": {{K: "call", D: 5, G: 1}, {K: "call", D: 3, G: 2}, {K: "burst", N: 12, D: 1, G: 3}},
	}
	names := []string{"far", "near", "burst", "cancelhead", "gap", "concurrent"}
	shard, shards := vstat.Shard()
	i := 0
	for _, idle := range []int{5, 20, 50, 30000} {
		for _, mw := range vstat.Pick([]int{1, 10}, []int{1, 2, 5, 10}) {
			for _, a := range names {
				for _, b := range names {
					i++
					if i%shards != shard || (idle > 1000 && (a == "gap" || b == "gap")) {
						continue
					}
					c := TCase{IdleMs: idle, MaxWorkers: mw}
					c.Ops = append(c.Ops, pats[a]...)
					c.Ops = append(c.Ops, pats[b]...)
					c.Ops = append(c.Ops, TOp{K: "call", D: 7})
					runT(t, "C13", "TestC13Patterns", c)
				}
			}
		}
	}
}

func TestReplay(t *testing.T) {
	p := vstat.ReplayPath()
	if p == "" {
		t.Skip("no replay requested")
	}
	var c TCase
	env, err := vstat.LoadReplay(p, nil)
	if err != nil {
		t.Fatalf("cannot load %s: %v", p, err)
	}
	if env.Test == "TestC12Generations" || env.Test == "TestC13Generations" {
		var mc MassCase
		vstat.LoadReplay(p, &mc)
		for i := 0; i < 3; i++ {
			runMassT(t, env.Property, "TestReplay", mc)
		}
		return
	}
	if env.Test == "TestC13ExitRace" {
		var ec ExitRaceCase
		vstat.LoadReplay(p, &ec)
		for i := 0; i < 5; i++ {
			_, v := RunExitRace(ec)
			vstat.For("C13").Report(t, "TestReplay", ec, v)
		}
		return
	}
	if _, err := vstat.LoadReplay(p, &c); err != nil {
		t.Fatalf("cannot decode %s: %v", p, err)
	}
	for i := 0; i < 20; i++ { // the programs are reproducible, the timing is not
		runT(t, env.Property, "TestReplay", c)
	}
}

func TestC13ExitRace(t *testing.T) {
	if !hooksOn {
		t.Skip("timeout hooks unavailable")
	}
	st := vstat.For("C13")
	for i := 0; i < vstat.Pick(40, 300); i++ {
		v := RunPokeSqueeze()
		if v != nil && timeBound[v.Sig] {
			if v2 := RunPokeSqueeze(); v2 == nil { // a lost poke is a matter of nanoseconds: confirm it on 20 further tries
				lost := 0
				for k := 0; k < 20; k++ {
					if RunPokeSqueeze() != nil {
						lost++
					}
				}
				if lost == 0 {
					st.Inconclusivef("%s once in the poke squeeze, not reproduced in 21 re-runs", v.Sig)
					v = nil
				}
			}
		}
		st.Report(t, "TestC13ExitRace", map[string]any{"poke_squeeze": true}, v)
		st.Case(true, 0x90ce, func() any { return map[string]any{"poke_squeeze": true} }, "poke_squeeze")
	}
	for i := 0; i < vstat.Pick(30, 150); i++ {
		idle := time.Duration(40+i%3*20) * time.Millisecond
		squeeze, kind := RunExitSqueeze, "exit_squeeze"
		if i%2 == 1 {
			squeeze, kind = RunExitSqueezeCallFirst, "exit_squeeze_call_first"
		}
		v := squeeze(idle)
		if v != nil && timeBound[v.Sig] {
			if v2 := squeeze(idle); v2 == nil {
				st.Inconclusivef("%s once in the exit squeeze, passed on re-run", v.Sig)
				v = nil
			}
		}
		st.Report(t, "TestC13ExitRace", map[string]any{kind + "_idle_ms": idle.Milliseconds()}, v)
		st.Case(true, uint64(0xe517)+uint64(idle)+uint64(i%2), func() any { return map[string]any{kind + "_idle_ms": idle.Milliseconds()} }, kind)
	}
	for i := 0; i < vstat.Pick(12, 80); i++ {
		idle := time.Duration(30+i%3*15) * time.Millisecond
		workers, calls := 2+i%4, []int{3, 11, 12, 25}[i%4]
		v := RunBargeSqueeze(idle, workers, calls)
		if v != nil && v.Sig != "timers:call-blocked" && timeBound[v.Sig] {
			if v2 := RunBargeSqueeze(idle, workers, calls); v2 == nil {
				st.Inconclusivef("%s once in the barge squeeze, passed on re-run", v.Sig)
				v = nil
			}
		}
		c := map[string]any{"barge_squeeze_idle_ms": idle.Milliseconds(), "workers": workers, "calls": calls}
		st.Report(t, "TestC13ExitRace", c, v)
		st.Case(true, uint64(0xba59e)+uint64(idle)+uint64(workers*100+calls), func() any { return c }, "barge_squeeze")
	}
	shard, _ := vstat.Shard()
	for _, idleUs := range vstat.Pick([]int{300}, []int{200, 300, 1000}) {
		c := ExitRaceCase{IdleUs: idleUs + 13*shard, Attempts: vstat.Pick(4000, 8000), SpanUs: 150}
		after, v := RunExitRace(c)
		if v != nil && timeBound[v.Sig] {
			_, v2 := RunExitRace(c)
			if v2 == nil {
				st.Inconclusivef("%s once in the exit-race hammer, passed on re-run", v.Sig)
				v = nil
			}
		}
		st.Report(t, "TestC13ExitRace", c, v)
		st.Case(true, vstat.Hash(c), func() any { return c }, "exit_race_hammer")
		st.AddExtra("exit_race_attempts", int64(c.Attempts))
		st.AddExtra("exit_race_arrivals_after_wind_down", int64(after))
	}
}

// ---------------------------------------------------------------------------------------------
// generations (see mass.go)

func genMass(t *rapid.T) MassCase {
	c := MassCase{
		Old:        rapid.OneOf(rapid.IntRange(1, 64), rapid.IntRange(65, 1500), rapid.IntRange(4000, vstat.Pick(9000, 20000))).Draw(t, "old"),
		OldMode:    rapid.SampledFrom([]string{"cancel", "fire", "mixed", "layered", "layered"}).Draw(t, "oldMode"),
		Order:      rapid.SampledFrom([]string{"fwd", "rev", "shuffle"}).Draw(t, "order"),
		New:        rapid.OneOf(rapid.IntRange(1, 64), rapid.IntRange(65, 3000)).Draw(t, "new"),
		Again:      rapid.IntRange(0, 3).Draw(t, "again"),
		Seed:       int64(rapid.IntRange(1, 1<<30).Draw(t, "seed")),
		IdleMs:     rapid.SampledFrom([]int{5, 20, 50}).Draw(t, "idle"),
		MaxWorkers: rapid.SampledFrom([]int{1, 2, 10}).Draw(t, "maxWorkers"),
	}
	if c.OldMode != "cancel" {
		c.Old = min(c.Old, 3000) // these really fire
	}
	if c.OldMode == "layered" {
		c.Old = 3 + c.Old%125 // a heap of 2..7 levels
	}
	c.Between = rapid.IntRange(0, c.New).Draw(t, "between")
	return c
}

func runMassT(t vstat.TB, prop, test string, c MassCase) {
	info, v := RunMass(c, prop)
	if v != nil && (timeBound[v.Sig] || v.Sig == "timers:lost-after-foreign-cancel") {
		if _, v2 := RunMass(c, prop); v2 == nil {
			vstat.For(prop).Inconclusivef("%s once, passed on re-run (machine stall?): %s", v.Sig, v.Msg)
			v = nil
		}
	}
	vstat.For(prop).Report(t, test, c, v)
	vstat.For(prop).Case(true, vstat.Hash(c), func() any { return c }, info.Classes...)
}

var massSystematic = []MassCase{
	{Old: 4500, OldMode: "cancel", Order: "fwd", New: 2000, Again: 1, IdleMs: 20, MaxWorkers: 10},
	{Old: 6000, OldMode: "cancel", Order: "rev", New: 3000, Again: 2, IdleMs: 20, MaxWorkers: 2},
	{Old: 5000, OldMode: "cancel", Order: "shuffle", Seed: 7, New: 1500, Between: 700, Again: 1, IdleMs: 5, MaxWorkers: 10},
	{Old: 64, OldMode: "fire", Order: "fwd", New: 64, Again: 1, IdleMs: 20, MaxWorkers: 10},
	{Old: 200, OldMode: "fire", Order: "rev", New: 300, Again: 2, IdleMs: 50, MaxWorkers: 1},
	{Old: 500, OldMode: "mixed", Order: "shuffle", Seed: 3, New: 500, Between: 100, Again: 1, IdleMs: 20, MaxWorkers: 10},
	{Old: 15, OldMode: "layered", Order: "rev", Seed: 1, New: 4, Again: 1, IdleMs: 20, MaxWorkers: 10},
	{Old: 31, OldMode: "layered", Order: "shuffle", Seed: 5, New: 4, Again: 0, IdleMs: 20, MaxWorkers: 2},
	{Old: 63, OldMode: "layered", Order: "fwd", Seed: 2, New: 8, Again: 1, IdleMs: 5, MaxWorkers: 10},
}

func TestC12Generations(t *testing.T) {
	for _, c := range massSystematic {
		runMassT(t, "C12", "TestC12Generations", c)
	}
	rapid.Check(t, func(rt *rapid.T) { runMassT(rt, "C12", "TestC12Generations", genMass(rt)) })
}

func TestC13Generations(t *testing.T) {
	for _, c := range massSystematic {
		runMassT(t, "C13", "TestC13Generations", c)
	}
	rapid.Check(t, func(rt *rapid.T) { runMassT(rt, "C13", "TestC13Generations", genMass(rt)) })
}
