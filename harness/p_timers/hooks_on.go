//go:build !nohooks

package p_timers

import (
	"time"

	"github.com/acquirecloud/golibs/timeout"
)

const hooksOn = true

// resetPool retires the previous control block (its workers leave within milliseconds) and installs a fresh one.
func resetPool(maxWorkers int, idle time.Duration) {
	timeout.VerifDrain()
	for i := 0; i < 2000 && watcherGoroutines() > 0; i++ {
		time.Sleep(time.Millisecond)
	}
	timeout.VerifReset(maxWorkers, idle)
}
func poolWorkers() int { return timeout.VerifWatchers() }
func pending() int     { return timeout.VerifPending() }
func heapSane() bool   { return timeout.VerifHeapSane() }

func withPoolLock(f func()) { timeout.VerifWithLock(f) }

func fireTime(f timeout.Future) (time.Time, bool) { return timeout.VerifFireTime(f) }

// abandonPool installs a fresh control block without touching the old one (whose lock may be held for ever).
func abandonPool(maxWorkers int, idle time.Duration) { timeout.VerifReset(maxWorkers, idle) }
