package p_timers

import (
	"math/rand"
	"sync/atomic"
	"time"

	"github.com/acquirecloud/golibs/timeout"
	"verifharness/internal/vstat"
)

// ---------------------------------------------------------------------------------------------
// generations: a first generation of (possibly thousands of) futures is scheduled and then cancelled or left to fire;
// a second generation is scheduled; then every handle of the first generation is cancelled again (and again). Cancelling
// a future any number of times, before or after it fired, has no effect on any other future (C12), and every future of
// the second generation - never cancelled through its own handle - is started (C13), once, not early.

// MassCase is one generated case.
type MassCase struct {
	Old        int    `json:"old"`               // size of the first generation
	OldMode    string `json:"old_mode"`          // cancel: far deadlines, all cancelled | fire: due at once, all fire | mixed: alternating
	Order      string `json:"order"`             // order of the cancel sweeps: fwd | rev | shuffle
	New        int    `json:"new"`               // size of the second generation (due 30..150 ms after its scheduling)
	Again      int    `json:"again"`             // number of cancel sweeps over the first generation after the second one was scheduled
	Between    int    `json:"between,omitempty"` // futures of the second generation scheduled BEFORE the first cancel sweep (the rest after it)
	Seed       int64  `json:"seed,omitempty"`    // shuffle seed
	IdleMs     int    `json:"idle_ms"`
	MaxWorkers int    `json:"max_workers"`
}

// MassInfo classifies a run.
type MassInfo struct {
	Classes []string
}

func RunMass(c MassCase, check string) (info MassInfo, v *vstat.Violation) {
	v = vstat.Guard("timers:panic", func() *vstat.Violation { return runMass(c, check, &info) })
	return
}

func runMass(c MassCase, check string, info *MassInfo) *vstat.Violation {
	resetPool(c.MaxWorkers, time.Duration(c.IdleMs)*time.Millisecond)
	old := make([]timeout.Future, c.Old)
	oldFired := make([]atomic.Int32, c.Old)
	far := make([]bool, c.Old)
	oldT0, oldD := make([]time.Time, c.Old), make([]time.Duration, c.Old)
	oldStart := make([]atomic.Int64, c.Old)
	nShort := 0
	for i := range old {
		i := i
		far[i] = c.OldMode == "cancel" || (c.OldMode == "mixed" && i%2 == 0) || (c.OldMode == "layered" && (int64(i)*7+c.Seed)%3 != 0)
		d := time.Duration(1+i%4) * time.Millisecond
		if c.OldMode == "layered" {
			d = time.Duration(150+(i*13)%250) * time.Millisecond
			oldT0[i], oldD[i] = time.Now(), d
		}
		if far[i] {
			d = 10*time.Minute + time.Duration(i)*time.Millisecond
		} else {
			nShort++
		}
		old[i] = timeout.Call(func() { oldStart[i].CompareAndSwap(0, time.Now().UnixNano()); oldFired[i].Add(1) }, d)
	}
	order := make([]int, c.Old)
	for i := range order {
		order[i] = i
	}
	switch c.Order {
	case "rev":
		for i, j := 0, len(order)-1; i < j; i, j = i+1, j-1 {
			order[i], order[j] = order[j], order[i]
		}
	case "shuffle":
		rand.New(rand.NewSource(c.Seed)).Shuffle(len(order), func(i, j int) { order[i], order[j] = order[j], order[i] })
	}
	// the short ones fire
	if nShort > 0 && c.OldMode != "layered" {
		t := time.Now()
		for {
			n := 0
			for i := range old {
				if !far[i] && oldFired[i].Load() > 0 {
					n++
				}
			}
			if n == nShort {
				break
			}
			if time.Since(t) > latenessBound+5*time.Second {
				if check == "C13" {
					return vstat.V("timers:never-started", "%d of %d futures due within 4 ms were not started within %v", nShort-n, nShort, time.Since(t))
				}
				break
			}
			time.Sleep(time.Millisecond)
		}
	}
	type nrec struct {
		t0    time.Time
		d     time.Duration
		n     atomic.Int32
		start atomic.Int64
	}
	news := make([]*nrec, c.New)
	schedule := func(lo, hi int) {
		for i := lo; i < hi; i++ {
			r := &nrec{d: time.Duration(30+(i*7)%120) * time.Millisecond}
			news[i] = r
			r.t0 = time.Now()
			timeout.Call(func() {
				r.start.CompareAndSwap(0, time.Now().UnixNano())
				r.n.Add(1)
			}, r.d)
		}
	}
	between := min(c.Between, c.New)
	schedule(0, between)
	for _, i := range order { // first sweep: the pending ones are removed, the fired ones must not care
		if c.OldMode == "layered" {
			if !far[i] {
				continue // these stay pending and must start on time
			}
			old[i].Cancel()
			if !heapSane() {
				return vstat.V("timers:heap-broken", "%d futures pending (a third due within 400 ms, the rest in 10 min); after cancelling future #%d the pending queue is not a heap any more (a live future may now sit beneath later deadlines)", c.Old, i)
			}
			continue
		}
		old[i].Cancel()
	}
	schedule(between, c.New)
	for rep := 0; rep < c.Again; rep++ {
		for _, i := range order {
			if c.OldMode == "layered" && !far[i] {
				continue // still pending, and must start
			}
			old[i].Cancel()
		}
	}
	if c.OldMode == "layered" {
		// the near third of generation 1 starts on time
		for i := range old {
			if far[i] {
				continue
			}
			due := oldT0[i].Add(oldD[i])
			for oldFired[i].Load() == 0 && time.Since(due) < latenessBound {
				time.Sleep(2 * time.Millisecond)
			}
			if oldFired[i].Load() == 0 {
				return vstat.V("timers:lost-after-foreign-cancel", "%d futures pending (a third due within 400 ms, the rest in 10 min and cancelled one by one in %s order): future #%d (delay %v), never cancelled, was not started within %v of its deadline (pending=%d workers=%d)", c.Old, c.Order, i, oldD[i], latenessBound, pending(), poolWorkers())
			}
			if st := time.Unix(0, oldStart[i].Load()); st.Before(due) {
				return vstat.V("timers:started-early", "future #%d of generation 1 (delay %v) was started %v after its Call", i, oldD[i], st.Sub(oldT0[i]))
			}
		}
	}
	deadline := time.Now().Add(150*time.Millisecond + latenessBound)
	for time.Now().Before(deadline) {
		done := true
		for _, r := range news {
			if r.n.Load() == 0 {
				done = false
				break
			}
		}
		if done {
			break
		}
		time.Sleep(2 * time.Millisecond)
	}
	time.Sleep(20 * time.Millisecond)
	for i, r := range news {
		switch n := r.n.Load(); {
		case n == 0:
			return vstat.V("timers:lost-after-foreign-cancel", "generation 1: %d futures (%s), cancelled in %s order; generation 2: %d futures due 30-150 ms ahead, %d of them scheduled before that sweep; then %d more cancel sweep(s) over the handles of generation 1. Future #%d of generation 2 (delay %v) was never cancelled and was not started within %v of its deadline (pending=%d workers=%d)",
				c.Old, c.OldMode, c.Order, c.New, between, c.Again, i, r.d, latenessBound, pending(), poolWorkers())
		case n > 1:
			return vstat.V("timers:started-twice", "future #%d of generation 2 was started %d times", i, n)
		}
		if st := time.Unix(0, r.start.Load()); st.Before(r.t0.Add(r.d)) {
			return vstat.V("timers:started-early", "future #%d of generation 2 (delay %v) was started %v after its Call", i, r.d, st.Sub(r.t0))
		}
	}
	for i := range old {
		if far[i] && oldFired[i].Load() != 0 {
			return vstat.V("timers:cancelled-but-started", "future #%d of generation 1 (due in 10 min) was cancelled and yet started", i)
		}
		if !far[i] && oldFired[i].Load() > 1 {
			return vstat.V("timers:started-twice", "future #%d of generation 1 was started %d times", i, oldFired[i].Load())
		}
	}
	if !heapSane() {
		return vstat.V("timers:heap-broken", "the pending queue is not a heap / indexes are inconsistent after the sweeps")
	}
	info.Classes = append(info.Classes, "generations:"+c.OldMode+":"+c.Order)
	if c.Old > 4096 {
		info.Classes = append(info.Classes, "generations:first_generation_gt_4096")
	}
	return nil
}
