// Package p_timers decides C12 (never early, at most once, cancel effective and precise) and C13 (every live
// future fires with bounded lateness; the pool adapts, winds down and starts up again) of the timeout package.
// Real clock: the package cannot run to a firing time inside a synctest bubble (DESIGN.md §2.2).
package p_timers

import (
	"fmt"
	"math"
	"runtime"
	"sort"
	"strings"
	"sync"
	"sync/atomic"
	"time"

	"github.com/acquirecloud/golibs/timeout"
	"verifharness/internal/vstat"
)

// TOp is one step of a timer script. Steps run in order on the driver goroutine; a step with G>0 is
// issued from a goroutine of its own (concurrent callers) without waiting for it.
type TOp struct {
	K     string `json:"k"`               // call cancel sleep burst far gap past saturate equal
	G     int    `json:"g,omitempty"`     // 0 = inline, >0 = from another goroutine
	D     int    `json:"d,omitempty"`     // call/burst: delay ms (may be <= 0); sleep: ms; far: seconds
	Block int    `json:"block,omitempty"` // call: the callback blocks this many ms
	F     int    `json:"f,omitempty"`     // cancel: which future (modulo the number created so far)
	N     int    `json:"n,omitempty"`     // burst: size; cancel: number of Cancel calls (>=1)
	Head  bool   `json:"head,omitempty"`  // cancel: the pending future with the earliest deadline instead of F
}

// TCase is a script plus the pool configuration.
type TCase struct {
	IdleMs     int   `json:"idle_ms"`
	MaxWorkers int   `json:"max_workers"`
	Warm       bool  `json:"warm,omitempty"` // run a small burst first so that the pool is up when the script starts
	Ops        []TOp `json:"ops"`
}

type frec struct {
	id      int
	d       time.Duration
	far     bool
	t0, t1  time.Time // read right before / right after Call
	fut     timeout.Future
	starts  atomic.Int32
	startNs atomic.Int64 // first start, ns since the case began
	mu      sync.Mutex
	cancels []time.Time // return time of every Cancel call
}

// TInfo is what the classifiers need.
type TInfo struct {
	Futures         int
	CancelNonLast   bool // a Cancel removed a future that was not the one with the latest deadline while >= 3 were pending
	CancelRaced     bool // a Cancel returned within 2 ms of the future's due time
	NearWhileFar    bool // a near future was scheduled while only far futures were pending
	BurstOverPool   bool // a burst larger than the pool limit
	CallAfterIdle   bool // a Call after the pool had wound down completely
	MaxLatenessMs   float64
	WindDownChecked bool
	Classes         map[string]bool
}

func (i *TInfo) class(c string) {
	if i.Classes == nil {
		i.Classes = map[string]bool{}
	}
	i.Classes[c] = true
}

// ClassList for the histogram.
func (i *TInfo) ClassList() []string {
	var r []string
	for c := range i.Classes {
		r = append(r, c)
	}
	return r
}

const latenessBound = 3 * time.Second

type runner struct {
	c     TCase
	base  time.Time
	mu    sync.Mutex
	futs  []*frec
	wg    sync.WaitGroup
	info  *TInfo
	check string // C12 | C13
	// stragglers: pool goroutines of an abandoned control block that were still alive when the case started
	stragglers int
}

func (r *runner) call(d time.Duration, block time.Duration, far bool) *frec {
	f := &frec{d: d, far: far}
	r.mu.Lock()
	f.id = len(r.futs)
	r.futs = append(r.futs, f)
	r.mu.Unlock()
	cb := func() {
		now := time.Since(r.base).Nanoseconds()
		if f.starts.Add(1) == 1 {
			f.startNs.Store(now)
		}
		if block > 0 {
			time.Sleep(block)
		}
	}
	f.t0 = time.Now()
	fu := timeout.Call(cb, d)
	f.t1 = time.Now()
	r.mu.Lock()
	f.fut = fu
	r.mu.Unlock()
	return f
}

// equalGroup schedules n futures with one and the same fire instant: the first with the delay d, the others with the delay
// that is left, corrected by a guess of the time Call needs before it reads the clock, until the instants match.
func (r *runner) equalGroup(d time.Duration, n int) []*frec {
	first := r.call(d, 0, false)
	aT, ok := fireTime(first.fut)
	if !ok {
		return nil
	}
	grp := []*frec{first}
	tries := 0
	for len(grp) < n && tries < 400000 {
		tries++
		f := &frec{}
		cb := func() {
			now := time.Since(r.base).Nanoseconds()
			if f.starts.Add(1) == 1 {
				f.startNs.Store(now)
			}
		}
		f.t0 = time.Now()
		f.d = aT.Sub(f.t0) - time.Duration(tries%400)
		if f.d < d/2 {
			break
		}
		f.fut = timeout.Call(cb, f.d)
		f.t1 = time.Now()
		if bT, _ := fireTime(f.fut); !bT.Equal(aT) {
			f.fut.Cancel()
			continue
		}
		r.mu.Lock()
		f.id = len(r.futs)
		r.futs = append(r.futs, f)
		r.mu.Unlock()
		grp = append(grp, f)
	}
	return grp
}

func (r *runner) cancel(f *frec, n int) {
	r.mu.Lock()
	fu := f.fut
	r.mu.Unlock()
	if fu == nil {
		return // not issued yet (concurrent caller still on its way)
	}
	for i := 0; i < n; i++ {
		fu.Cancel()
		at := time.Now()
		f.mu.Lock()
		f.cancels = append(f.cancels, at)
		f.mu.Unlock()
	}
}

func (f *frec) firstCancel() (time.Time, bool) {
	f.mu.Lock()
	defer f.mu.Unlock()
	if len(f.cancels) == 0 {
		return time.Time{}, false
	}
	return f.cancels[0], true
}

// pendingView: futures that are neither started nor cancelled, for the classifier and "cancel head".
func (r *runner) pendingView() []*frec {
	r.mu.Lock()
	defer r.mu.Unlock()
	var p []*frec
	for _, f := range r.futs {
		if f.fut == nil || f.starts.Load() > 0 {
			continue
		}
		if _, c := f.firstCancel(); c {
			continue
		}
		p = append(p, f)
	}
	return p
}

// Run plays the script. check selects the oracle: "C12" or "C13".
func Run(c TCase, check string) (info TInfo, v *vstat.Violation) {
	v = vstat.Guard("timers:panic", func() *vstat.Violation { return run(c, check, &info) })
	return
}

func run(c TCase, check string, info *TInfo) *vstat.Violation {
	idle := time.Duration(c.IdleMs) * time.Millisecond
	resetPool(c.MaxWorkers, idle)
	r := &runner{c: c, base: time.Now(), info: info, check: check}
	// goroutines of the control block the previous case left behind that have not gone yet (resetPool waits two seconds for
	// them; on an overloaded machine that may not be enough): they do not belong to the pool this case looks at
	r.stragglers = watcherGoroutines()
	if r.stragglers > 0 {
		info.class("goroutines_of_the_previous_control_block_still_alive_at_case_start")
	}
	if c.Warm {
		var warm atomic.Int32
		for i := 0; i < 3; i++ {
			timeout.Call(func() { warm.Add(1) }, time.Millisecond)
		}
		for t := time.Now(); warm.Load() < 3; time.Sleep(time.Millisecond) {
			if time.Since(t) > latenessBound {
				if check == "C13" {
					return vstat.V("timers:never-started", "warm-up: %d of 3 futures with a 1 ms delay were not started within %v (pending=%d workers=%d)", 3-warm.Load(), latenessBound, pending(), poolWorkers())
				}
				break
			}
		}
	}
	for _, op := range c.Ops {
		do := func(f func()) {
			if op.G > 0 {
				r.wg.Add(1)
				go func() { defer r.wg.Done(); f() }()
			} else {
				f()
			}
		}
		switch op.K {
		case "call":
			pend := r.pendingView()
			onlyFar := len(pend) > 0
			for _, p := range pend {
				if !p.far {
					onlyFar = false
				}
			}
			if onlyFar && op.D >= 1 && op.D <= 30 {
				info.NearWhileFar = true
			}
			if poolWorkers() == 0 && len(r.futs) > 0 {
				info.CallAfterIdle = true
			}
			d, b := time.Duration(op.D)*time.Millisecond, time.Duration(op.Block)*time.Millisecond
			do(func() { r.call(d, b, false) })
		case "burst":
			if op.N > c.MaxWorkers {
				info.BurstOverPool = true
			}
			d := time.Duration(op.D) * time.Millisecond
			n := op.N
			do(func() {
				for i := 0; i < n; i++ {
					r.call(d, 0, false)
				}
			})
		case "far":
			d := time.Duration(op.D) * time.Second
			switch op.N { // the "practically never" idioms
			case 1:
				d = time.Duration(math.MaxInt64)
			case 2:
				d = time.Duration(math.MaxInt64) - 24*time.Hour
			case 3:
				d = 1000 * time.Hour
			}
			if op.N > 0 {
				info.class("far_future_beyond_years")
			}
			r.call(d, 0, true)
		case "past":
			// a delay far below zero (the quantifier's negative delays, taken to the extremes of the Duration range): due at once
			d := -time.Duration(op.D) * time.Second
			switch op.N {
			case 1:
				d = time.Duration(math.MinInt64)
			case 2:
				d = time.Duration(math.MinInt64) + 24*time.Hour
			case 3:
				d = -1000 * time.Hour
			case 4:
				d = -60 * 8766 * time.Hour // fire time before the Unix epoch
			case 5:
				d = -100 * 8766 * time.Hour
			case 6:
				d = -time.Since(time.Unix(0, 0)) // about the Unix epoch itself
			case 7:
				d = -time.Since(time.Time{}) // about the zero time (saturates)
			}
			if op.N > 0 {
				info.class("past_due_beyond_years")
			}
			if pending() > 0 && len(r.pendingView()) > 0 {
				info.class("past_due_queued_behind_pending")
			}
			do(func() { r.call(d, 0, false) })
		case "saturate":
			// every worker the pool may have gets a callback that keeps it for op.D ms: what follows meets a pool in which
			// nobody looks at the queue
			b := time.Duration(op.D) * time.Millisecond
			var occ []*frec
			for i := 0; i < c.MaxWorkers; i++ {
				occ = append(occ, r.call(0, b, false))
			}
			for t := time.Now(); time.Since(t) < 200*time.Millisecond; {
				all := true
				for _, f := range occ {
					if f.starts.Load() == 0 {
						all = false
					}
				}
				if all {
					info.class("pool_saturated_by_blocking_callbacks")
					break
				}
				time.Sleep(50 * time.Microsecond)
			}
		case "equal":
			// op.N futures whose fire instants are EXACTLY equal (issued at different moments with matching delays; the
			// queued instant is read back through the overlay accessor); the ones selected by the bit mask op.F are cancelled
			if !hooksOn {
				info.class("equal_instants_need_the_hooks")
				continue
			}
			grp := r.equalGroup(time.Duration(op.D)*time.Millisecond, op.N)
			if len(grp) < 2 {
				info.class("equal_instants_not_constructed")
				continue
			}
			info.class("futures_with_exactly_equal_fire_instants")
			kept := false
			for i, f := range grp {
				if op.F&(1<<i) != 0 && (kept || i < len(grp)-1) {
					r.cancel(f, 1)
					info.class("cancel_among_equal_fire_instants")
				} else {
					kept = true
				}
			}
		case "cancel":
			pend := r.pendingView()
			r.mu.Lock()
			n := len(r.futs)
			r.mu.Unlock()
			if n == 0 {
				continue
			}
			var target *frec
			if op.Head && len(pend) > 0 {
				target = pend[0]
				for _, p := range pend {
					if p.t0.Add(p.d).Before(target.t0.Add(target.d)) {
						target = p
					}
				}
				info.class("cancel_head")
			} else {
				r.mu.Lock()
				target = r.futs[op.F%n]
				r.mu.Unlock()
			}
			if len(pend) >= 3 {
				latest := pend[0]
				for _, p := range pend {
					if p.t0.Add(p.d).After(latest.t0.Add(latest.d)) {
						latest = p
					}
				}
				isPending := false
				for _, p := range pend {
					if p == target {
						isPending = true
					}
				}
				if isPending && target != latest {
					info.CancelNonLast = true
				}
			}
			if target.starts.Load() > 0 {
				info.class("cancel_after_fired")
			}
			if op.N > 1 {
				info.class("cancel_repeated")
			}
			if op.G > 0 {
				info.class("cancel_from_other_goroutine")
			}
			cnt := op.N
			if cnt < 1 {
				cnt = 1
			}
			do(func() { r.cancel(target, cnt) })
		case "neighbour":
			// two futures with nearly equal deadlines (op.N microseconds apart) and a worker that becomes free exactly
			// when the first one is due: a busy callback occupies it until then
			var target atomic.Int64
			busy := func() {
				for target.Load() == 0 || time.Now().UnixNano() < target.Load() {
				}
			}
			timeout.Call(busy, 0)
			d := time.Duration(op.D) * time.Millisecond
			a := r.call(d, 0, false)
			target.Store(a.t1.Add(d).UnixNano())
			for t := time.Now(); time.Since(t) < time.Duration(op.N)*time.Microsecond; {
			}
			r.call(d, 0, false)
			info.class("neighbour_deadlines_with_a_worker_freed_at_the_first")
		case "format":
			// a future is printed, as a log line would do (it implements fmt.Stringer); any future: pending, fired, cancelled
			r.mu.Lock()
			n := len(r.futs)
			var fu timeout.Future
			if n > 0 {
				fu = r.futs[op.F%n].fut
			}
			r.mu.Unlock()
			if fu != nil {
				done := make(chan struct{})
				go func() { _ = fmt.Sprint(fu); _ = fmt.Sprintf("%v %s", fu, fu); close(done) }()
				select {
				case <-done:
				case <-time.After(latenessBound):
					return vstat.V("timers:format-blocks", "printing future #%d (fmt.Sprint) did not return within %v", op.F%n, latenessBound)
				}
				info.class("future_formatted")
			}
		case "sleep":
			time.Sleep(time.Duration(op.D) * time.Millisecond)
		case "gap": // idle gap longer than two idle timeouts: every worker may leave
			time.Sleep(2*idle + 15*time.Millisecond)
			info.class("idle_gap")
		default:
			panic("bad op " + op.K)
		}
	}
	r.wg.Wait()
	return r.verdict(idle)
}

func (r *runner) verdict(idle time.Duration) *vstat.Violation {
	r.mu.Lock()
	futs := append([]*frec(nil), r.futs...)
	r.mu.Unlock()
	r.info.Futures = len(futs)
	// which futures must start
	mustStart := func(f *frec) bool {
		if f.far {
			return false
		}
		_, cancelled := f.firstCancel()
		return !cancelled
	}
	anyCancelled := false
	var lastDue time.Time
	for _, f := range futs {
		if _, c := f.firstCancel(); c {
			anyCancelled = true
		}
		if !f.far && f.t1.Add(f.d).After(lastDue) {
			lastDue = f.t1.Add(f.d)
		}
	}
	bound := latenessBound
	if r.check == "C12" { // not a lateness oracle here: only long enough to tell "lost" from "late"
		bound = time.Second
		if anyCancelled {
			bound = 4 * time.Second
		}
	}
	deadline := lastDue.Add(bound)
	for time.Now().Before(deadline) {
		all := true
		for _, f := range futs {
			if mustStart(f) && f.starts.Load() == 0 {
				all = false
				break
			}
		}
		if all {
			break
		}
		time.Sleep(2 * time.Millisecond)
	}
	// observation window for cancelled futures and late doubles
	if until := time.Until(lastDue.Add(100 * time.Millisecond)); until > 0 {
		time.Sleep(until)
	} else {
		time.Sleep(30 * time.Millisecond)
	}
	for _, f := range futs {
		n := f.starts.Load()
		due0 := f.t0.Add(f.d) // fireT >= due0
		where := fmt.Sprintf("future #%d (delay %v, issued +%.1fms)", f.id, f.d, ms(f.t0.Sub(r.base)))
		if n > 1 {
			return vstat.V("timers:started-twice", "%s was started %d times", where, n)
		}
		if n == 1 {
			st := r.base.Add(time.Duration(f.startNs.Load()))
			if st.Before(due0) {
				return vstat.V("timers:started-early", "%s was started %.3fms before its delay had passed", where, ms(due0.Sub(st)))
			}
			if c, ok := f.firstCancel(); ok {
				if c.Before(due0) {
					return vstat.V("timers:started-after-cancel", "%s was started (+%.1fms) although Cancel had returned %.3fms before it was due", where, ms(st.Sub(r.base)), ms(due0.Sub(c)))
				}
				if d := c.Sub(due0); d > -2*time.Millisecond && d < 2*time.Millisecond {
					r.info.CancelRaced = true
				}
			}
			if mustStart(f) {
				late := st.Sub(f.t1.Add(f.d))
				if ms(late) > r.info.MaxLatenessMs {
					r.info.MaxLatenessMs = ms(late)
				}
				if r.check == "C13" && late > latenessBound {
					return vstat.V("timers:late", "%s was started %.0fms after it was due (bound %v)", where, ms(late), latenessBound)
				}
			}
			continue
		}
		// never started
		if f.far {
			continue
		}
		if c, ok := f.firstCancel(); ok {
			if d := c.Sub(due0); d > -2*time.Millisecond && d < 2*time.Millisecond {
				r.info.CancelRaced = true
			}
			continue // cancelled (before due: must not start; after due and not started: Cancel won the race - allowed)
		}
		if r.check == "C13" {
			return vstat.V("timers:never-started", "%s was not started within %v of its due time (pending=%d workers=%d)", where, latenessBound, pending(), poolWorkers())
		}
		if anyCancelled {
			return vstat.V("timers:lost-after-cancel", "%s was never cancelled but was not started within %v of its due time, while other futures of the batch were cancelled (a Cancel hit the wrong future?)", where, bound)
		}
		// C12 without any cancel in the batch: a liveness matter, C13's business
		r.info.class("c12_unstarted_without_cancel_left_to_c13")
	}
	if !heapSane() {
		return vstat.V("timers:heap-index", "a queued future does not know its own heap position")
	}
	// clean up the far futures
	for _, f := range futs {
		if f.far {
			f.fut.Cancel()
		}
	}
	if r.check != "C13" || !hooksOn || idle > time.Second {
		return nil // with the default idle timeout (30 s) the wind-down is not awaited
	}
	// wind-down: nothing is pending now, the package must reach zero background goroutines
	r.info.WindDownChecked = true
	limit := time.Now().Add(3*idle + 5*time.Second)
	// the goroutine count (read from the stacks) cannot tell this pool's workers from stragglers of the previous control
	// block: with stragglers around only the package's own counter is judged
	for poolWorkers() > 0 || (r.stragglers == 0 && watcherGoroutines() > 0) {
		if time.Now().After(limit) {
			return vstat.V("timers:no-wind-down", "nothing is pending but %d pool goroutines (package counter: %d) are still alive %v after the script (idle timeout %v)", watcherGoroutines(), poolWorkers(), 3*idle+5*time.Second, idle)
		}
		time.Sleep(2 * time.Millisecond)
	}
	// and starts up again on the next Call
	var fired atomic.Bool
	t := time.Now()
	timeout.Call(func() { fired.Store(true) }, time.Millisecond)
	for !fired.Load() {
		if time.Since(t) > latenessBound {
			return vstat.V("timers:no-restart", "a Call issued after the pool had wound down to zero goroutines did not fire within %v", latenessBound)
		}
		time.Sleep(time.Millisecond)
	}
	return nil
}

func ms(d time.Duration) float64 { return float64(d.Nanoseconds()) / 1e6 }

// watcherGoroutines counts goroutines running the package's worker loop (cross-check of the hook).
func watcherGoroutines() int {
	buf := make([]byte, 1<<20)
	n := runtime.Stack(buf, true)
	return strings.Count(string(buf[:n]), "timeout.(*callControl).watcher(")
}

// ---------------------------------------------------------------------------------------------
// exit race: a Call that arrives at the very moment the last idle worker leaves must still be served

// ExitRaceCase is the configuration of the hammer.
type ExitRaceCase struct {
	IdleUs   int `json:"idle_us"`
	Attempts int `json:"attempts"`
	SpanUs   int `json:"span_us"` // the arrival offset sweeps +-span around the measured exit moment
}

// RunExitRace repeats: schedule a prompt callback; when it has run, wait until about the moment the worker gives
// up for idleness (calibrated first), then schedule the next one. Every callback must start within the bound.
func RunExitRace(c ExitRaceCase) (hits int, v *vstat.Violation) {
	v = vstat.Guard("timers:panic", func() *vstat.Violation {
		idle := time.Duration(c.IdleUs) * time.Microsecond
		resetPool(10, idle)
		one := func() (time.Time, *vstat.Violation) { // returns when the callback finished
			var done atomic.Int64
			t := time.Now()
			timeout.Call(func() { done.Store(time.Now().UnixNano()) }, 0)
			for done.Load() == 0 {
				if time.Since(t) > latenessBound {
					return t, vstat.V("timers:never-started", "a Call issued around the moment the last idle worker left was not started within %v (pending=%d workers=%d goroutines=%d)", latenessBound, pending(), poolWorkers(), watcherGoroutines())
				}
				if time.Since(t) > 200*time.Microsecond {
					time.Sleep(20 * time.Microsecond)
				}
			}
			return time.Unix(0, done.Load()), nil
		}
		// calibration: how long after a callback does the pool reach zero workers?
		var samples []time.Duration
		const cal = 31
		for i := 0; i < cal; i++ {
			end, v := one()
			if v != nil {
				return v
			}
			for poolWorkers() > 0 {
				if time.Since(end) > latenessBound+5*time.Second {
					return vstat.V("timers:no-wind-down", "nothing is pending but the pool still has %d workers %v after the last callback (idle timeout %v)", poolWorkers(), time.Since(end), idle)
				}
			}
			samples = append(samples, time.Since(end))
		}
		// the median, capped: one stalled sample must not send the sweep (which moves 2 us per attempt) far away
		sort.Slice(samples, func(i, j int) bool { return samples[i] < samples[j] })
		center := samples[cal/2]
		maxOff := 3*idle + 500*time.Microsecond
		if center > maxOff {
			center = maxOff
		}
		span := time.Duration(c.SpanUs) * time.Microsecond
		// The arrival offset tracks the moment the worker count drops to zero (bang-bang control on what is seen at
		// arrival), so most attempts land within a microsecond or two of the worker's exit; every 8th attempt takes a
		// random-looking offset from the sweep instead, in case the interesting window is elsewhere.
		off := center
		step := 2 * time.Microsecond
		for i := 0; i < c.Attempts; i++ {
			end, v := one()
			if v != nil {
				return v
			}
			at := off
			if i%8 == 7 {
				at = center - span + time.Duration(int64(3*span/2)*int64(i%97)/97)
			}
			for time.Since(end) < at {
			}
			if poolWorkers() == 0 {
				hits++
				if i%8 != 7 {
					off -= step
				}
			} else if i%8 != 7 {
				off += step
			}
			if off < 0 {
				off = 0
			}
			if off > maxOff {
				off = maxOff
			}
		}
		_, v := one()
		return v
	})
	return
}

// RunExitSqueeze forces the order "the last idle worker takes its decision to leave; a Call arrives; whatever the worker
// still does afterwards" through the package lock (see internal/lockstep): the harness holds the lock across the moment
// the worker's idle timer fires, queues a Call behind it, and lets go. The new future must start within the bound.
func RunExitSqueeze(idle time.Duration) *vstat.Violation { return runExitSqueeze(idle, false) }

// RunExitSqueezeCallFirst: the same meeting in the other order - the Call queues on the package lock first (it finds a worker
// registered and only leaves a wake-up token), the last idle worker, whose second idle round has just ended, right behind it.
func RunExitSqueezeCallFirst(idle time.Duration) *vstat.Violation { return runExitSqueeze(idle, true) }

func runExitSqueeze(idle time.Duration, callFirst bool) *vstat.Violation {
	return vstat.Guard("timers:panic", func() *vstat.Violation {
		resetPool(10, idle)
		var done atomic.Int64
		timeout.Call(func() { done.Store(time.Now().UnixNano()) }, 0)
		for t := time.Now(); done.Load() == 0; time.Sleep(50 * time.Microsecond) {
			if time.Since(t) > latenessBound {
				return vstat.V("timers:never-started", "a Call on a fresh pool was not started within %v", latenessBound)
			}
		}
		end := time.Unix(0, done.Load())
		if callFirst {
			end = end.Add(idle) // the worker leaves after its SECOND idle round: that is the decision the Call gets ahead of
		}
		time.Sleep(time.Until(end.Add(idle / 2))) // a generous margin: the machine may be busy
		var got atomic.Bool
		old := runtime.GOMAXPROCS(1) // see RunPokeSqueeze
		defer runtime.GOMAXPROCS(old)
		withPoolLock(func() {
			if callFirst {
				go timeout.Call(func() { got.Store(true) }, 0)
				time.Sleep(4 * time.Millisecond) // the Call queues on the lock
			}
			time.Sleep(time.Until(end.Add(idle + 8*time.Millisecond))) // the worker's idle timer fires meanwhile: it queues on the lock to take its decision
			if !callFirst {
				go timeout.Call(func() { got.Store(true) }, 0)
				time.Sleep(4 * time.Millisecond) // the Call queues behind it; both have waited > 1 ms: FIFO hand-over
			}
		})
		for t := time.Now(); !got.Load(); time.Sleep(100 * time.Microsecond) {
			if time.Since(t) > latenessBound {
				return vstat.V("timers:never-started", "a Call that arrived right %s the last idle worker's decision to leave was not started within %v (pending=%d workers=%d goroutines=%d)", map[bool]string{false: "behind", true: "ahead of"}[callFirst], latenessBound, pending(), poolWorkers(), watcherGoroutines())
			}
		}
		return nil
	})
}

// RunPokeSqueeze forces "the only worker computes its sleep towards a distant deadline; a Call with a near deadline
// arrives right behind that computation" through the package lock: the worker is first parked inside a callback the
// harness owns, then released while the harness holds the lock, so that it queues for its next critical section with
// the new Call queued right behind it. The near future must start within the bound (the poke must not be lost).
// RunBargeSqueeze: surplus workers (the pool grew during a burst) reach their decision to leave while `calls` Calls have
// queued on the package lock ahead of them - nobody is parked on the wake channel meanwhile, so the Calls' wake-up tokens pile
// up. Afterwards the package must still work: a Call returns at once and its function is started.
func RunBargeSqueeze(idle time.Duration, workers, calls int) *vstat.Violation {
	return vstat.Guard("timers:panic", func() *vstat.Violation {
		resetPool(10, idle)
		far := timeout.Call(func() {}, 600*time.Second) // the queue is never empty: leaving workers take the "head not due" path
		var ran atomic.Int32
		var last atomic.Int64
		for i := 0; i < workers; i++ {
			timeout.Call(func() { time.Sleep(2 * time.Millisecond); last.Store(time.Now().UnixNano()); ran.Add(1) }, 0)
		}
		for t := time.Now(); int(ran.Load()) < workers; time.Sleep(100 * time.Microsecond) {
			if time.Since(t) > latenessBound {
				far.Cancel()
				return vstat.V("timers:never-started", "a burst of %d futures due at once was not started within %v", workers, latenessBound)
			}
		}
		end := time.Unix(0, last.Load())
		// the workers sleep one idle timeout, find nothing, sleep another one and then decide to leave
		time.Sleep(time.Until(end.Add(2*idle - idle/3)))
		old := runtime.GOMAXPROCS(1)
		var futs []timeout.Future
		var fmu sync.Mutex
		withPoolLock(func() {
			for i := 0; i < calls; i++ {
				go func() {
					f := timeout.Call(func() {}, time.Hour)
					fmu.Lock()
					futs = append(futs, f)
					fmu.Unlock()
				}()
			}
			time.Sleep(time.Until(end.Add(2*idle + idle/3 + 4*time.Millisecond))) // the workers' timers fire: they queue behind the Calls
		})
		runtime.GOMAXPROCS(old)
		var got atomic.Bool
		returned := make(chan struct{})
		go func() { timeout.Call(func() { got.Store(true) }, 0); close(returned) }()
		select {
		case <-returned:
		case <-time.After(latenessBound):
			abandonPool(10, idle) // whoever holds the package lock keeps it: start over on a fresh control block
			return vstat.V("timers:call-blocked", "%d Calls queued on the package lock ahead of %d surplus workers that were about to leave; afterwards a Call did not RETURN within %v: the package lock is held for ever", calls, workers-1, latenessBound)
		}
		for t := time.Now(); !got.Load(); time.Sleep(100 * time.Microsecond) {
			if time.Since(t) > latenessBound {
				return vstat.V("timers:never-started", "%d Calls queued on the package lock ahead of %d surplus workers that were about to leave; a Call due at once afterwards was not started within %v (pending=%d workers=%d)", calls, workers-1, latenessBound, pending(), poolWorkers())
			}
		}
		far.Cancel()
		fmu.Lock()
		for _, f := range futs {
			f.Cancel()
		}
		fmu.Unlock()
		return nil
	})
}

func RunPokeSqueeze() *vstat.Violation {
	return vstat.Guard("timers:panic", func() *vstat.Violation {
		resetPool(10, 30*time.Second)
		far := timeout.Call(func() {}, 600*time.Second)
		defer far.Cancel()
		gate, inCb := make(chan struct{}), make(chan struct{})
		timeout.Call(func() { close(inCb); <-gate }, time.Millisecond)
		select {
		case <-inCb:
		case <-time.After(latenessBound):
			close(gate)
			return vstat.V("timers:never-started", "a Call with a 1 ms delay on a fresh pool was not started within %v", latenessBound)
		}
		var fired atomic.Bool
		t0 := time.Now()
		// one P while the queue is arranged and let go: the FIFO hand-over of the lock then also hands over the
		// processor, so the Call's critical section runs to its end before the worker executes its next instruction
		old := runtime.GOMAXPROCS(1)
		defer runtime.GOMAXPROCS(old)
		withPoolLock(func() {
			close(gate) // the worker leaves the callback and queues on the lock for its next decision
			time.Sleep(2 * time.Millisecond)
			go timeout.Call(func() { fired.Store(true) }, 10*time.Millisecond)
			time.Sleep(3 * time.Millisecond)
		})
		for !fired.Load() {
			if time.Since(t0) > latenessBound {
				return vstat.V("timers:late", "a Call with a 10 ms delay that arrived right behind the only worker's decision to sleep towards a deadline 600 s away was not started within %v (pending=%d workers=%d): the wake-up was lost", latenessBound, pending(), poolWorkers())
			}
			time.Sleep(200 * time.Microsecond)
		}
		return nil
	})
}
