package p_ring

import (
	"fmt"
	"io"
	"reflect"
	"unsafe"

	gerrors "github.com/acquirecloud/golibs/errors"
)

// Element types of the shapes unit that cannot be compared with == (V is `any` for the buffer: slices, maps, funcs,
// structs and arrays holding them are legal element types), and interface element types, whose values include the nil
// interface (the zero value of V, a legal element like any other), typed nils and dynamic values that are themselves
// uncomparable. The harness tells such elements apart by identity: the backing array of a slice, the map header, the
// number a func returns - every value carries the serial number it was made with.

type sliceHolder struct {
	Tag  []int
	Name string
}

type tagErr struct{ N int }

func (e *tagErr) Error() string {
	if e == nil {
		return "tagErr(nil)"
	}
	return fmt.Sprintf("tagErr#%d", e.N)
}

type valErr struct {
	Text string
	N    int
}

func (e valErr) Error() string { return e.Text }

// sameSlice: the very same slice header (nil-ness, backing array, length, capacity).
func sameSlice[E any](a, b []E) bool {
	return (a == nil) == (b == nil) && len(a) == len(b) && cap(a) == cap(b) && unsafe.SliceData(a) == unsafe.SliceData(b)
}

func showSlice[E any](a []E) string {
	if a == nil {
		return fmt.Sprintf("%T(nil)", a)
	}
	return fmt.Sprintf("%T%v(cap %d)", a, a, cap(a))
}

// mkBytes: nil, empty (told apart by their capacity) and tagged slices.
func mkBytes(i int) []byte {
	switch i % 6 {
	case 4:
		return nil
	case 5:
		return make([]byte, 0, 1+i%50)
	}
	return []byte{byte(i), byte(i >> 8), '%', 's'}
}

func mkInts(i int) []int {
	switch i % 5 {
	case 3:
		return nil
	case 4:
		return make([]int, 0, 1+i%50)
	}
	return []int{i}
}

func zeroKind(isZero bool) string {
	if isZero {
		return "zero_value"
	}
	return ""
}

var bytesElem = elem[[]byte]{mk: mkBytes, same: sameSlice[byte], show: showSlice[byte], showSharp: showSlice[byte],
	kind: func(v []byte) string { return zeroKind(v == nil) }}

func showMap(m map[string]int) string {
	if m == nil {
		return "map[string]int(nil)"
	}
	return fmt.Sprintf("map#%d(len %d)", m["#"], len(m))
}

var mapElem = elem[map[string]int]{
	mk: func(i int) map[string]int {
		switch i % 5 {
		case 3:
			return nil
		case 4:
			return map[string]int{}
		}
		return map[string]int{"#": i, hostile[i%len(hostile)]: i}
	},
	same: func(a, b map[string]int) bool { return reflect.ValueOf(a).Pointer() == reflect.ValueOf(b).Pointer() },
	show: showMap, showSharp: showMap,
	kind: func(v map[string]int) string { return zeroKind(v == nil) },
}

func showFunc(f func() int) string {
	if f == nil {
		return "func() int(nil)"
	}
	return fmt.Sprintf("func#%d", f())
}

var funcElem = elem[func() int]{
	mk: func(i int) func() int {
		if i%5 == 3 {
			return nil
		}
		return func() int { return i }
	},
	same: func(a, b func() int) bool { return (a == nil) == (b == nil) && (a == nil || a() == b()) },
	show: showFunc, showSharp: showFunc,
	kind: func(v func() int) string { return zeroKind(v == nil) },
}

func showHolder(h sliceHolder) string {
	return fmt.Sprintf("{Tag:%s Name:%q}", showSlice(h.Tag), h.Name)
}

var holderElem = elem[sliceHolder]{
	mk: func(i int) sliceHolder {
		if i%7 == 5 {
			return sliceHolder{}
		}
		return sliceHolder{Tag: mkInts(i), Name: fmt.Sprintf("%s#%d", hostile[i%len(hostile)], i)}
	},
	same: func(a, b sliceHolder) bool { return a.Name == b.Name && sameSlice(a.Tag, b.Tag) },
	show: showHolder, showSharp: showHolder,
	kind: func(v sliceHolder) string { return zeroKind(v.Tag == nil && v.Name == "") },
}

func showArr(a [2][]int) string { return "[" + showSlice(a[0]) + " " + showSlice(a[1]) + "]" }

var arrayElem = elem[[2][]int]{
	mk: func(i int) [2][]int {
		if i%7 == 5 {
			return [2][]int{}
		}
		return [2][]int{mkInts(i), mkInts(i + 1)}
	},
	same: func(a, b [2][]int) bool { return sameSlice(a[0], b[0]) && sameSlice(a[1], b[1]) },
	show: showArr, showSharp: showArr,
	kind: func(v [2][]int) string { return zeroKind(v[0] == nil && v[1] == nil) },
}

// sameIface: identity of two interface values: both the nil interface, or the same dynamic type and - for comparable
// dynamic types - equal values, for slices the same slice header, for maps the same map.
func sameIface(a, b any) bool {
	if a == nil || b == nil {
		return a == nil && b == nil
	}
	ta, tb := reflect.TypeOf(a), reflect.TypeOf(b)
	if ta != tb {
		return false
	}
	if ta.Comparable() {
		return a == b
	}
	va, vb := reflect.ValueOf(a), reflect.ValueOf(b)
	switch ta.Kind() {
	case reflect.Slice:
		return va.IsNil() == vb.IsNil() && va.Len() == vb.Len() && va.Cap() == vb.Cap() && va.Pointer() == vb.Pointer()
	case reflect.Map:
		return va.Pointer() == vb.Pointer()
	}
	panic(fmt.Sprintf("harness: no identity rule for %T", a))
}

// showIface renders an interface value without addresses.
func showIface(x any) string {
	if x == nil {
		return "<nil interface>"
	}
	rv := reflect.ValueOf(x)
	switch rv.Kind() {
	case reflect.Pointer, reflect.Map, reflect.Slice, reflect.Func:
		if rv.IsNil() {
			return fmt.Sprintf("(%T)(nil)", x)
		}
	}
	switch v := x.(type) {
	case *int:
		return fmt.Sprintf("*int#%d", *v)
	case []byte:
		return showSlice(v)
	case error:
		return fmt.Sprintf("%T(%q)", x, v.Error())
	}
	return fmt.Sprintf("%T(%#v)", x, x)
}

func ifaceKind(x any) string {
	if x == nil {
		return "nil_interface"
	}
	rv := reflect.ValueOf(x)
	switch rv.Kind() {
	case reflect.Pointer, reflect.Map, reflect.Slice, reflect.Func:
		if rv.IsNil() {
			return "typed_nil_in_interface"
		}
	}
	if !rv.Type().Comparable() {
		return "uncomparable_value_in_interface"
	}
	return "non_nil_value_in_interface"
}

// anyElem: RingBuffer[any]. The values: the nil interface, typed nils (pointer, map), ints, hostile strings, pointers,
// an uncomparable []byte, a struct, an error.
var anyElem = elem[any]{
	mk: func(i int) any {
		switch i % 9 {
		case 0:
			return nil
		case 1:
			return (*int)(nil)
		case 2:
			return i
		case 3:
			return hostile[i%len(hostile)]
		case 4:
			p := new(int)
			*p = i
			return p
		case 5:
			return mkBytes(i - i%6) // a tagged, non-nil slice
		case 6:
			return wrapped{hostile[i%len(hostile)], i}
		case 7:
			return map[string]int(nil)
		}
		return fmt.Errorf("%s#%d", hostile[i%len(hostile)], i)
	},
	same: sameIface, show: showIface, showSharp: showIface, kind: ifaceKind,
}

// errorElem: RingBuffer[error]. The values: the nil interface, a typed nil pointer, pointer and value implementations
// (with hostile texts), sentinel errors (io.EOF and ErrExhausted themselves are legal elements).
var errorElem = elem[error]{
	mk: func(i int) error {
		switch i % 6 {
		case 0:
			return nil
		case 1:
			return (*tagErr)(nil)
		case 2:
			return &tagErr{i}
		case 3:
			return valErr{hostile[i%len(hostile)], i}
		case 4:
			if i%12 == 4 {
				return io.EOF
			}
			return gerrors.ErrExhausted
		}
		return fmt.Errorf("%s#%d: %w", hostile[i%len(hostile)], i, io.ErrUnexpectedEOF)
	},
	same:      func(a, b error) bool { return sameIface(a, b) },
	show:      func(v error) string { return showIface(v) },
	showSharp: func(v error) string { return showIface(v) },
	kind:      func(v error) string { return ifaceKind(v) },
}

// uncomparableShapes and interfaceShapes are the names the shape cases use.
var uncomparableShapes = []string{"bytes", "map", "func", "struct_with_slice", "array_of_slices"}
var interfaceShapes = []string{"any", "error"}
