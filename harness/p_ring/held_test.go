package p_ring

import (
	"errors"
	"fmt"
	"io"
	"math"
	"os"
	"sort"
	"strconv"
	"testing"
	"unsafe"

	"github.com/acquirecloud/golibs/container"
	gerrors "github.com/acquirecloud/golibs/errors"
	"verifharness/internal/vstat"
)

// The other units move the ARGUMENTS across the word sizes 2^16, 2^31, 2^32; the buffers themselves hold few elements.
// This unit moves the number of elements the buffer HOLDS across them: a buffer is filled by single Write calls (there
// is no bulk write) and, whenever the held count reaches a checkpoint (2^p-1, 2^p, 2^p+1, the brim), a fixed battery of
// calls is compared with the arithmetic model (held count, serial number of the oldest element): Len, Cap, At inside
// and outside the range (incl. indices beyond 2^31 that are in range), Skip, ReadN, Read, and Write on the full buffer.
// Element types with a size hold up to 2^24 (byte) or 2^16 elements; a zero-size element type, whose backing array costs
// nothing, is filled past 2^31 and 2^32 held elements in the thorough tier (billions of calls: not for the quick tier).

type heldCase struct {
	Shape       string `json:"shape"`
	Cap         int    `json:"cap"`
	Offset      int    `json:"offset"`      // elements written and skipped first, so that the indices do not start at 0 and the window wraps at the brim
	Checkpoints []int  `json:"checkpoints"` // ascending held counts <= Cap
	Drain       string `json:"drain"`       // how the buffer is emptied at the end: readn, skip, skip_max, clear
}

type heldInfo struct {
	Classes map[string]bool
}

func (hi *heldInfo) note(format string, a ...any) {
	if hi.Classes == nil {
		hi.Classes = map[string]bool{}
	}
	hi.Classes[fmt.Sprintf(format, a...)] = true
}

// nearPow names n when it lies within 2 of a power of two >= 2^8 ("2^31+1"), else "".
func nearPow(n int) string {
	for p := 8; p < 63; p++ {
		if d := n - 1<<p; d >= -2 && d <= 2 {
			if d == 0 {
				return fmt.Sprintf("2^%d", p)
			}
			return fmt.Sprintf("2^%d%+d", p, d)
		}
	}
	return ""
}

func runHeldCase(c heldCase) (*vstat.Violation, heldInfo) {
	var hi heldInfo
	if r, ok := basicRunners[c.Shape]; ok {
		return r.held(c, &hi), hi
	}
	switch c.Shape {
	case "string":
		return runHeld(c, comparableElem(func(i int) string { return fmt.Sprintf("%s#%d", hostile[i%len(hostile)], i) }), &hi), hi
	case "zerosize":
		return runHeld(c, zeroSizeElem, &hi), hi
	}
	panic("harness: no such held shape " + c.Shape)
}

func runHeld[V any](c heldCase, el elem[V], hi *heldInfo) *vstat.Violation {
	return vstat.Guard("ring:panic", func() *vstat.Violation { return runHeldG(c, el, hi) })
}

func runHeldG[V any](c heldCase, el elem[V], hi *heldInfo) *vstat.Violation {
	rb := container.NewRingBuffer[V](uint(c.Cap))
	var zero V
	first, next := 0, 0 // serial numbers of the oldest element and of the next one to be written; held = next-first
	where := ""
	lenCap := func() *vstat.Violation {
		if got := rb.Len(); got != next-first {
			return vstat.V("ring:len", "%s: Len()=%d want %d", where, got, next-first)
		}
		if got := rb.Cap(); got != c.Cap {
			return vstat.V("ring:cap", "%s: Cap()=%d want %d", where, got, c.Cap)
		}
		return nil
	}
	write := func(k int) *vstat.Violation {
		for j := 0; j < k; j++ {
			if err := rb.Write(el.mk(next)); err != nil {
				return vstat.V("ring:write-rejected", "%s: Write failed with %v while Len=%d<Cap=%d", where, err, next-first, c.Cap)
			}
			next++
			if next&(1<<22-1) == 0 { // a cheap look at Len on the way
				if got := rb.Len(); got != next-first {
					return vstat.V("ring:len", "%s: Len()=%d after a Write that was accepted with %d elements in the buffer", where, got, next-first-1)
				}
			}
		}
		return nil
	}
	at := func(i int) (got V, panicked bool) {
		defer func() {
			if recover() != nil {
				panicked = true
			}
		}()
		return rb.At(i), false
	}
	skip := func(arg, want int) *vstat.Violation {
		if got := rb.Skip(arg); got != want {
			return vstat.V("ring:skip-count", "%s: Skip(%d) returned %d want %d", where, arg, got, want)
		}
		first += want
		return lenCap()
	}
	readn := func(ln, front, back int) *vstat.Violation {
		n := next - first
		scratch := make([]V, front+ln+back)
		dst := scratch[front : front+ln]
		want := min(ln, n)
		got := rb.ReadN(dst)
		if got > len(dst) {
			return vstat.V("ring:readn-count-exceeds-dst", "%s: ReadN(scratch[%d:%d] of %d) returned %d", where, front, front+ln, len(scratch), got)
		}
		if got != want {
			return vstat.V("ring:readn-count", "%s: ReadN(%d slots) returned %d want min(%d,%d)", where, ln, got, ln, n)
		}
		if unsafe.Sizeof(zero) != 0 {
			for j := 0; j < want; j++ {
				if !el.same(dst[j], el.mk(first+j)) {
					return vstat.V("ring:readn-wrong-element", "%s: ReadN(%d slots): dst[%d]=%s want %s", where, ln, j, el.show(dst[j]), el.show(el.mk(first+j)))
				}
			}
			for j := range scratch {
				if (j < front || j >= front+want) && !el.same(scratch[j], zero) {
					return vstat.V("ring:readn-wrote-outside-dst", "%s: ReadN(scratch[%d:%d] of %d) read %d elements and overwrote scratch[%d] with %s", where, front, front+ln, len(scratch), want, j, el.show(scratch[j]))
				}
			}
		}
		first += want
		return lenCap()
	}
	read := func() *vstat.Violation {
		got, err := rb.Read()
		if next == first {
			if err != io.EOF {
				return vstat.V("ring:read-on-empty", "%s: Read on empty returned (%s,%v), want io.EOF", where, el.show(got), err)
			}
			return nil
		}
		if err != nil || !el.same(got, el.mk(first)) {
			return vstat.V("ring:read-wrong-element", "%s: Read returned (%s,%v) want %s (Len=%d)", where, el.show(got), err, el.show(el.mk(first)), next-first)
		}
		first++
		return lenCap()
	}
	// probe: the battery of calls at a held count; leaves the held count as it found it
	probe := func() *vstat.Violation {
		n := next - first
		if v := lenCap(); v != nil {
			return v
		}
		in := []int{0, 1, n / 2, n - 2, n - 1}
		out := []int{-1, n, n + 1, math.MaxInt, math.MinInt}
		for _, m := range Moduli {
			in = append(in, m-1, m, m+1, n-m, n-m-1) // beyond a word size yet in range, if the buffer holds that many
			out = append(out, n+m, n-1+m, -m, m-1, m, m+1)
		}
		for _, i := range in {
			if i < 0 || i >= n {
				continue
			}
			got, panicked := at(i)
			if panicked || !el.same(got, el.mk(first+i)) {
				return vstat.V("ring:at-wrong-element", "%s: At(%d) panicked=%v got %s want %s (Len=%d)", where, i, panicked, el.show(got), el.show(el.mk(first+i)), n)
			}
		}
		for _, i := range out {
			if i >= 0 && i < n {
				continue
			}
			if _, panicked := at(i); !panicked {
				return vstat.V("ring:at-no-panic-out-of-range", "%s: At(%d) did not panic although Len=%d", where, i, n)
			}
		}
		for _, arg := range []int{0, -1, -(1 << 31), -(1 << 32), math.MinInt} {
			if v := skip(arg, 0); v != nil {
				return v
			}
		}
		if n == c.Cap {
			hi.note("written_to_the_brim")
			if s := nearPow(n); s != "" {
				hi.note("written_to_the_brim_holding_%s", s)
			}
			err := rb.Write(el.mk(next))
			if err == nil {
				return vstat.V("ring:write-on-full-accepted", "%s: Write succeeded with Len==Cap=%d", where, n)
			}
			if !errors.Is(err, gerrors.ErrExhausted) {
				return vstat.V("ring:write-on-full-wrong-error", "%s: Write on the full buffer returned %q, which is not ErrExhausted", where, err.Error())
			}
			if v := lenCap(); v != nil {
				return v
			}
		}
		// take a few elements out through every reading call and put as many back
		if v := skip(3, min(3, n)); v != nil {
			return v
		}
		if v := readn(2, 1, 3); v != nil {
			return v
		}
		if v := readn(0, 0, 2); v != nil {
			return v
		}
		if v := read(); v != nil {
			return v
		}
		if v := write(n - (next - first)); v != nil {
			return v
		}
		return lenCap()
	}

	where = fmt.Sprintf("cap=%d elements of type %T, offset phase", c.Cap, zero)
	off := min(max(c.Offset, 0), c.Cap)
	if v := write(off); v != nil {
		return v
	}
	if v := skip(off, off); v != nil {
		return v
	}
	for _, n := range c.Checkpoints {
		if n < next-first || n > c.Cap {
			continue
		}
		where = fmt.Sprintf("cap=%d elements of type %T, filling from %d to %d held elements", c.Cap, zero, next-first, n)
		if v := write(n - (next - first)); v != nil {
			return v
		}
		where = fmt.Sprintf("cap=%d elements of type %T, holding %d elements", c.Cap, zero, n)
		if s := nearPow(n); s != "" {
			hi.note("holding_%s", s)
		}
		if first%(c.Cap+1)+n > c.Cap+1 {
			hi.note("live_window_wrapped_at_a_checkpoint")
		}
		if v := probe(); v != nil {
			return v
		}
	}
	n := next - first
	where = fmt.Sprintf("cap=%d elements of type %T, final %s of %d held elements", c.Cap, zero, c.Drain, n)
	hi.note("drained_by_%s", c.Drain)
	switch c.Drain {
	case "readn":
		if v := readn(n+2, 1, 1); v != nil {
			return v
		}
	case "skip":
		if v := skip(n, n); v != nil {
			return v
		}
	case "skip_max":
		if v := skip(math.MaxInt, n); v != nil {
			return v
		}
	default:
		rb.Clear()
		first = next
		if v := lenCap(); v != nil {
			return v
		}
	}
	if v := read(); v != nil { // io.EOF
		return v
	}
	if _, panicked := at(0); !panicked {
		return vstat.V("ring:at-no-panic-out-of-range", "%s: At(0) did not panic on the emptied buffer", where)
	}
	if c.Cap > 0 {
		if v := write(1); v != nil {
			return v
		}
		if v := read(); v != nil {
			return v
		}
	}
	return nil
}

// heldCases: per element shape the powers of two its held count crosses.
func heldCases() []heldCase {
	top := vstat.Pick(24, 32) // zero-size elements
	if s := os.Getenv("VERIF_RING_HELD_MAXPOW"); s != "" {
		if k, err := strconv.Atoi(s); err == nil && k >= 8 && k <= 34 {
			top = k
		}
	}
	var cases []heldCase
	add := func(shape string, pows []int) {
		maxp := pows[len(pows)-1]
		drains := []string{"readn", "skip", "skip_max", "clear"}
		// one buffer a little larger than the largest power, walked through every checkpoint up to its brim
		long := heldCase{Shape: shape, Cap: 1<<maxp + 2, Offset: 5, Drain: "readn"}
		for _, p := range pows {
			long.Checkpoints = append(long.Checkpoints, 1<<p-1, 1<<p, 1<<p+1)
		}
		long.Checkpoints = append(long.Checkpoints, long.Cap)
		cases = append(cases, long)
		// buffers whose brim is the power itself, one below, one above
		for i := len(pows) - 1; i >= 0; i-- {
			p := pows[i]
			cases = append(cases, heldCase{Shape: shape, Cap: 1 << p, Offset: 1 + i, Checkpoints: []int{1<<p - 1, 1 << p}, Drain: drains[(i+1)%4]})
			if p <= 24 {
				cases = append(cases, heldCase{Shape: shape, Cap: 1<<p - 1, Offset: 2, Checkpoints: []int{1<<p - 2, 1<<p - 1}, Drain: drains[(i+2)%4]},
					heldCase{Shape: shape, Cap: 1<<p + 1, Offset: 1 << (p - 1), Checkpoints: []int{1 << p, 1<<p + 1}, Drain: drains[(i+3)%4]})
			}
		}
	}
	var zp []int
	for _, p := range []int{8, 15, 16, 24, 31, 32, 33, 34} {
		if p <= top {
			zp = append(zp, p)
		}
	}
	add("zerosize", zp) // the most expensive cases first: they go to different shards
	add("byte", []int{8, 15, 16, 24})
	add("bool", []int{8, 15, 16})
	add("int", []int{8, 15, 16})
	add("string", []int{8, 15, 16})
	add("float64", []int{8, 16})
	add("named_byte", []int{8, 16})
	return cases
}

func TestC14Held(t *testing.T) {
	st := vstat.For(prop)
	shard, shards := vstat.Shard()
	for i, c := range heldCases() {
		if i%shards != shard {
			continue
		}
		v, hi := runHeldCase(c)
		st.Report(t, "TestC14Held", c, v)
		classes := []string{"held_elements:" + c.Shape}
		for k := range hi.Classes {
			classes = append(classes, "held_elements:"+c.Shape+":"+k)
		}
		sort.Strings(classes)
		st.Case(true, vstat.Hash(c), func() any { return c }, classes...)
	}
}
