package p_ring

import (
	"fmt"
	"sync"
	"testing"

	"pgregory.net/rapid"
	"verifharness/internal/vstat"
)

// C14 speaks about the call sequence of ONE buffer. A buffer is an ordinary value: what other, unrelated buffers do
// at the same time must not matter. This unit lets several goroutines run generated cases at the same time, each on
// buffers of its own (no buffer is ever shared, so no synchronisation is owed by the caller), every one of them
// against the slice model. Capacities differ between the goroutines and many of them are used for the first time in
// the process. State shared between buffers shows either as a model mismatch or - unsynchronised - as a fatal runtime
// error, which the driver attributes as process-crash.

// parItem is a family of private buffers: the op list runs on a fresh buffer of every capacity Cap..Cap+Span-1 in turn.
// Shape "" = *int elements (main runner, slot sweep), else an element shape of the shapes unit. The op "F"(d) stands
// for cap+d Write calls (to the brim, one short of it, or beyond - whatever the capacity of the turn is).
type parItem struct {
	Shape string `json:"shape,omitempty"`
	Cap   int    `json:"cap"`
	Span  int    `json:"span"`
	Ops   []Op   `json:"ops"`
}

// parCase: Workers[g] is the series of private buffers goroutine g works through.
type parCase struct {
	Workers [][]parItem `json:"workers"`
}

type parInfo struct {
	Buffers, Full, DistinctCaps int
}

func runItem(it parItem) (full int, v *vstat.Violation) {
	for cp := it.Cap; cp < it.Cap+max(it.Span, 1); cp++ {
		ops := make([]Op, 0, len(it.Ops))
		for _, op := range it.Ops {
			switch {
			case op.K != "F":
				ops = append(ops, op)
			case it.Shape == "":
				ops = append(ops, Op{K: "f", N: max(cp+op.N, 0)})
			default:
				for j := 0; j < cp+op.N; j++ {
					ops = append(ops, Op{K: "w"})
				}
			}
		}
		if it.Shape == "" {
			info, v := Run(Case{Cap: cp, Ops: ops})
			if info.Full {
				full++
			}
			if v != nil {
				return full, vstat.V(v.Sig, "capacity %d of the family: %s", cp, v.Msg)
			}
		} else if v := runShapeCase(shapeCase{Shape: it.Shape, Cap: cp, Ops: ops}); v != nil {
			return full, vstat.V(v.Sig, "capacity %d of the family: %s", cp, v.Msg)
		}
	}
	return full, nil
}

func runPar(c parCase) (parInfo, *vstat.Violation) {
	var pi parInfo
	type res struct {
		item int
		v    *vstat.Violation
		full int
	}
	out := make([]res, len(c.Workers))
	start := make(chan struct{})
	var wg sync.WaitGroup
	for g := range c.Workers {
		wg.Add(1)
		go func(g int) {
			defer wg.Done()
			<-start
			for i, it := range c.Workers[g] {
				full, v := runItem(it)
				out[g].full += full
				if v != nil {
					out[g].item, out[g].v = i, v
					return
				}
			}
		}(g)
	}
	close(start)
	wg.Wait()
	caps := map[int]bool{}
	for g, w := range c.Workers {
		pi.Full += out[g].full
		for _, it := range w {
			pi.Buffers += max(it.Span, 1)
			for cp := it.Cap; cp < it.Cap+max(it.Span, 1); cp++ {
				caps[cp] = true
			}
		}
	}
	pi.DistinctCaps = len(caps)
	for g := range out {
		if v := out[g].v; v != nil {
			it := c.Workers[g][out[g].item]
			return pi, vstat.V(v.Sig, "goroutine %d of %d, its private buffer family #%d (cap=%d.. %s): %s", g, len(c.Workers), out[g].item, it.Cap, it.Shape, v.Msg)
		}
	}
	return pi, nil
}

func genParCase(t *rapid.T) parCase {
	var c parCase
	workers := rapid.IntRange(2, 8).Draw(t, "workers")
	for g := 0; g < workers; g++ {
		items := rapid.IntRange(1, 10).Draw(t, "buffers")
		var w []parItem
		for i := 0; i < items; i++ {
			it := parItem{Shape: rapid.SampledFrom([]string{"", "", "", "", "", "", "string", "struct", "zerosize", "byte", "bool", "float64", "named_string"}).Draw(t, "shape")}
			if it.Shape == "" {
				it.Cap = rapid.OneOf(rapid.IntRange(0, 8), rapid.IntRange(0, 100), rapid.IntRange(0, 5000)).Draw(t, "cap")
			} else {
				it.Cap = rapid.IntRange(0, 40).Draw(t, "cap")
			}
			it.Span = rapid.OneOf(rapid.Just(1), rapid.IntRange(1, 48)).Draw(t, "span")
			if it.Cap > 300 {
				it.Span = min(it.Span, 6) // a buffer of thousands takes thousands of calls to fill
			}
			// most buffers are brought to the brim first (and beyond): that is where Write changes its answer
			if fill := rapid.IntRange(-1, 2).Draw(t, "fill"); fill >= 0 {
				it.Ops = append(it.Ops, Op{K: "F", N: fill - 1})
			}
			kinds := []string{"w", "w", "w", "w", "r", "n", "s", "a", "c"}
			n := rapid.IntRange(0, 24).Draw(t, "len")
			for j := 0; j < n; j++ {
				op := Op{K: rapid.SampledFrom(kinds).Draw(t, "k"), N: rapid.IntRange(-1, 8).Draw(t, "n")}
				if op.K == "n" && rapid.IntRange(0, 2).Draw(t, "window") == 0 { // destination = window of a larger array
					op.F, op.B = rapid.IntRange(0, 2).Draw(t, "front"), rapid.IntRange(0, 9).Draw(t, "back")
				}
				it.Ops = append(it.Ops, op)
			}
			w = append(w, it)
		}
		c.Workers = append(c.Workers, w)
	}
	return c
}

func TestC14Independent(t *testing.T) {
	st := vstat.For(prop)
	rapid.Check(t, func(rt *rapid.T) {
		c := genParCase(rt)
		pi, v := runPar(c)
		st.Report(rt, "TestC14Independent", c, v)
		st.Case(pi.Full > 0, vstat.Hash(c), func() any { return c },
			fmt.Sprintf("independent_buffers_in_parallel:goroutines=%d", len(c.Workers)),
			"independent_buffers_in_parallel:buffers="+bucket(pi.Buffers), "independent_buffers_in_parallel:full_buffers="+bucket(pi.Full),
			"independent_buffers_in_parallel:distinct_capacities="+bucket(pi.DistinctCaps))
	})
}

func bucket(n int) string {
	switch {
	case n == 0:
		return "0"
	case n < 4:
		return "1-3"
	case n < 16:
		return "4-15"
	case n < 128:
		return "16-127"
	default:
		return ">=128"
	}
}
