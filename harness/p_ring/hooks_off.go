//go:build nohooks

package p_ring

import "github.com/acquirecloud/golibs/container"

const hooksOn = false

func slots(rb container.RingBuffer[*int]) ([]*int, int, int, bool) { return nil, 0, 0, false }
