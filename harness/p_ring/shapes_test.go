package p_ring

import (
	"errors"
	"fmt"
	"io"
	"math"
	"testing"
	"unsafe"

	"github.com/acquirecloud/golibs/container"
	gerrors "github.com/acquirecloud/golibs/errors"
	"pgregory.net/rapid"
	"verifharness/internal/vstat"
)

// The main runner uses *int elements (so that a consumed slot can be recognised). The FIFO contract does not depend on
// the element type; these units run it with other legal shapes of V: strings whose text looks like a format directive,
// structs holding such strings, and a zero-size element type with capacities that only such a type can have.

var hostile = []string{"", "a", "100%", "%s", "%d%d", "%w", "%!v(MISSING)", "ring%20buffer", "%[2]v", "%", "%%", "\x00", "日本", "%v: %w"}

type wrapped struct {
	Name string
	N    int
}

// runShape executes an op list on a RingBuffer[V] against a slice model; mk makes the i-th value.
func runShape[V comparable](cp int, ops []Op, mk func(i int) V, congr *bool) *vstat.Violation {
	return runShapeW(cp, ops, mk, congr, new(bool))
}

// runShapeW: ReadN destinations are windows scratch[F:F+N] (see Op); window is set when such a window had spare capacity
// while the buffer held more than len(dst) elements. The scratch outside the window starts as the zero value of V and
// must stay so.
func runShapeW[V comparable](cp int, ops []Op, mk func(i int) V, congr, window *bool) *vstat.Violation {
	var si shapeInfo
	v := runShapeE(cp, ops, comparableElem(mk), &si)
	*congr, *window = si.Congr, si.Window
	return v
}

// elem describes an element type V to the runner. V need not be comparable: same decides whether two values are the
// same element (for slices, maps, funcs: through the identity of what they refer to / a tag reachable from them), show
// renders a value without addresses, kind names the values worth counting ("" = ordinary; "zero_value", "nil_interface",
// "typed_nil_in_interface", ...).
type elem[V any] struct {
	mk        func(i int) V
	same      func(a, b V) bool
	show      func(v V) string
	showSharp func(v V) string // used where the runner always printed %#v
	kind      func(v V) string
}

func comparableElem[V comparable](mk func(i int) V) elem[V] {
	return elem[V]{mk: mk, same: func(a, b V) bool { return a == b },
		show:      func(v V) string { return fmt.Sprintf("%v", v) },
		showSharp: func(v V) string { return fmt.Sprintf("%#v", v) },
		kind:      func(V) string { return "" }}
}

// shapeInfo is the classification of one run.
type shapeInfo struct {
	Congr, Window bool
	WrapReadN     bool            // a ReadN moved elements from both sides of the wrap point of the backing array
	RoomyWrapped  bool            // a ReadN destination had room for everything (len(dst) >= Len > 0) while the live window was wrapped
	RoomyFlat     bool            // ... while the live window was not wrapped
	Stored        map[string]bool // kinds of the values that were accepted by Write
	Refused       map[string]bool // kinds of the values that met a full buffer
	Returned      map[string]bool // kinds of the values that came back through Read / ReadN / At
}

func (si *shapeInfo) note(m *map[string]bool, kind string) {
	if kind == "" {
		return
	}
	if *m == nil {
		*m = map[string]bool{}
	}
	(*m)[kind] = true
}

// runShapeE is the runner for any element type.
func runShapeE[V any](cp int, ops []Op, el elem[V], si *shapeInfo) *vstat.Violation {
	mk, same, show := el.mk, el.same, el.show
	congr, window := &si.Congr, &si.Window
	return vstat.Guard("ring:panic", func() *vstat.Violation {
		rb := container.NewRingBuffer[V](uint(cp))
		var model []V
		next := 0
		rpos, wpos, n1 := 0, 0, cp+1 // classification only: where the indices of an array of cap+1 slots would be
		advance := func(pos *int, k int) { // *pos = (*pos + k) mod n1 without overflow (k <= cap)
			if *pos >= n1-k {
				*pos -= n1 - k
			} else {
				*pos += k
			}
		}
		var zero V
		maxDst := 64
		if unsafe.Sizeof(zero) == 0 {
			maxDst = math.MaxInt // a destination slice of zero-size elements costs nothing whatever its length
		}
		for _, op := range ops {
			if op.K != "w" && op.K != "r" && op.K != "c" && (op.N >= 1<<16 || op.N <= -(1<<16)) {
				for _, m := range Moduli {
					if r := ((op.N % m) + m) % m; r < 10 {
						*congr = true
					}
				}
			}
		}
		for i, op := range ops {
			where := fmt.Sprintf("op #%d %s(%d) cap=%d elements of type %T", i, op.K, op.N, cp, zero)
			switch op.K {
			case "w":
				v := mk(next)
				next++
				err := rb.Write(v)
				if len(model) == cp {
					si.note(&si.Refused, el.kind(v))
					if err == nil {
						return vstat.V("ring:write-on-full-accepted", "%s: Write(%s) succeeded with Len==Cap", where, show(v))
					}
					if !errors.Is(err, gerrors.ErrExhausted) {
						return vstat.V("ring:write-on-full-wrong-error", "%s: Write(%s) on a full buffer returned %q, which is not ErrExhausted", where, el.showSharp(v), err.Error())
					}
				} else {
					si.note(&si.Stored, el.kind(v))
					if err != nil {
						return vstat.V("ring:write-rejected", "%s: Write(%s) failed with %v while Len=%d<Cap", where, show(v), err, len(model))
					}
					model = append(model, v)
					advance(&wpos, 1)
				}
			case "r":
				got, err := rb.Read()
				if len(model) == 0 {
					if err != io.EOF {
						return vstat.V("ring:read-on-empty", "%s: Read on empty returned (%s,%v), want io.EOF", where, show(got), err)
					}
				} else {
					if err != nil || !same(got, model[0]) {
						return vstat.V("ring:read-wrong-element", "%s: Read returned (%s,%v) want %s", where, show(got), err, show(model[0]))
					}
					si.note(&si.Returned, el.kind(got))
					model = model[1:]
					advance(&rpos, 1)
				}
			case "n":
				ln := min(max(op.N, 0), maxDst)
				front, back := min(max(op.F, 0), maxDst-ln), max(op.B, 0)
				back = min(back, maxDst-ln-front)
				scratch := make([]V, front+ln+back)
				dst := scratch[front : front+ln] // cap(dst) = ln+back
				want := min(ln, len(model))
				if back > 0 && len(model) > ln {
					*window = true
				}
				if want > 0 && rpos > wpos && want > n1-rpos {
					si.WrapReadN = true
				}
				if len(model) > 0 && ln >= len(model) {
					if rpos > wpos {
						si.RoomyWrapped = true
					} else {
						si.RoomyFlat = true
					}
				}
				got := rb.ReadN(dst)
				if got > len(dst) {
					return vstat.V("ring:readn-count-exceeds-dst", "%s: ReadN(scratch[%d:%d] of %d) returned %d although len(dst)=%d (Len=%d)", where, front, front+ln, len(scratch), got, len(dst), len(model))
				}
				if got != want {
					return vstat.V("ring:readn-count", "%s: ReadN returned %d want %d", where, got, want)
				}
				if front+back <= 1<<16 {
					for j := 0; j < front; j++ {
						if !same(scratch[j], zero) {
							return vstat.V("ring:readn-wrote-outside-dst", "%s: scratch[%d] in front of the destination window scratch[%d:%d] was overwritten with %s", where, j, front, front+ln, show(scratch[j]))
						}
					}
					for j := front + ln; j < len(scratch); j++ {
						if !same(scratch[j], zero) {
							return vstat.V("ring:readn-wrote-outside-dst", "%s: scratch[%d] behind the destination window scratch[%d:%d] was overwritten with %s", where, j, front, front+ln, show(scratch[j]))
						}
					}
				}
				for j := 0; j < want; j++ {
					if !same(dst[j], model[j]) {
						return vstat.V("ring:readn-wrong-element", "%s: dst[%d]=%s want %s", where, j, show(dst[j]), show(model[j]))
					}
					si.note(&si.Returned, el.kind(dst[j]))
				}
				if ln <= 1<<16 {
					for j := want; j < ln; j++ {
						if !same(dst[j], zero) {
							return vstat.V("ring:readn-wrote-beyond", "%s: dst[%d] was overwritten with %s although only %d elements were read", where, j, show(dst[j]), want)
						}
					}
				}
				model = model[want:]
				advance(&rpos, want)
			case "s":
				want := 0
				if op.N > 0 {
					want = min(op.N, len(model))
				}
				if got := rb.Skip(op.N); got != want {
					return vstat.V("ring:skip-count", "%s: Skip returned %d want %d", where, got, want)
				}
				model = model[want:]
				advance(&rpos, want)
			case "a":
				inRange := op.N >= 0 && op.N < len(model)
				var got V
				panicked := func() (p bool) {
					defer func() {
						if recover() != nil {
							p = true
						}
					}()
					got = rb.At(op.N)
					return false
				}()
				if inRange && (panicked || !same(got, model[op.N])) {
					return vstat.V("ring:at-wrong-element", "%s: At panicked=%v got %s want %s (Len=%d)", where, panicked, show(got), show(model[op.N]), len(model))
				}
				if !inRange && !panicked {
					return vstat.V("ring:at-no-panic-out-of-range", "%s: At did not panic although Len=%d", where, len(model))
				}
			case "c":
				rb.Clear()
				advance(&rpos, len(model))
				model = model[:0]
			}
			if rb.Len() != len(model) {
				return vstat.V("ring:len", "after %s: Len()=%d want %d", where, rb.Len(), len(model))
			}
			if rb.Cap() != cp {
				return vstat.V("ring:cap", "after %s: Cap()=%d want %d", where, rb.Cap(), cp)
			}
		}
		return nil
	})
}

type shapeCase struct {
	Shape string `json:"shape"`
	Cap   int    `json:"cap"`
	Ops   []Op   `json:"ops"`
}

func runShapeCase(c shapeCase) *vstat.Violation {
	v, _ := runShapeCaseInfo(c)
	return v
}

// runShapeCaseInfo also tells whether an index/count argument was a small value moved out of range by a multiple of
// 2^16, 2^31 or 2^32 (classification only).
func runShapeCaseInfo(c shapeCase) (v *vstat.Violation, congr bool) {
	v, congr, _ = runShapeCaseInfoW(c)
	return v, congr
}

// runShapeCaseInfoW also tells whether a ReadN destination was a window with spare capacity, shorter than Len.
func runShapeCaseInfoW(c shapeCase) (v *vstat.Violation, congr, window bool) {
	v, si := runShapeCaseFull(c)
	return v, si.Congr, si.Window
}

// runShapeCaseFull dispatches on the element shape and returns the whole classification.
func runShapeCaseFull(c shapeCase) (v *vstat.Violation, si shapeInfo) {
	switch c.Shape {
	case "string":
		v = runShapeE(c.Cap, c.Ops, comparableElem(func(i int) string { return fmt.Sprintf("%s#%d", hostile[i%len(hostile)], i) }), &si)
	case "struct":
		v = runShapeE(c.Cap, c.Ops, comparableElem(func(i int) wrapped { return wrapped{hostile[i%len(hostile)], i} }), &si)
	case "barestring":
		v = runShapeE(c.Cap, c.Ops, comparableElem(func(i int) string { return hostile[i%len(hostile)] }), &si)
	case "bytes":
		v = runShapeE(c.Cap, c.Ops, bytesElem, &si)
	case "map":
		v = runShapeE(c.Cap, c.Ops, mapElem, &si)
	case "func":
		v = runShapeE(c.Cap, c.Ops, funcElem, &si)
	case "struct_with_slice":
		v = runShapeE(c.Cap, c.Ops, holderElem, &si)
	case "array_of_slices":
		v = runShapeE(c.Cap, c.Ops, arrayElem, &si)
	case "any":
		v = runShapeE(c.Cap, c.Ops, anyElem, &si)
	case "error":
		v = runShapeE(c.Cap, c.Ops, errorElem, &si)
	default:
		if r, ok := basicRunners[c.Shape]; ok { // predeclared basic types and named types over them
			v = r.run(c.Cap, c.Ops, &si)
			break
		}
		// zero-size elements: the only shape for which capacities near MaxInt can be allocated
		v = runShapeE(c.Cap, c.Ops, zeroSizeElem, &si)
	}
	return v, si
}

func TestC14Shapes(t *testing.T) {
	st := vstat.For(prop)
	run := func(tb vstat.TB, c shapeCase) {
		v, si := runShapeCaseFull(c)
		congr, window := si.Congr, si.Window
		st.Report(tb, "TestC14Shapes", c, v)
		classes := []string{"element_shape:" + c.Shape}
		for _, m := range []struct {
			what string
			set  map[string]bool
		}{{"stored", si.Stored}, {"written_to_full_buffer", si.Refused}, {"returned", si.Returned}} {
			for _, k := range []string{"zero_value", "nil_interface", "typed_nil_in_interface", "uncomparable_value_in_interface", "non_nil_value_in_interface"} {
				if m.set[k] {
					classes = append(classes, "element_shape:"+c.Shape+":"+k+"_"+m.what)
				}
			}
		}
		if window {
			classes = append(classes, "element_shape:"+c.Shape+":readn_into_window_with_spare_capacity_shorter_than_Len")
		}
		if si.WrapReadN {
			classes = append(classes, "element_shape:"+c.Shape+":readn_spans_wrap_point")
		}
		if si.RoomyWrapped {
			classes = append(classes, "element_shape:"+c.Shape+":readn_with_room_for_everything_on_wrapped_window")
		}
		if si.RoomyFlat {
			classes = append(classes, "element_shape:"+c.Shape+":readn_with_room_for_everything_on_unwrapped_window")
		}
		if congr {
			classes = append(classes, "element_shape:"+c.Shape+":argument_congruent_to_small_value_mod_2^16_2^31_2^32")
			if c.Cap > 1<<32 {
				classes = append(classes, "element_shape:"+c.Shape+":such_an_argument_on_a_backing_array_beyond_2^32_slots")
			}
		}
		st.Case(true, vstat.Hash(c), func() any { return c }, classes...)
	}
	// systematic: fill to capacity, write once more (with every hostile text in turn), drain
	// (the uncomparable and interface element types too: every kind of value - nil interface, typed nil, zero value,
	// uncomparable dynamic value - meets the full buffer of every capacity 0..3 and travels through it)
	allShapes := append(append(append([]string{"string", "barestring", "struct"}, uncomparableShapes...), interfaceShapes...), basicShapes...)
	for _, shape := range allShapes {
		for cp := 0; cp <= 3; cp++ {
			for start := 0; start < len(hostile); start++ {
				var ops []Op
				for i := 0; i < start; i++ { // rotate which text meets the full buffer
					ops = append(ops, Op{K: "w"}, Op{K: "r"})
				}
				for i := 0; i <= cp+1; i++ {
					ops = append(ops, Op{K: "w"})
				}
				ops = append(ops, Op{K: "a", N: 0}, Op{K: "n", N: cp + 1}, Op{K: "r"})
				run(t, shapeCase{Shape: shape, Cap: cp, Ops: ops})
			}
		}
	}
	for _, cp := range []int{math.MaxInt - 1, math.MaxInt - 100, 1 << 62, 1 << 40, 1 << 31} {
		var ops []Op
		for i := 0; i < 130; i++ {
			ops = append(ops, Op{K: "w"})
			if i%40 == 39 {
				ops = append(ops, Op{K: "a", N: i / 2}, Op{K: "r"}, Op{K: "s", N: 7}, Op{K: "n", N: 5})
			}
		}
		// arguments whose low 16, 31 or 32 bits look like a small in-range value
		for _, m := range Moduli {
			for _, mult := range []int{1, 3, -1} {
				ops = append(ops, Op{K: "a", N: mult*m + 2}, Op{K: "a", N: mult * m}, Op{K: "w"}, Op{K: "w"}, Op{K: "s", N: mult*m + 1}, Op{K: "w"}, Op{K: "w"}, Op{K: "n", N: mult*m + 1})
			}
		}
		ops = append(ops, Op{K: "a", N: 0}, Op{K: "c"}, Op{K: "r"}, Op{K: "w"}, Op{K: "a", N: 0})
		run(t, shapeCase{Shape: "zerosize", Cap: cp, Ops: ops})
	}
	rapid.Check(t, func(rt *rapid.T) {
		c := shapeCase{Shape: rapid.SampledFrom(append(allShapes, "zerosize")).Draw(rt, "shape")}
		c.Cap = rapid.IntRange(0, 6).Draw(rt, "cap")
		if c.Shape == "zerosize" && rapid.Bool().Draw(rt, "huge") {
			c.Cap = rapid.SampledFrom([]int{math.MaxInt - 1, math.MaxInt - 3, math.MaxInt - 200, 1 << 62, 1 << 33}).Draw(rt, "hugeCap")
		}
		kinds := []string{"w", "w", "w", "w", "r", "n", "s", "a", "c"}
		n := rapid.IntRange(1, 60).Draw(rt, "len")
		for i := 0; i < n; i++ {
			op := Op{K: rapid.SampledFrom(kinds).Draw(rt, "k"), N: rapid.IntRange(-1, 8).Draw(rt, "n")}
			// one argument in six leaves the range by a multiple of 2^16, 2^31 or 2^32
			if op.K != "w" && op.K != "r" && op.K != "c" && rapid.IntRange(0, 5).Draw(rt, "wide") == 0 {
				op.N += rapid.SampledFrom([]int{1, 1, 1, 2, 3, -1, -2, 255, 1 << 20}).Draw(rt, "mult") * rapid.SampledFrom(Moduli).Draw(rt, "modulus")
			}
			// one ReadN destination in two is a window of a larger array (elements in front, spare capacity behind)
			if op.K == "n" && rapid.Bool().Draw(rt, "window") {
				op.F, op.B = rapid.IntRange(0, 3).Draw(rt, "front"), rapid.IntRange(0, 9).Draw(rt, "back")
			}
			c.Ops = append(c.Ops, op)
		}
		run(rt, c)
	})
}
