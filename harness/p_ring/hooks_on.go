//go:build !nohooks

package p_ring

import "github.com/acquirecloud/golibs/container"

const hooksOn = true

func slots(rb container.RingBuffer[*int]) ([]*int, int, int, bool) {
	return container.VerifRingSlots[*int](rb)
}
