package p_ring

import (
	"fmt"
	"math"
	"sort"

	"verifharness/internal/vstat"
)

// Predeclared basic element types and named types over them. The buffer is generic, so an implementation is free to
// treat some instantiation differently (byte buffers are the usual candidate for an io-like fast path, pointer-free
// types need no clearing, ...): the FIFO contract has to hold for every one of them. byte and uint8 are the same type,
// so are rune and int32. Every value set contains the zero value of the type (a legal element like any other) and,
// for the floating-point types, the values that == does not identify with themselves or tells apart wrongly (NaN, -0):
// the harness compares those bit by bit.

type (
	namedByte    byte
	namedBool    bool
	namedString  string
	namedFloat64 float64
	namedInt     int
	namedRune    rune
)

type integer interface {
	~int | ~int8 | ~int16 | ~int32 | ~int64 | ~uint | ~uint8 | ~uint16 | ~uint32 | ~uint64 | ~uintptr
}

// intElem: serial numbers converted to V (wrapping for the narrow types), every fifth value is 0.
func intElem[V integer]() elem[V] {
	return elem[V]{
		mk: func(i int) V {
			if i%5 == 3 {
				return 0
			}
			return V(i + 1)
		},
		same:      func(a, b V) bool { return a == b },
		show:      func(v V) string { return fmt.Sprintf("%T(%d)", v, v) },
		showSharp: func(v V) string { return fmt.Sprintf("%T(%d)", v, v) },
		kind:      func(v V) string { return zeroKind(v == 0) },
	}
}

// boolElem: the pattern true,false,false has period 3, so a queue shifted by one or two positions is noticed.
func boolElem[V ~bool]() elem[V] {
	return elem[V]{
		mk:        func(i int) V { return V(i%3 == 0) },
		same:      func(a, b V) bool { return a == b },
		show:      func(v V) string { return fmt.Sprintf("%T(%v)", v, v) },
		showSharp: func(v V) string { return fmt.Sprintf("%T(%v)", v, v) },
		kind:      func(v V) string { return zeroKind(!bool(v)) },
	}
}

func floatValue(i int) float64 {
	switch i % 7 {
	case 2:
		return 0
	case 3:
		return math.Copysign(0, -1)
	case 4:
		return math.Float64frombits(0x7ff8000000000000 | uint64(i)) // a NaN carrying the serial number
	case 5:
		return math.Inf(1 - 2*(i&2))
	}
	return float64(i) + 0.5
}

func floatElem[V ~float64]() elem[V] {
	bits := func(v V) uint64 { return math.Float64bits(float64(v)) }
	show := func(v V) string { return fmt.Sprintf("%T(%v, bits %#x)", v, float64(v), bits(v)) }
	return elem[V]{mk: func(i int) V { return V(floatValue(i)) }, same: func(a, b V) bool { return bits(a) == bits(b) },
		show: show, showSharp: show, kind: func(v V) string { return zeroKind(bits(v) == 0) }}
}

var float32Elem = func() elem[float32] {
	show := func(v float32) string { return fmt.Sprintf("float32(%v, bits %#x)", v, math.Float32bits(v)) }
	return elem[float32]{mk: func(i int) float32 { return float32(floatValue(i)) },
		same: func(a, b float32) bool { return math.Float32bits(a) == math.Float32bits(b) },
		show: show, showSharp: show, kind: func(v float32) string { return zeroKind(math.Float32bits(v) == 0) }}
}()

var complexElem = func() elem[complex128] {
	bits := func(v complex128) [2]uint64 { return [2]uint64{math.Float64bits(real(v)), math.Float64bits(imag(v))} }
	show := func(v complex128) string { return fmt.Sprintf("complex128(%v, bits %#x)", v, bits(v)) }
	return elem[complex128]{mk: func(i int) complex128 { return complex(floatValue(i), floatValue(i+3)) },
		same: func(a, b complex128) bool { return bits(a) == bits(b) },
		show: show, showSharp: show, kind: func(v complex128) string { return zeroKind(bits(v) == [2]uint64{}) }}
}()

// namedStringElem: hostile texts, every fifth value is the empty string (the zero value).
var namedStringElem = elem[namedString]{
	mk: func(i int) namedString {
		if i%5 == 3 {
			return ""
		}
		return namedString(fmt.Sprintf("%s#%d", hostile[i%len(hostile)], i))
	},
	same:      func(a, b namedString) bool { return a == b },
	show:      func(v namedString) string { return fmt.Sprintf("namedString(%q)", string(v)) },
	showSharp: func(v namedString) string { return fmt.Sprintf("namedString(%q)", string(v)) },
	kind:      func(v namedString) string { return zeroKind(v == "") },
}

// zeroSizeElem: struct{} elements; all values are the same, the counts carry the whole contract.
var zeroSizeElem = comparableElem(func(i int) struct{} { return struct{}{} })

type shapeRunner struct {
	run  func(cp int, ops []Op, si *shapeInfo) *vstat.Violation
	held func(c heldCase, hi *heldInfo) *vstat.Violation
}

func runnerOf[V any](el elem[V]) shapeRunner {
	return shapeRunner{
		run:  func(cp int, ops []Op, si *shapeInfo) *vstat.Violation { return runShapeE(cp, ops, el, si) },
		held: func(c heldCase, hi *heldInfo) *vstat.Violation { return runHeld(c, el, hi) },
	}
}

// basicRunners: the predeclared basic element types (string is covered by the shapes "string" and "barestring").
var basicRunners = map[string]shapeRunner{
	"byte":          runnerOf(intElem[byte]()), // = uint8
	"int8":          runnerOf(intElem[int8]()),
	"uint16":        runnerOf(intElem[uint16]()),
	"rune":          runnerOf(intElem[rune]()), // = int32
	"int":           runnerOf(intElem[int]()),
	"int64":         runnerOf(intElem[int64]()),
	"uint64":        runnerOf(intElem[uint64]()),
	"uintptr":       runnerOf(intElem[uintptr]()),
	"bool":          runnerOf(boolElem[bool]()),
	"float32":       runnerOf(float32Elem),
	"float64":       runnerOf(floatElem[float64]()),
	"complex128":    runnerOf(complexElem),
	"named_byte":    runnerOf(intElem[namedByte]()),
	"named_int":     runnerOf(intElem[namedInt]()),
	"named_rune":    runnerOf(intElem[namedRune]()),
	"named_bool":    runnerOf(boolElem[namedBool]()),
	"named_float64": runnerOf(floatElem[namedFloat64]()),
	"named_string":  runnerOf(namedStringElem),
}

// basicShapes: the names, sorted (generation must not depend on map order).
var basicShapes = func() []string {
	var s []string
	for k := range basicRunners {
		s = append(s, k)
	}
	sort.Strings(s)
	return s
}()
