package p_ring

import (
	"math"
	"testing"

	"pgregory.net/rapid"
	"verifharness/internal/enum"
	"verifharness/internal/vstat"
)

const prop = "C14"

func TestMain(m *testing.M) { vstat.Main(m) }

func record(c Case, info Info) {
	vstat.For(prop).Case(info.NonTrivial(), c.Hash(), func() any { return c }, info.Classes()...)
}

func TestC14Exhaustive(t *testing.T) {
	st := vstat.For(prop)
	shard, shards := vstat.Shard()
	maxCap := vstat.Pick(3, 4)
	total := int64(0)
	depths := map[int]int{}
	wideDepth := vstat.Pick(3, 4)
	for pass := 0; pass < 2; pass++ {
		for cp := 0; cp <= maxCap; cp++ {
			alpha := Alphabet(cp)
			depth := vstat.Pick(4, 5) // capacities 2 and 3
			if cp == 0 {
				depth = vstat.Pick(5, 6)
			}
			if cp == 1 {
				depth = vstat.Pick(4, 6)
			}
			if cp == 4 {
				depth = 4
			}
			if pass == 1 {
				// second pass: the alphabet widened by the arguments congruent to in-range ones modulo 2^16, 2^31, 2^32,
				// one level shallower (the lists without such an argument were all run in the first pass)
				alpha, depth = WideAlphabet(cp), wideDepth
			} else {
				depths[cp] = depth
			}
			ops := make([]Op, 0, depth)
			total += enum.Lists(len(alpha), depth, shard, shards, func(idx []int) {
				ops = ops[:0]
				for _, i := range idx {
					ops = append(ops, alpha[i])
				}
				c := Case{Cap: cp, Ops: ops}
				info, v := Run(c)
				if v != nil {
					c.Ops = append([]Op(nil), ops...)
					st.Report(t, "TestC14Exhaustive", c, v)
				}
				if info.NonTrivial() {
					c.Ops = append([]Op(nil), ops...)
				}
				record(c, info)
			})
		}
	}
	st.SetExhaustive("ring_oplists", map[string]any{"depth_by_capacity": depths, "depth_with_congruent_arguments": wideDepth, "lists": total, "shards": shards, "hooks": hooksOn})
}

func genCase(t *rapid.T) Case {
	var cp int
	switch rapid.IntRange(0, 10).Draw(t, "capClass") {
	case 10: // big buffers: thousands of slots, around powers of two
		cp = rapid.OneOf(rapid.IntRange(301, 5000), rapid.SampledFrom([]int{1023, 1024, 1025, 2047, 2048, 2049, 4096})).Draw(t, "cap")
	case 0, 1, 2:
		cp = rapid.IntRange(0, 4).Draw(t, "cap")
	case 3, 4, 5:
		cp = rapid.IntRange(5, 20).Draw(t, "cap")
	default:
		cp = rapid.IntRange(21, 300).Draw(t, "cap")
	}
	// congruent: a value of [lo, hi] moved out of range by a multiple of 2^16, 2^31 or 2^32 (its low bits still look in range)
	congruent := func(lo, hi int, moduli []int, mult []int) *rapid.Generator[int] {
		return rapid.Custom(func(t *rapid.T) int {
			k := rapid.OneOf(rapid.IntRange(lo, hi), rapid.IntRange(lo, min(hi, 3))).Draw(t, "low")
			return k + rapid.SampledFrom(mult).Draw(t, "mult")*rapid.SampledFrom(moduli).Draw(t, "modulus")
		})
	}
	plain := func(lo, hi int) []*rapid.Generator[int] {
		return []*rapid.Generator[int]{rapid.IntRange(lo, hi), rapid.IntRange(lo, min(hi, 3)), rapid.IntRange(max(lo, cp-2), hi), rapid.IntRange(-1000, 100000),
			rapid.SampledFrom([]int{math.MaxInt, math.MaxInt - 1, math.MaxInt / 2, math.MaxInt32, math.MaxInt32 + 1, 1 << 40, math.MinInt, math.MinInt + 1, -1 << 40})}
	}
	arg := func(lo, hi int) *rapid.Generator[int] {
		return rapid.OneOf(append(plain(lo, hi), congruent(lo, hi, Moduli, []int{1, 1, 1, 2, 3, -1, -2, 255, 1 << 20}))...)
	}
	// ReadN needs a real destination slice: its length can leave the range by small multiples of 2^16 only
	readnArg := rapid.OneOf(append(append(append(plain(0, cp+2), plain(0, cp+2)...), plain(0, cp+2)...), congruent(0, cp+2, Moduli[:1], []int{1, 1, 2, 3}))...)
	opGen := rapid.Custom(func(t *rapid.T) Op {
		switch rapid.IntRange(0, 15).Draw(t, "kind") {
		case 0, 1, 2, 3, 4, 5, 6:
			return Op{K: "w"}
		case 7, 8:
			return Op{K: "r"}
		case 9, 10, 11:
			op := Op{K: "n", N: min(1<<20, max(0, readnArg.Draw(t, "n")))}
			// two destinations in five are windows scratch[F:F+N] of a larger array: elements in front of the window and
			// spare capacity behind it (a little, or enough for a full buffer); lengths then lean towards the short ones
			// (0 included), so that the buffer often holds more than the window is long
			if w := rapid.IntRange(0, 4).Draw(t, "window"); w <= 1 {
				op.F = rapid.IntRange(0, 3).Draw(t, "front")
				op.B = rapid.OneOf(rapid.IntRange(0, 3), rapid.IntRange(0, cp+2)).Draw(t, "back")
				if w == 0 {
					op.N = rapid.OneOf(rapid.IntRange(0, 2), rapid.IntRange(0, cp+2)).Draw(t, "windowLen")
				}
			}
			return op
		case 12, 13:
			return Op{K: "s", N: arg(-1, cp+2).Draw(t, "n")}
		case 14:
			return Op{K: "a", N: arg(-1, cp+1).Draw(t, "n")}
		default:
			return Op{K: "c"}
		}
	})
	maxLen := vstat.Pick(200, 600)
	if cp > 300 {
		// single calls barely move a buffer of thousands: mix in bulk writes (to the brim and beyond, or part of the way)
		single := opGen
		opGen = rapid.Custom(func(t *rapid.T) Op {
			if rapid.IntRange(0, 3).Draw(t, "bulk") == 0 {
				return Op{K: "f", N: rapid.OneOf(rapid.IntRange(cp-2, cp+2), rapid.IntRange(1, cp)).Draw(t, "fill")}
			}
			return single.Draw(t, "single")
		})
		maxLen = 24
	}
	ops := rapid.SliceOfN(opGen, 0, maxLen).Draw(t, "ops")
	// a burst of writes up front makes large buffers reach their interesting states
	if cp > 4 && rapid.Bool().Draw(t, "prefill") {
		k := rapid.IntRange(0, cp+1).Draw(t, "prefillN")
		pre := make([]Op, k)
		for i := range pre {
			pre[i] = Op{K: "w"}
		}
		ops = append(pre, ops...)
	}
	return Case{Cap: cp, Ops: ops}
}

func TestC14Rapid(t *testing.T) {
	st := vstat.For(prop)
	rapid.Check(t, func(t *rapid.T) {
		c := genCase(t)
		info, v := Run(c)
		st.Report(t, "TestC14Rapid", c, v)
		record(c, info)
	})
}

func TestReplay(t *testing.T) {
	p := vstat.ReplayPath()
	if p == "" {
		t.Skip("no replay requested")
	}
	if env, err := vstat.LoadReplay(p, nil); err == nil && env.Test == "TestC14Shapes" {
		var sc shapeCase
		if _, err := vstat.LoadReplay(p, &sc); err != nil {
			t.Fatalf("cannot load %s: %v", p, err)
		}
		vstat.For(prop).Report(t, "TestReplay", sc, runShapeCase(sc))
		return
	}
	if env, err := vstat.LoadReplay(p, nil); err == nil && env.Test == "TestC14Held" {
		var hc heldCase
		if _, err := vstat.LoadReplay(p, &hc); err != nil {
			t.Fatalf("cannot load %s: %v", p, err)
		}
		v, _ := runHeldCase(hc)
		vstat.For(prop).Report(t, "TestReplay", hc, v)
		return
	}
	if env, err := vstat.LoadReplay(p, nil); err == nil && env.Test == "TestC14Independent" {
		var pc parCase
		if _, err := vstat.LoadReplay(p, &pc); err != nil {
			t.Fatalf("cannot load %s: %v", p, err)
		}
		_, v := runPar(pc)
		vstat.For(prop).Report(t, "TestReplay", pc, v)
		return
	}
	var c Case
	if _, err := vstat.LoadReplay(p, &c); err != nil {
		t.Fatalf("cannot load %s: %v", p, err)
	}
	info, v := Run(c)
	vstat.For(prop).Report(t, "TestReplay", c, v)
	record(c, info)
}
