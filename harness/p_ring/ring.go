// Package p_ring decides C14: the ring buffer is a bounded FIFO queue for every call sequence.
package p_ring

import (
	"errors"
	"fmt"
	"io"
	"math"

	"github.com/acquirecloud/golibs/container"
	gerrors "github.com/acquirecloud/golibs/errors"
	"verifharness/internal/vstat"
)

// Op is one call. K: w(rite) r(ead) n(ReadN) s(kip) a(t) c(lear). N is the argument of n/s/a.
// For ReadN the destination is the window scratch[F : F+N] of an array of F+N+B elements: F elements lie in front of it
// and B elements of spare capacity behind it (cap(dst) = N+B). F = B = 0 is a destination made to measure.
type Op struct {
	K string `json:"k"`
	N int    `json:"n,omitempty"`
	F int    `json:"f,omitempty"`
	B int    `json:"b,omitempty"`
}

// Case is a capacity plus a call sequence.
type Case struct {
	Cap int  `json:"cap"`
	Ops []Op `json:"ops"`
}

// Info is what the classifier needs.
type Info struct {
	Wrap, Full, Empty, BigFill, Extreme bool
	BigFull                             bool // a buffer of more than 300 slots was written to the brim
	Congruent                           bool // an out-of-range argument agreed with an in-range one modulo 2^16, 2^31 or 2^32
	Window                              bool // a ReadN destination was a window of a larger array (elements in front and/or spare capacity behind)
	WindowShort                         bool // ... with spare capacity behind it while the buffer held more than len(dst) elements
	WindowZero                          bool // ... of length 0 with capacity, on a non-empty buffer
}

// Run executes the case against the real buffer and the slice model.
func Run(c Case) (info Info, v *vstat.Violation) {
	v = vstat.Guard("ring:panic", func() *vstat.Violation { return run(c, &info) })
	return info, v
}

func run(c Case, info *Info) *vstat.Violation {
	rb := container.NewRingBuffer[*int](uint(c.Cap))
	var model []*int
	next := 0
	rpos, wpos, n1 := 0, 0, c.Cap+1 // classification only: where the indices of an array of cap+1 would be
	sentinel := new(int)
	*sentinel = -1
	// a bulk op "f"(N) stands for N single Write calls (used to bring big buffers to the brim)
	ops := c.Ops
	for _, op := range c.Ops {
		if op.K == "f" {
			ops = make([]Op, 0, len(c.Ops))
			for _, o := range c.Ops {
				if o.K == "f" {
					for j := 0; j < o.N; j++ {
						ops = append(ops, Op{K: "w"})
					}
				} else {
					ops = append(ops, o)
				}
			}
			break
		}
	}
	for i, op := range ops {
		where := fmt.Sprintf("op #%d %s(%d) cap=%d", i, op.K, op.N, c.Cap)
		switch op.K {
		case "w":
			next++
			p := new(int)
			*p = next
			err := rb.Write(p)
			if len(model) == c.Cap {
				info.Full = true
				if c.Cap > 300 {
					info.BigFull = true
				}
				if err == nil {
					return vstat.V("ring:write-on-full-accepted", "%s: Write succeeded with Len==Cap", where)
				}
				if !errors.Is(err, gerrors.ErrExhausted) {
					return vstat.V("ring:write-on-full-wrong-error", "%s: error %v is not ErrExhausted", where, err)
				}
			} else {
				if err != nil {
					return vstat.V("ring:write-rejected", "%s: Write failed with %v while Len=%d<Cap", where, err, len(model))
				}
				model = append(model, p)
				wpos = (wpos + 1) % n1
			}
		case "r":
			got, err := rb.Read()
			if len(model) == 0 {
				info.Empty = true
				if err != io.EOF {
					return vstat.V("ring:read-on-empty", "%s: Read on empty returned (%v,%v), want io.EOF", where, got, err)
				}
				if got != nil {
					return vstat.V("ring:read-on-empty", "%s: Read on empty returned a value", where)
				}
			} else {
				if err != nil {
					return vstat.V("ring:read-failed", "%s: Read failed with %v while Len=%d", where, err, len(model))
				}
				if got != model[0] {
					return vstat.V("ring:read-wrong-element", "%s: Read returned %s want %s", where, ps(got), ps(model[0]))
				}
				model = model[1:]
				rpos = (rpos + 1) % n1
			}
		case "n":
			ln := op.N
			if ln < 0 {
				ln = 0
			}
			if CongruentInRange(ln, len(model)+1) {
				info.Congruent = true
			}
			// the destination is a window of the scratch array; everything outside the window is a canary
			front, back := max(op.F, 0), max(op.B, 0)
			scratch := make([]*int, front+ln+back)
			for j := range scratch {
				scratch[j] = sentinel
			}
			dst := scratch[front : front+ln] // cap(dst) = ln+back
			want := min(ln, len(model))
			if front > 0 || back > 0 {
				info.Window = true
				if back > 0 && len(model) > ln {
					info.WindowShort = true
					if ln == 0 {
						info.WindowZero = true
					}
				}
			}
			if want > 0 && rpos+want > n1-1 && rpos > wpos {
				info.Wrap = true
			}
			if want >= 50 {
				info.BigFill = true
			}
			got := rb.ReadN(dst)
			if front > 0 || back > 0 {
				where = fmt.Sprintf("%s dst=scratch[%d:%d] of %d", where, front, front+ln, len(scratch))
			}
			if got > len(dst) {
				return vstat.V("ring:readn-count-exceeds-dst", "%s: ReadN returned %d although len(dst)=%d (cap(dst)=%d, Len=%d)", where, got, len(dst), cap(dst), len(model))
			}
			if got != want {
				return vstat.V("ring:readn-count", "%s: ReadN returned %d want min(%d,%d)=%d", where, got, ln, len(model), want)
			}
			for j := 0; j < want; j++ {
				if dst[j] != model[j] {
					return vstat.V("ring:readn-wrong-element", "%s: dst[%d]=%s want %s", where, j, ps(dst[j]), ps(model[j]))
				}
			}
			for j := want; j < ln; j++ {
				if dst[j] != sentinel {
					return vstat.V("ring:readn-wrote-beyond", "%s: dst[%d] was overwritten although only %d elements were read", where, j, want)
				}
			}
			for j := 0; j < front+back; j++ {
				k := j // indices of the canaries: 0..front-1, then front+ln..
				if j >= front {
					k = j + ln
				}
				if scratch[k] != sentinel {
					return vstat.V("ring:readn-wrote-outside-dst", "%s: scratch[%d], which lies outside the destination window, was overwritten with %s", where, k, ps(scratch[k]))
				}
			}
			model = model[want:]
			rpos = (rpos + want) % n1
		case "s":
			want := 0
			if op.N > 0 {
				want = min(op.N, len(model))
			}
			if op.N > 1<<31 || op.N < -(1<<31) {
				info.Extreme = true
			}
			if CongruentInRange(op.N, len(model)+1) {
				info.Congruent = true
			}
			if want > 0 && rpos+want > n1-1 && rpos > wpos {
				info.Wrap = true
			}
			if want >= 50 {
				info.BigFill = true
			}
			got := rb.Skip(op.N)
			if got != want {
				return vstat.V("ring:skip-count", "%s: Skip returned %d want %d (Len=%d)", where, got, want, len(model))
			}
			model = model[want:]
			rpos = (rpos + want) % n1
		case "a":
			inRange := op.N >= 0 && op.N < len(model)
			if CongruentInRange(op.N, len(model)) {
				info.Congruent = true
			}
			var got *int
			panicked := func() (p bool) {
				defer func() {
					if recover() != nil {
						p = true
					}
				}()
				got = rb.At(op.N)
				return false
			}()
			if inRange && panicked {
				return vstat.V("ring:at-panics-in-range", "%s: At panicked although 0<=i<Len=%d", where, len(model))
			}
			if !inRange && !panicked {
				return vstat.V("ring:at-no-panic-out-of-range", "%s: At did not panic although Len=%d", where, len(model))
			}
			if inRange {
				if rpos+op.N >= n1 {
					info.Wrap = true
				}
				if got != model[op.N] {
					return vstat.V("ring:at-wrong-element", "%s: At returned %s want %s", where, ps(got), ps(model[op.N]))
				}
			}
		case "c":
			if rpos > wpos {
				info.Wrap = true
			}
			rb.Clear()
			rpos = (rpos + len(model)) % n1
			model = model[:0]
		default:
			panic("bad op " + op.K)
		}
		if rb.Len() != len(model) {
			return vstat.V("ring:len", "after %s: Len()=%d want %d", where, rb.Len(), len(model))
		}
		if rb.Cap() != c.Cap {
			return vstat.V("ring:cap", "after %s: Cap()=%d want %d", where, rb.Cap(), c.Cap)
		}
		if c.Cap > 300 && op.K == "w" && i%64 != 0 {
			continue // big buffers: the O(cap) slot sweep follows every non-Write op and every 64th Write
		}
		if buf, r, w, ok := slots(rb); ok {
			// every slot outside the live window [r, r+len) must hold the zero value
			for j := range buf {
				d := j - r
				if d < 0 {
					d += len(buf)
				}
				if d >= len(model) && buf[j] != nil {
					return vstat.V("ring:slot-not-cleared", "after %s: slot %d (r=%d w=%d len=%d) still references consumed value %s", where, j, r, w, len(model), ps(buf[j]))
				}
			}
		}
	}
	// final drain: everything still queued comes out in order
	for j, want := range model {
		got, err := rb.Read()
		if err != nil || got != want {
			return vstat.V("ring:drain", "final drain element %d: got (%s,%v) want %s", j, ps(got), err, ps(want))
		}
	}
	if _, err := rb.Read(); err != io.EOF {
		return vstat.V("ring:drain", "after the final drain Read returned %v, want io.EOF", err)
	}
	return nil
}

func ps(p *int) string {
	if p == nil {
		return "<nil>"
	}
	return fmt.Sprintf("#%d", *p)
}

// Hash is a cheap FNV-1a hash of the case.
func (c Case) Hash() uint64 {
	h := uint64(14695981039346656037)
	mix := func(b uint64) {
		h ^= b
		h *= 1099511628211
	}
	mix(uint64(c.Cap))
	for _, o := range c.Ops {
		mix(uint64(o.K[0]))
		mix(uint64(int64(o.N)))
		if o.F != 0 || o.B != 0 {
			mix(uint64(int64(o.F))<<32 ^ uint64(int64(o.B)) ^ 0x9e3779b97f4a7c15)
		}
	}
	return h
}

// NonTrivial is the rule of C14: an operation spanned the wrap point or hit full/empty exactly.
func (i Info) NonTrivial() bool { return i.Wrap || i.Full || i.Empty }

// Classes for the histogram.
func (i Info) Classes() []string {
	var c []string
	if i.Wrap {
		c = append(c, "spans_wrap_point")
	}
	if i.Full {
		c = append(c, "write_on_full")
	}
	if i.Empty {
		c = append(c, "read_on_empty")
	}
	if i.BigFill {
		c = append(c, "bulk_clear_ge_50")
	}
	if i.Extreme {
		c = append(c, "skip_argument_beyond_32_bits")
	}
	if i.BigFull {
		c = append(c, "big_buffer_written_to_the_brim")
	}
	if i.Congruent {
		c = append(c, "argument_congruent_to_in_range_value_mod_2^16_2^31_2^32")
	}
	if i.Window {
		c = append(c, "readn_into_window_of_larger_array")
	}
	if i.WindowShort {
		c = append(c, "readn_into_window_with_spare_capacity_shorter_than_Len")
	}
	if i.WindowZero {
		c = append(c, "readn_into_zero_length_window_with_capacity_on_non_empty_buffer")
	}
	return c
}

// Alphabet is the finite op alphabet for one capacity (exhaustive part).
func Alphabet(cp int) []Op {
	a := []Op{{K: "w"}, {K: "r"}, {K: "c"}}
	for n := 0; n <= cp+2; n++ {
		a = append(a, Op{K: "n", N: n})
	}
	for n := -1; n <= cp+2; n++ {
		a = append(a, Op{K: "s", N: n})
	}
	for n := -1; n <= cp+1; n++ {
		a = append(a, Op{K: "a", N: n})
	}
	a = append(a, Op{K: "s", N: math.MaxInt}, Op{K: "a", N: math.MaxInt})
	return a
}

// WideAlphabet is Alphabet plus the out-of-range arguments that agree with the smallest in-range one (index 0, count 1)
// in their low 16, 31 or 32 bits, plus ReadN destinations of every length 0..cap+1 that are windows of a larger array:
// one element in front, and enough spare capacity behind the window to hold a full buffer.
func WideAlphabet(cp int) []Op {
	a := Alphabet(cp)
	for _, m := range Moduli {
		a = append(a, Op{K: "s", N: m + 1}, Op{K: "a", N: m})
	}
	for n := 0; n <= cp+1; n++ {
		a = append(a, Op{K: "n", N: n, F: 1, B: cp + 2 - n})
	}
	return a
}

// Moduli are the word sizes at which an index or count could be truncated by a narrowing conversion.
var Moduli = []int{1 << 16, 1 << 31, 1 << 32}

// CongruentInRange reports whether n lies outside [0, ln) but agrees with a value inside it modulo one of the Moduli:
// such an argument is told from an in-range one by its high bits only.
func CongruentInRange(n, ln int) bool {
	if n >= 0 && n < ln {
		return false
	}
	for _, m := range Moduli {
		if ((n%m)+m)%m < ln {
			return true
		}
	}
	return false
}
