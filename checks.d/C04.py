PROPS["C04"] = dict(
    pkg="p_distlock", hooks=["timeout", "inmem", "distlock"], level="exploration", design="DESIGN.md §4 C04",
    technique="schedule-controlled PBT in a testing/synctest bubble with gated storage calls; oracles: exact quiescence-with-work-remaining detector (lost wake-up), per-cancel verdict, residue checks, shutdown verdicts",
    rule="case = as C01 without faults, plus cancel moves (before start, in the local wait, at the gate before Create / before the wait, inside the "
         "storage wait) and Shutdown(provider) moves; a third of the cancellable attempts use a WithCancelCause context cancelled with a cause of the harness (the attempt must still return ctx.Err(), i.e. context.Canceled), and a third park at the scheduler inside the first ctx.Err() call "
         "the lock code makes after the cancellation (a schedule point between an attempt's decision to give up and its clean-up: other workers unlock, start and get released meanwhile); a quarter park at the scheduler inside the first ctx.Done() call of the lock code (the entry of its local wait): a Shutdown that returns while an attempt sits there must make it fail; a quarter of the releases of a Create/Delete apply the call and park its reply; the key space is spelled with various prefixes and lock names; "
         "after the drawn decisions the scheduler drains (release / start / unlock until no move is "
         "enabled). Checked: after a cancel and the release of the attempt's own pending call the attempt has returned the context's error and "
         "holds nothing; at the end of the drain nobody is left inside a call (otherwise: lost wake-up), no lock record and no waiter-table entry "
         "is left, every Locker of a live provider can TryLock+Unlock again; an attempt started after Shutdown returned never acquires; "
         "Lock/LockWithCtx never fail without cancel/shutdown. A redis unit runs free hand-off chains (2..6 workers x <= 12 rounds on 2..4 Lockers) over the Redis backend on its own "
         "miniredis: every blocking attempt with a live context succeeds, nothing is left behind, all Lockers can acquire again. A real-clock unit (laterenewal) unlocks while a lease renewal is in flight (held before / after the storage applied it), "
         "optionally re-locks the same Locker at once with its Create in flight while the late renewal completes: the record is gone after Unlock, the re-lock and a later contender acquire, nothing is left at the end; the same unit runs tryfail scenarios (the one Create of a TryLock / LockWithCtx fails with one of six error shapes, request or reply lost: another Locker and then the same Locker can acquire) and an Unlock whose Delete failed followed by a blocking re-lock of the same Locker. A sharedfail unit (free-running, real clock) lets 4-16 goroutines share one or two Locker objects for 100-600 rounds of LockWithCtx (0-25% TryLock) over a storage that loses every k-th Create (k = 1, 2, 3, 5; k = 1: every attempt fails after it took the local token): no panic, nobody stuck, no record left, and once the storage answers again every Locker can be acquired. non-trivial = an Unlock happened while another Locker object was parked in the "
         "storage wait, or a cancel hit a parked attempt, or a shutdown hit a provider with parked attempts; distinct = hash of the case; "
         "classes cancel:<position> give the histogram of cancel positions",
    assumptions=["'eventually acquires' is decided as 'acquires before quiescence in drain mode' - exact for this schedule model, says nothing about fairness",
                 "attempts already in flight when Shutdown ran may still acquire (treated as ordinary attempts)",
                 "the controlled unit uses the in-memory store only (the bubble needs channels created inside it); the Redis unit samples real schedules"],
    units=[
        dict(name="rapid", run="^TestC04Rapid$", checks=(8000, 60000), shards=(2, 16), timeout=(300, 1800)),
        dict(name="laterenewal", run="^TestC04LateRenewal$", shards=1, timeout=(300, 900)),
        dict(name="sharedfail", run="^TestC04SharedFail$", checks=(12, 150), shards=(2, 8), timeout=(300, 1800), shrinktime="20s", race=(False, True)),
        dict(name="redis", run="^TestC04Redis$", checks=(25, 200), shards=(2, 8), timeout=(300, 1800), shrinktime="20s"),
    ],
)

LEVEL_TEXT["C04"] = (
    "Same engine as C01 without faults: because the harness releases every storage call itself and the clock is frozen, 'nobody can move but "
    "work remains' is an exact predicate at quiescence, so a lost wake-up or a token that was not returned shows as a deterministic, "
    "shrinkable case instead of a timeout. Cancellation positions and shutdown are generated moves with their own verdicts. Sampled "
    "schedules; not exhaustive."
)
