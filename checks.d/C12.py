PROPS["C12"] = dict(
    pkg="p_timers", hooks=["timeout"], level="exploration", design="DESIGN.md §4 C12",
    technique="PBT over timer batches on the real clock with exact one-sided oracles (start >= call+delay, <= 1 start, no start after a Cancel that returned before the due time, no lost future when others are cancelled)",
    rule="case = pool limit 1/2/3/10, idle timeout 5 ms (workers leave during the batch) / 20 ms / 30 s, pool warm or cold, and a script that issues "
         "1..40 futures with delays from {-5,0,1,2,5,10,20,35,60} ms (many ties, bursts of equal deadlines), some with callbacks blocking 1..20 ms, "
         "from the driver or from goroutines of their own, interleaved with Cancel calls (any future by index or the head of the queue, 1..3 times, "
         "before or after firing, from another goroutine) and short sleeps; a 'neighbour' step issues two futures 3..200 microseconds apart with the same delay while a busy callback frees a worker exactly at the first deadline; a 'past' step issues a future whose delay lies far below zero (minus 1 s..1 h, -1000 h, -60 and -100 years = a fire time before the Unix epoch, about the epoch and the zero time themselves, the minimum Duration): due at once, exactly one start; a 'saturate' step gives every worker the pool may have a callback that keeps it for 5..30 ms, so that the following calls and cancels meet a queue nobody looks at; an 'equal' step constructs 2..4 futures whose fire instants are EXACTLY equal under the real clock (the first with delay d, the others with the remaining delay corrected by a guessed call overhead, retried - up to 400000 cancelled attempts - until the queued instant read back through the overlay accessor VerifFireTime matches) and cancels a drawn subset of them: the others must start, the cancelled ones must not. t0 is read immediately before Call (fire time is computed after it), "
         "Cancel's return time immediately after it returns. A generations unit schedules a first generation of 1..9000(20000) futures (due in 10 min and cancelled, or due at once and left to fire, or alternating), a second generation of 1..3000 futures due 30-150 ms ahead (part of it before the first cancel sweep), "
         "and then cancels every handle of the first generation again 0-3 times (forward, reverse or shuffled): every future of the second generation is started exactly once, not early; the heap stays consistent. In 'layered' cases the first generation is a heap of 3..127 futures, two thirds due in 10 min and one third within 150-400 ms; the far ones are cancelled one by one "
         "and after every cancel the pending queue is checked to be a heap with consistent indexes (overlay accessor); the near ones must start on time. non-trivial = a Cancel removed a pending future that was not the latest of >= 3 "
         "pending ones, or a Cancel returned within 2 ms of the due time; distinct = hash of the case",
    assumptions=["monotonic clock readings of one process are comparable; all C12 oracles are one-sided or exact, none depends on a tolerance",
                 "'never started' is observed until the batch is over + 100 ms; a future that is never started in a batch without any Cancel is left to C13",
                 "a lost future (4 s) is confirmed by one re-run before it is reported"],
    units=[
        dict(name="generations", run="^TestC12Generations$", checks=(10, 80), shards=(1, 4), timeout=(300, 1500), shrinktime="20s"),
        dict(name="neighbours", run="^TestC12Neighbours$", shards=1, timeout=(300, 1800)),
        dict(name="rapid", run="^TestC12Rapid$", checks=(40, 1500), shards=(6, 16), timeout=(300, 1800), shrinktime="20s"),
        dict(name="rapid_oldtimers", run="^TestC12Rapid$", checks=(10, 600), shards=(1, 4), timeout=(300, 1800), shrinktime="20s", env={"GODEBUG": "asynctimerchan=1"}),
    ],
)

LEVEL_TEXT["C12"] = (
    "Generated batches of futures and cancellations run against the real package and clock; every callback records its start instant and "
    "count, every Cancel its return instant, and the verdicts are the exact inequalities of the statement (never early, at most once, not "
    "after a Cancel that returned before the due time, cancelling one future never loses another). Evidence counts batches, futures and the "
    "batches in which a cancel hit the middle of the queue or raced the firing. Sampled schedules; no tolerance constants."
)
