PROPS["C10"] = dict(
    pkg="p_map", hooks=[], level="exploration", design="DESIGN.md §4 C10",
    technique="stateful model-based PBT (rapid) against a sequence-number model + bounded-exhaustive histories",
    rule="case = (key alphabet size 2..5000, bound on open iterators, op list over Add/Remove/Get/Len/First/NewIterator/HasNext(i)/"
         "Next(i)/Close(i); i is taken modulo the number of open iterators, an iterator op with no iterator open and NewIterator at the "
         "bound are no-ops, so every list is executable). Exhaustive part: alphabet = Add/Remove of every key, First, NewIterator, "
         "HasNext/Next/Close of every iterator slot, for (2 keys, 2 iterators) and (3 keys, 3 iterators), all lists up to the depths in "
         "exhaustive_parts; only the canonical lists are run (no no-op, no index needing the modulo) because every other list is the "
         "same history as a canonical list that is not longer; Len and Get of every key are called after every step, so they are not "
         "separate letters. Rapid part: lists of up to 100 (thorough 400) ops; key alphabet size drawn from {2,3,4,8,32,100,300} and in about one case "
         "of 40 (thorough: 80) from {1500,3000,5000} (lists of at most 16 ops, mostly bulk ops, there), bound on open iterators from {1,2,3,6,12,24}; besides the single calls the list may hold bulk ops - add/remove a key range (either direction), "
         "1..4 rounds of fill-and-drain of a key range followed by a refill (churn), open n iterators, n x Next on one or on every open iterator, "
         "close all, a full scan with a fresh iterator compared with the model's live order, and 'remat' = Remove of the entry open iterator #i would return next (the entry it is parked on, so that removal under a parked "
         "iterator is as likely on hundreds of entries as on three) - which Run expands into the single calls and judges one by one "
         "with the same model (at most 30000 single calls per case, 30000+4*keys beyond 1024 keys; the rest of the list is dropped). On a map with more than 8 keys or more than "
         "8 open iterators Len is checked after every single call but Get only for the key of the call and two rotating keys; Get of every key "
         "follows every op of the list (beyond 1024 keys: every bulk op) and the end of the case. One rapid case in 6 (2..300 keys) is a list of 1..4 GROWTH-THEN-SHRINK PHASES: add a drawn key range, open 1..3 (or up to the bound) iterators and "
         "advance each a drawn distance, remat under some of them, 1..3 range removals of drawn extent while they stay parked, close all (or keep them for the next phase), use the map again, with 0..3 ops of the general generator between the stages. "
         "Unit manyiters (MANY OPEN ITERATORS, same Case/Run/model; beyond 64 allowed iterators Run keeps a per-position count of the iterators instead of scanning their list, and the step bound grows by 40 per allowed iterator): three cases in four are "
         "WORD-SIZE COUNTS - a map of 2..8 keys, filled, then B-1 / B / B+1 iterators opened at once (B = 256 or 512, in every second case 65536 or 131072; bound on open iterators = that number + 0..2), spread over the positions by one 'stagger' op (iterator #j gets (offset+j) mod (n+1) Next calls), "
         "then 1..8 mutations of which the first is a remat (then remat / Remove / Add / NewIterator / Close / Next / HasNext / range add / range remove / First / scan), then the READ-OUT: every open iterator is driven to the end, each Next judged by the model, optionally an Add and a second read-out (the new entry must be seen), "
         "optionally close all; classes remove_pinned_with_open_iterators_ge_N / _multiple_of_256 / _multiple_of_65536 count the Removes of a pinned entry by the number of iterators open at that moment. One case in four is a LONG PINNED RUN: op 'pinrun' = n rounds of "
         "[Add(k); NewIterator; Next until it stands in front of the new entry; HasNext; Remove(k)], which leaves n consecutive removed entries each pinned by its own iterator (n = 65..1500, thorough 4000; optionally a few live entries in front), followed by First / re-add and scan / the mutations, and the read-out, "
         "in which the oldest iterators step over the whole run in one call (classes run_of_pinned_removed_entries_ge_N). "
         "Unit lowstack: the same long-pinned-run cases with n = 8000..12000 (thorough 10000..20000) in a process of its own whose goroutine stack limit is lowered to 256 KiB (runtime/debug.SetMaxStack; the default is 1 GB): 'never panics for every history' is read as covering a call "
         "whose stack use grows with the length of the run - at the default limit that needs about 10^7 entries, which no affordable history reaches, an application may lower the limit, and the unchanged map steps over the run in a loop (it passes the same cases with a 16 KiB limit). "
         "A stack overflow is fatal and unrecoverable: the process dies, the driver reports process-crash, and the case in flight is left behind as replay file TestC10LowStack-inflight-seed<N>.json (TestReplay lowers the limit again for it). A case in which a call of the map does not return (5 s of process CPU time burnt "
         "by one case; a case costs milliseconds; a case that allows N > 64 open iterators costs up to N^2 list steps by design and gets 5 s x (1 + N/2048, at most 16)) is reported as map:hang by a watchdog. Every case ends "
         "with closing the iterators still open, then First/Len/Get and a fresh full iteration. Excluded by the documented "
         "precondition of Close: using an iterator after Close, closing it twice. non-trivial = the case closes or advances an iterator "
         "that is parked on a removed entry, or removes the oldest live entry while an iterator is parked on it, or re-adds a removed "
         "key while an open iterator has not passed the key's old position; distinct = FNV hash of (keys, iterator bound, op list)",
    assumptions=["sequence-number model written from the C10 statement and the comments of container/iterable/iterator.go: an iterator is a "
                 "position; Next returns the live entry with the smallest number >= position and moves past it, or (_, false) without moving",
                 "HasNext is judged against the live set at the moment of its call; the documented HasNext/Next disparity (the map changed "
                 "between the two calls) is therefore accepted, and HasNext directly followed by Next on an unchanged map must agree",
                 "key and value returned together with flag false (Next, First, Get) are not compared (documented: may be default values); "
                 "the error value of Close is not judged",
                 "unit lowstack: a fatal stack overflow under a goroutine stack limit of 256 KiB counts as 'panics'; what is asserted is only that the process survives and the results agree with the model, never a bound on stack use",
                 "single-goroutine histories only: the map has no internal synchronisation and the property quantifies over histories, not interleavings"],
    units=[
        dict(name="exhaustive", run="^TestC10Exhaustive$", shards=(8, 16), timeout=(120, 1500)),
        dict(name="rapid", run="^TestC10Rapid$", checks=(20000, 200000), shards=(2, 16), timeout=(120, 1500)),
        dict(name="manyiters", run="^TestC10ManyIterators$", checks=(150, 600), shards=(2, 8), timeout=(120, 900)),
        # lowers the goroutine stack limit of its process (runtime/debug.SetMaxStack): a unit and a process of its own
        dict(name="lowstack", run="^TestC10LowStack$", checks=(3, 10), shards=(1, 2), timeout=(120, 900)),
    ],
)

LEVEL_TEXT["C10"] = (
    "Generated-input search with an exact oracle: every history over the full op alphabet up to a depth bound for 2 keys / 2 iterators "
    "and 3 keys / 3 iterators (run through its canonical representative), plus random long histories (up to 400 ops incl. bulk ops, up to 5000 keys, "
    "up to 24 simultaneously open iterators, big fills and drains, growth-then-shrink phases, re-added keys; a separate family with 255..131074 simultaneously open iterators on a small map and with runs of up to 20000 removed entries each pinned by its own iterator, the longest ones under a lowered stack limit) are compared call by call with a sequence-number model of the ordered map, and "
    "every case is finished by closing all iterators and using the map again. No counterexample among the cases counted in the "
    "evidence; not a proof for longer histories or larger maps."
)
