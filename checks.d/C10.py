PROPS["C10"] = dict(
    pkg="p_map", hooks=[], level="exploration", design="DESIGN.md §4 C10",
    technique="stateful model-based PBT (rapid) against a sequence-number model + bounded-exhaustive histories",
    rule="case = (key alphabet size 2..5000, bound on open iterators, op list over Add/Remove/Get/Len/First/NewIterator/HasNext(i)/"
         "Next(i)/Close(i); i is taken modulo the number of open iterators, an iterator op with no iterator open and NewIterator at the "
         "bound are no-ops, so every list is executable). Exhaustive part: alphabet = Add/Remove of every key, First, NewIterator, "
         "HasNext/Next/Close of every iterator slot, for (2 keys, 2 iterators) and (3 keys, 3 iterators), all lists up to the depths in "
         "exhaustive_parts; only the canonical lists are run (no no-op, no index needing the modulo) because every other list is the "
         "same history as a canonical list that is not longer; Len and Get of every key are called after every step, so they are not "
         "separate letters. Rapid part: lists of up to 100 (thorough 400) ops; key alphabet size drawn from {2,3,4,8,32,100,300} and in about one case "
         "of 40 (thorough: 80) from {1500,3000,5000} (lists of at most 16 ops, mostly bulk ops, there), bound on open iterators from {1,2,3,6,12,24}; besides the single calls the list may hold bulk ops - add/remove a key range (either direction), "
         "1..4 rounds of fill-and-drain of a key range followed by a refill (churn), open n iterators, n x Next on one or on every open iterator, "
         "close all, and a full scan with a fresh iterator compared with the model's live order - which Run expands into the single calls and judges one by one "
         "with the same model (at most 30000 single calls per case, 30000+4*keys beyond 1024 keys; the rest of the list is dropped). On a map with more than 8 keys or more than "
         "8 open iterators Len is checked after every single call but Get only for the key of the call and two rotating keys; Get of every key "
         "follows every op of the list (beyond 1024 keys: every bulk op) and the end of the case. A case in which a call of the map does not return (5 s of process CPU time burnt "
         "by one case; a case costs milliseconds) is reported as map:hang by a watchdog. Every case ends "
         "with closing the iterators still open, then First/Len/Get and a fresh full iteration. Excluded by the documented "
         "precondition of Close: using an iterator after Close, closing it twice. non-trivial = the case closes or advances an iterator "
         "that is parked on a removed entry, or removes the oldest live entry while an iterator is parked on it, or re-adds a removed "
         "key while an open iterator has not passed the key's old position; distinct = FNV hash of (keys, iterator bound, op list)",
    assumptions=["sequence-number model written from the C10 statement and the comments of container/iterable/iterator.go: an iterator is a "
                 "position; Next returns the live entry with the smallest number >= position and moves past it, or (_, false) without moving",
                 "HasNext is judged against the live set at the moment of its call; the documented HasNext/Next disparity (the map changed "
                 "between the two calls) is therefore accepted, and HasNext directly followed by Next on an unchanged map must agree",
                 "key and value returned together with flag false (Next, First, Get) are not compared (documented: may be default values); "
                 "the error value of Close is not judged",
                 "single-goroutine histories only: the map has no internal synchronisation and the property quantifies over histories, not interleavings"],
    units=[
        dict(name="exhaustive", run="^TestC10Exhaustive$", shards=(8, 16), timeout=(120, 1500)),
        dict(name="rapid", run="^TestC10Rapid$", checks=(20000, 200000), shards=(2, 16), timeout=(120, 1500)),
        dict(name="manyiters", run="^TestC10ManyIterators$", checks=(150, 1500), shards=(2, 8), timeout=(120, 900)),
        # lowers the goroutine stack limit of its process (runtime/debug.SetMaxStack): a unit and a process of its own
        dict(name="lowstack", run="^TestC10LowStack$", checks=(3, 10), shards=(1, 2), timeout=(120, 900)),
    ],
)

LEVEL_TEXT["C10"] = (
    "Generated-input search with an exact oracle: every history over the full op alphabet up to a depth bound for 2 keys / 2 iterators "
    "and 3 keys / 3 iterators (run through its canonical representative), plus random long histories (up to 400 ops incl. bulk ops, up to 5000 keys, "
    "up to 24 simultaneously open iterators, big fills and drains, re-added keys) are compared call by call with a sequence-number model of the ordered map, and "
    "every case is finished by closing all iterators and using the map again. No counterexample among the cases counted in the "
    "evidence; not a proof for longer histories or larger maps."
)
