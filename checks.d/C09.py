PROPS["C09"] = dict(
    pkg="p_lru", hooks=["iterable", "lru"], level="exploration", design="DESIGN.md §4 C09",
    technique="concurrent PBT: controlled mode in a testing/synctest bubble (creations park on a harness gate, the schedule is a generated value), free-running mode (-race in thorough) and squeezed mode (gates on the real clock; the order of critical sections is forced through the cache's own mutex, overlay accessor VerifWithLock + sync.Mutex hand-over in arrival order); "
              "oracles: single-flight monitor, created/deleted ledger, capacity bound (ledger and, through the overlay accessor VerifWalk, the cache's own resident count), linearizability against a sequential LRU model (porcupine)",
    rule="case = capacity 1..3, 1..3 keys, 2..4 worker programs of <= 6 (10 free-running) calls over GetOrCreate/Remove/Clear; controlled mode adds <= 60 "
         "scheduler decisions {start the next call of an idle worker, complete the creation parked for key k with success or failure} followed by a "
         "drain; free-running mode lets 0/20/50% of creations fail and yields inside the create function. In every second case (all modes) the failing creations return, instead of the harness' plain sentinel, one drawn SHAPE OF ERROR VALUE (as in C08: wrapped, a golibs/errors class, a typed nil pointer of a custom error type "
         "- a non-nil error -, a zero-size struct value, a value whose Error method panics, a context error, a non-comparable slice-typed value, a pointer to a custom type, errors.Join): err != nil is a failed creation whatever is inside the interface, "
         "the caller must get that error (lru:foreign-error otherwise) and the ledger / the sequential reference must see nothing inserted (classes failing_creations_return_error_*). Every call is recorded with the value "
         "returned, the value it created and the delete callbacks it made (attributed by goroutine); after a final Clear every created value must "
         "have been deleted exactly once. Capacity 1..4 over 1..6 keys, key 0 being the zero value of the key type (the empty string); one case in four is a long recency history (10-40 calls, heavy on hits and removals) on one worker with the others interfering a little. One case in four builds the cache WITHOUT a delete callback (a legal configuration): the ledger is then silent and the case is judged on returned values, creations (hit vs miss) and Clear counts against the sequential LRU model. One case in three of those with an int value (all modes) runs on an lru.ECache[string,string,int] with an ALIAS KEY MAPPING (lower-casing: every key but the empty one has two primary-key spellings, each call draws its own): single-flight, residency, recency and Remove go by the inner key, "
         "the create function gets the spelling of the creating call, and the delete callback must get exactly the (spelling, value) pair the create function produced, whichever spelling hit, waited for or removed it later (lru:deleted-wrong-pk; classes alias_key_mapping, alias_hit_or_wait_through_the_other_spelling, alias_value_left_after_a_hit_through_the_other_spelling). "
         "non-trivial = two workers were inside GetOrCreate of one key at the same time, or a delete callback ran "
         "while a creation was between its start and its insertion; distinct = hash of (case, mode). "
         "Value type: one case in three uses lru.Cache[string,any] instead of lru.Cache[string,int] - the value type is an interface type and a successful creation hands over a non-nil pointer, the nil interface value "
         "(create returns (nil, nil)) or a typed nil pointer (controlled/squeezed: part of the 'complete the creation' decision, 5:4:1; free-running: 30/60/100% of the successful creations are nil). A nil value is a value: "
         "hits and waiters return that kind of nil, the model keeps it resident and evicts it in its turn, the ledger demands exactly one delete callback for it (a nil value carries no id: the callback's (key, nil) is charged to the one "
         "value of that kind created for the key and not yet deleted - single-flight and 'a value leaves only through the callback' make it unique). "
         "Capacity: 1..4, or (one case in seven) one of {math.MaxInt, math.MaxInt-1, 2^40, 2^31, 2^16}, the spellings of 'unbounded': the model never evicts; nothing in the harness allocates or adds by capacity. "
         "Epilogue of every history, in every mode: when all worker calls have returned, min(capacity, 4) GetOrCreate calls on fresh keys are made one after the other (their creations succeed at once), then the final Clear; they are ordinary calls of the "
         "linearizability history, and in a full cache each must evict exactly the then least recently used entry - so the recency order the concurrent part left behind is read back through the delete callbacks whether or not the generated programs "
         "happened to evict afterwards (an unbounded cache gets 2 such calls, which must not evict; a cache without callback shows less). "
         "Resident count: at every quiescent point of the controlled and the squeezed mode, and before and after the final Clear in every mode, the cache's own resident count (VerifWalk, under its mutex) must be <= capacity (lru:walk-over-capacity) - "
         "the created-minus-deleted ledger cannot see an entry that was put back after its delete callback. "
         "Squeezed mode (unit squeezed; 1..3 keys, capacity mostly 1-2, 3..5 workers, GetOrCreate-heavy programs, the decision lists of the controlled mode run outside a bubble, quiescence = every busy worker is parked at its gate, has returned, "
         "or called GetOrCreate for a key whose creation another worker has parked): one decision in three is a SQUEEZE - the harness takes the cache's mutex, completes a parked creation (preferably one other callers wait for) and fires 1..3 "
         "overtakers behind it 1.5 ms apart (complete another parked creation / start the next call of an idle worker: Remove, Clear, GetOrCreate), then lets go: the mutex is handed over in arrival order, so the creator publishes, the overtakers "
         "evict / remove / clear, and only then the callers woken by the creator look at the cache again; the drain squeezes as well (at most 6 per case). The order is a strong tendency, not a guarantee; no oracle depends on it",
    assumptions=["a creation that returns (nil value, nil error) 'produced a value successfully' in the sense of the statement (CreatePoolElemF is func(K) (V, error); success is decided by the error alone), and every maxSize >= 1 is a legal capacity",
                 "squeezed mode and the resident count need the overlay accessors (*ECache).VerifWithLock / VerifWalk (they take the cache's mutex and change nothing); without them the unit reports inconclusive and the other monitors run unchanged",
                 "controlled mode: schedules at the granularity of 'creation completes' decisions, runs to quiescence in between (synctest.Wait); free-running mode samples real schedules",
                 "sequential specification: hit returns the resident value and makes it most recently used; a miss that creates inserts and evicts exactly the LRU entry when over capacity; "
                 "a failed creation changes nothing; Remove/Clear report what they removed", "porcupine v1.3.0; a checker timeout is inconclusive"],
    units=[
        dict(name="controlled", run="^TestC09Controlled$", checks=(6000, 40000), shards=(2, 16), timeout=(300, 1800)),
        dict(name="free", run="^TestC09Free$", checks=(3000, 20000), shards=(2, 16), timeout=(300, 1800), race=(False, True), shrinktime="10s"),
        dict(name="squeezed", run="^TestC09Squeezed$", checks=(200, 1200), shards=(4, 16), timeout=(300, 1800), shrinktime="10s"),
    ],
)

LEVEL_TEXT["C09"] = (
    "Generated multi-goroutine programs run against the real cache; in controlled mode the harness decides when each creation completes and "
    "with which outcome, so overlapping GetOrCreate calls, evictions and removals landing inside a creation are constructed rather than hoped "
    "for. Monitors decide single-flight and the capacity bound at every quiescent point, a ledger balances created against deleted values, "
    "and porcupine decides whether the recorded history equals some sequential LRU history. In squeezed mode the window between a creator's publication and the wake-up of the callers that "
    "waited for it is held open, through the cache's own mutex, for whole calls of other goroutines. Values include nil interface values and typed nil pointers, capacities include math.MaxInt. Sampled schedules."
)
