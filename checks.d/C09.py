PROPS["C09"] = dict(
    pkg="p_lru", hooks=[], level="exploration", design="DESIGN.md §4 C09",
    technique="concurrent PBT: controlled mode in a testing/synctest bubble (creations park on a harness gate, the schedule is a generated value) and free-running mode (-race in thorough); oracles: single-flight monitor, created/deleted ledger, capacity bound, linearizability against a sequential LRU model (porcupine)",
    rule="case = capacity 1..3, 1..3 keys, 2..4 worker programs of <= 6 (10 free-running) calls over GetOrCreate/Remove/Clear; controlled mode adds <= 60 "
         "scheduler decisions {start the next call of an idle worker, complete the creation parked for key k with success or failure} followed by a "
         "drain; free-running mode lets 0/20/50% of creations fail and yields inside the create function. Every call is recorded with the value "
         "returned, the value it created and the delete callbacks it made (attributed by goroutine); after a final Clear every created value must "
         "have been deleted exactly once. Capacity 1..4 over 1..6 keys, key 0 being the zero value of the key type (the empty string); one case in four is a long recency history (10-40 calls, heavy on hits and removals) on one worker with the others interfering a little. One case in four builds the cache WITHOUT a delete callback (a legal configuration): the ledger is then silent and the case is judged on returned values, creations (hit vs miss) and Clear counts against the sequential LRU model. non-trivial = two workers were inside GetOrCreate of one key at the same time, or a delete callback ran "
         "while a creation was between its start and its insertion; distinct = hash of (case, mode)",
    assumptions=["controlled mode: schedules at the granularity of 'creation completes' decisions, runs to quiescence in between (synctest.Wait); free-running mode samples real schedules",
                 "sequential specification: hit returns the resident value and makes it most recently used; a miss that creates inserts and evicts exactly the LRU entry when over capacity; "
                 "a failed creation changes nothing; Remove/Clear report what they removed", "porcupine v1.3.0; a checker timeout is inconclusive"],
    units=[
        dict(name="controlled", run="^TestC09Controlled$", checks=(6000, 40000), shards=(2, 16), timeout=(300, 1800)),
        dict(name="free", run="^TestC09Free$", checks=(3000, 20000), shards=(2, 16), timeout=(300, 1800), race=(False, True), shrinktime="10s"),
    ],
)

LEVEL_TEXT["C09"] = (
    "Generated multi-goroutine programs run against the real cache; in controlled mode the harness decides when each creation completes and "
    "with which outcome, so overlapping GetOrCreate calls, evictions and removals landing inside a creation are constructed rather than hoped "
    "for. Monitors decide single-flight and the capacity bound at every quiescent point, a ledger balances created against deleted values, "
    "and porcupine decides whether the recorded history equals some sequential LRU history. Sampled schedules."
)
