PROPS["C16"] = dict(
    pkg="p_xbinary", hooks=[], level="exploration", design="DESIGN.md §4 C16",
    technique="totality fuzzing: exhaustive short inputs and group strings, grammar-based adversarial generator (rapid), "
              "mutation of valid encodings (rapid), native go fuzz seeded with the hostile constants in the thorough tier",
    rule="case = one byte string, given to UnmarshalByte/Uint16/Uint32/Uint64/Uint/Bytes(newBuf false,true)/String(newBuf "
         "false,true), once with cap == len and once inside a larger array. Oracle: no panic; error -> n == 0; success -> "
         "0 < n <= len(in); returned bytes/string are in[i:j] by pointer arithmetic (newBuf=false) or equal to some in[i:j] and "
         "outside the input's memory (newBuf=true). Enumerated: all strings of length 0..2, all strings of length 3..4 "
         "(thorough 5) over 14 group-relevant bytes, all strings of length 5..10 over {ff,80,7f,01} (thorough also 00) - "
         "these contain the prefixes 2^63-1, 2^64-1 and over-long forms - and a fixed hostile list (prefix values "
         "2^31+-1, 2^32+-1, 2^62, 2^63-2..2^63+11, 2^64-11..2^64-1 minimal and padded, all-80/all-ff runs of 1..12 groups); rapid grammar: "
         "prefix (hostile constant / body length -2..+2 / 2^63+-24, 2^64-24.. / 2^(7k)+-2 / small / random 64-bit; minimal or "
         "over-long; 1..12 arbitrary or all-80/all-ff groups, terminated or not) + 0..20 body bytes; rapid mutation: 1..3 "
         "valid items with one truncation / bit flip / extreme byte / extended prefix / deletion / append / prefix +-3. "
         "Buffer-reuse histories (second case type): 2..5 (a tenth of the cases 6..16) inputs copied one after the other into the SAME memory (one arena per "
         "case and presentation) and decoded from there by every function, at offset 0 and at the offsets where the following "
         "items start; a round is 1..3 length-prefixed items with the previous round's lengths and new content (offsets "
         "coincide), or new lengths, or a grammar / mutated input; exhaustive over all histories of 2..3 (thorough 4) rounds "
         "from 15 inputs and 36 streams (one buffer refilled 12 / 24 times with a different record of the same shape); same oracle per call on what the memory holds NOW, plus: whatever was returned with newBuf=true in an "
         "earlier round still holds the bytes it held then. "
         "Not asserted: rejection of over-long or >64-bit varints, decoded values, error texts. "
         "non-trivial = the leading varint terminates inside the input and its value (mod 2^64) is larger than the number of "
         "bytes that follow it or >= 2^31; a history is non-trivial when a later round changed the memory; "
         "distinct = FNV hash of the input bytes / of the history's JSON form",
    assumptions=["'sub-range of the input' is checked against in[0:len], not against the capacity",
                 "the native fuzzing stage (thorough) uses a test binary built with -fuzz (coverage instrumentation) and is seeded with the hostile inputs"],
    units=[
        dict(name="exhaustive", run="^TestC16Exhaustive$", shards=(4, 16), timeout=(200, 600)),
        dict(name="grammar", run="^TestC16RapidGrammar$", checks=(30000, 400000), shards=(2, 16), timeout=(200, 600)),
        dict(name="mutate", run="^TestC16RapidMutate$", checks=(30000, 400000), shards=(2, 16), timeout=(200, 600)),
        dict(name="history_exhaustive", run="^TestC16HistoryExhaustive$", shards=(1, 4), timeout=(200, 600)),
        dict(name="history", run="^TestC16RapidHistory$", checks=(15000, 200000), shards=(2, 16), timeout=(200, 600)),
        dict(name="fuzz", run="^FuzzC16$", fuzz=(None, "^FuzzC16$"), enabled=(False, True), serial=True, shards=1, timeout=(200, 400),
             args=([], ["-test.fuzz=^FuzzC16$", "-test.fuzztime=120s", "-test.fuzzcachedir={rundir}/fuzzcache", "-test.parallel=16"]),
             env={"VERIF_STATS_PERPID": "1"}),
    ],
)

LEVEL_TEXT["C16"] = (
    "Fuzzing of the decoders' whole input space with a totality oracle (no panic, consumed length and returned range inside "
    "the input, zero consumed on error): every byte string up to length 2, every string up to length 10 over the "
    "extreme group bytes (length prefixes made of all-ones / all-zero groups, including 2^63-1 and 2^64-1), a "
    "grammar of hostile length prefixes with short bodies, mutated valid encodings and, in the thorough tier, native go "
    "fuzzing from the hostile seeds. No counterexample among the inputs counted in the evidence; not a proof for all byte strings."
)
