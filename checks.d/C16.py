PROPS["C16"] = dict(
    pkg="p_xbinary", hooks=[], level="exploration", design="DESIGN.md §4 C16",
    technique="totality fuzzing: exhaustive short inputs and group strings, grammar-based adversarial generator (rapid), "
              "mutation of valid encodings (rapid), native go fuzz seeded with the hostile constants in the thorough tier",
    rule="case = one byte string, given to UnmarshalByte/Uint16/Uint32/Uint64/Uint/Bytes(newBuf false,true)/String(newBuf "
         "false,true), once with cap == len and once inside a larger array, and - guard-page placement - once as a slice "
         "(len == cap) that ENDS at the last byte in front of an inaccessible page and once as a slice that BEGINS at the first "
         "byte behind an inaccessible page (one anonymous mapping per process: PROT_NONE page, 16 MiB, PROT_NONE page; "
         "linux/amd64+arm64; the empty input is the empty slice AT the boundary), every call made with debug.SetPanicOnFault "
         "on the calling goroutine: an access outside in[0:len] that goes around the bounds checks (unsafe word load, "
         "assembly) and changes no result is a memory fault there = signature out-of-bounds-access:<function> with the "
         "faulting offset relative to the input (an over-read, however harmless on the heap); the guard-page calls must also "
         "return the n, the success/failure and the bytes of the same call on the heap copy (placement-dependent-result). "
         "Every one-input case of the units exhaustive, grammar, mutate, fuzz and every replay gets the four presentations "
         "(classes guard_pages_behind_and_in_front_of_input, guard_pages_empty_input, guard_pages_input_1-7_bytes, _8-16_bytes, "
         "_17_bytes_to_4KiB, _ge_4KiB; inputs above 16 MiB: guard_pages_input_too_big_heap_only; no arena: "
         "guard_pages_unavailable + an inconclusive note). Oracle: no panic; error -> n == 0; success -> "
         "0 < n <= len(in); returned bytes/string are in[i:j] by pointer arithmetic (newBuf=false) or equal to some in[i:j] and "
         "outside the input's memory (newBuf=true). Enumerated: all strings of length 0..2, all strings of length 3..4 "
         "(thorough 5) over 14 group-relevant bytes, all strings of length 5..10 over {ff,80,7f,01} (thorough also 00) - "
         "these contain the prefixes 2^63-1, 2^64-1 and over-long forms - and a fixed hostile list (prefix values "
         "2^31+-1, 2^32+-1, 2^62, 2^63-2..2^63+11, 2^64-11..2^64-1 minimal and padded, all-80/all-ff runs of 1..12 groups); rapid grammar: "
         "prefix (hostile constant / body length -2..+2 / 2^63+-24, 2^64-24.. / 2^(7k)+-2 / small / random 64-bit; minimal or "
         "over-long; 1..12 arbitrary or all-80/all-ff groups - one run in eight: 2^w/7 -2..+2 groups, w = 7, 8, 15, 16, see the shift-counter runs below - terminated or not) + 0..20 body bytes; rapid mutation: 1..3 "
         "valid items with one truncation / bit flip / extreme byte / extended prefix / deletion / append / prefix +-3. "
         "Large records (compact case form: hex head + n bytes of a seeded fill stream): enumerated - every body length within 9 "
         "of 2^k, k = 8..18 (thorough ..22), complete, cut short by one byte, followed by 3 more bytes, with an over-long prefix "
         "and with a prefix that promises one byte more; the same five shapes for every body of a whole number of blocks and "
         "one byte less / more - k*2^m -1..+1 for the block sizes 2^12, 2^16, 2^20 and k = 1..4 (thorough 1..8), i.e. bodies of "
         "up to 4 MiB (8 MiB) in the quick tier too, random up to their last byte, so that a result which is not the whole body (newBuf=true: a copy "
         "of all of it) is not a copy of any range of the input (classes complete_record_body_whole_number_of_2^N_byte_blocks, "
         "complete_record_body_ge_1MiB); rapid grammar - one case in twelve has a body of 2^k-9..2^k+9, k = "
         "9..18, or any length 256..2^18, behind its exact length (minimal or over-long) or a grammar "
         "prefix, complete, cut short by 1..20 bytes or followed by 1..20 more (classes input_ge_64KiB, "
         "complete_record_body_gt_64KiB ...). "
         "Concurrent decoders (third case type, unit concurrent, -race in the thorough tier): 2..48 inputs - grammar prefix or "
         "exact length in front of 0..40 (an eighth: up to 5000, at most two per case: up to 128 KiB) fill bytes, grammar and "
         "mutated inputs - are decoded by every function on 2..8 goroutines AT THE SAME TIME, the inputs partitioned among the "
         "goroutines or (a quarter) all of them read from the same memory by every goroutine, an eighth with GOMAXPROCS(1); "
         "oracle per call as above, plus: every concurrent call returns the n, the success/failure and the bytes that the same "
         "call returns when made alone AFTER the concurrent phase (a reference computed first would warm up any state the "
         "functions might share); a test process that dies inside a decoder (unrecoverable runtime abort) is reported by the "
         "driver as signature process-crash of this property; non-trivial = at least two goroutines rejected inputs. "
         "Buffer-reuse histories (second case type): 2..5 (a tenth of the cases 6..16) inputs copied one after the other into the SAME memory (one arena per "
         "case and presentation) and decoded from there by every function, at offset 0 and at the offsets where the following "
         "items start; a round is 1..3 length-prefixed items with the previous round's lengths and new content (offsets "
         "coincide), or new lengths, or a grammar / mutated input; exhaustive over all histories of 2..3 (thorough 4) rounds "
         "from 15 inputs and 36 streams (one buffer refilled 12 / 24 times with a different record of the same shape); same oracle per call on what the memory holds NOW, plus: whatever was returned with newBuf=true in an "
         "earlier round still holds the bytes it held then. "
         "In-place overwrite (same case type): at the end of every round each []byte that was returned with newBuf=true in "
         "that round is overwritten by the harness, its owner (every byte up to the capacity flipped; strings are never "
         "written), the newBuf=true decoders are applied to the same memory once more and the following rounds to whatever "
         "comes next: per-call oracle as before ('a copy of a range of the input'), and the overwritten values keep what the "
         "owner wrote (counted in history_newBuf_results_overwritten_in_place). "
         "Long continuation runs (fourth case type, unit long_runs): hex head + RUN bytes of one value 80..ff (each says 'the "
         "number goes on') + hex tail, built in place in one arena (no copy of the input), RUN = 2^20, 2^23, 3*2^23, 2^26 "
         "(1..64 MiB; thorough nine sizes 2^20..2^26): at 2^20 (thorough: up to 2^22) head {none, 85, ff} x run byte {80, ff, "
         "81} x tail {none = unterminated, 00, 7f, 01+2 bytes, 00+5 bytes}, at the larger sizes 80-run unterminated, 80-run + 00, "
         "ff-run unterminated, 85 + 80-run + 00 + a body of 5; every Unmarshal function, cap == len and cap > len, per-call "
         "oracle as above. A decoder whose stack or memory grows with the run does not panic, it kills the process (fatal "
         "error: stack overflow is not recoverable): the driver reports signature process-crash, and the case that was "
         "running is left as TestC16LongRuns-inflight-*.json in the replay directory. "
         "Shift-counter boundary runs (same case type, unit word_runs, BOTH tiers): a decoder of 7-bit groups adds 7 to its shift per "
         "continuation byte; counted in an integer of w bits the shift wraps - or turns negative, and Go panics on a negative "
         "shift amount - after 2^w/7 bytes of a number that goes on. Run lengths 2^w/7 -2..+2 for w = 7, 8, 15, 16 (18, 36, 4681, "
         "9362 bytes) x head {none, 85, ff} x run byte {80, ff, 81, c3} x tail {unterminated, 00, 7f, 01+2 bytes, 00+a body of 5}, "
         "both presentations; w = 31 (306783378 bytes = 293 MiB, built in place in one arena that is allocated once, one "
         "presentation, every Unmarshal function - the five that begin with a variable-length number walk the whole run): in "
         "the QUICK tier two cases, 2^31/7+2 continuation bytes 80 unterminated and 2^31/7+2 bytes ff + 00 + a body of 5 (one shard, "
         "about 300 MB resident and 3..8 s; word_runs_peak_resident_kB), in the thorough tier every length -2..+2 unterminated and "
         "terminated with three run bytes, and w = 32 (613566756 bytes = 585 MiB; three cases) - thorough only (classes "
         "continuation_run_of_2^W/7_bytes, continuation_run_at_shift_counter_boundary_terminated / _unterminated, "
         "prefix_of_2^W/7_groups_shift_counter_boundary for the rapid grammar). 2^63/7 and 2^64/7 bytes are not reachable. "
         "Huge copies (big-copies case type with Sparse set, unit huge_copies, THOROUGH tier only): complete records with a body "
         "of 2^31-1, 2^31, 2^31+1 (over-long prefix, 3 bytes behind) and 2^32+5 bytes - above MaxInt32, where a length held in 32 "
         "bits or a limit on what a decoder is willing to duplicate first matters - lying in the lazily backed arena of C15's "
         "huge bodies (the input costs address space only; blocks of 4 KiB at the start of the body, at every multiple of 2^28 "
         "and at its end carry the position-dependent pattern, the rest is zero), decoded by every function INCLUDING newBuf=true, "
         "which really duplicates the body (one copy alive at a time: 2..4 GiB resident, huge_copies_peak_resident_kB); oracle as "
         "for big copies: failure -> zero bytes consumed, success -> 0 < n <= len, the copy compared IN FULL with in[n-len:n] "
         "the moment the call returns and lying outside the input. Not in the quick tier: memory that a process touches for the "
         "first time costs several seconds per GiB on this machine (one body of 2^31 bytes: 12..22 s, 2.1 GB), so a defect that "
         "needs newBuf=true AND a complete body above 2 GiB is found by the thorough tier only (classes "
         "big_record_body_2GiB_to_4GiB, big_record_body_ge_4GiB, big_record_sparse_content_in_lazily_backed_arena). "
         "Big copies (sixth case type, unit big_copies, BOTH tiers): a complete record whose body is 32..80 MiB - k*2^24 -1..+1 "
         "bytes, k = 2..5, and lengths in between (quick: 2^25-1, 2^25, 2^25+1, 40 MiB+777, 3*2^24, 2^26+1, 5*2^24; thorough 15 "
         "lengths) - with NON-ZERO, position-dependent content throughout (the k-th 8-byte word is (k+seed)*odd constant with the "
         "low bit of every byte set: no range of the input equals a range at another offset, and memory that was not copied yet "
         "- zero - equals nothing), minimal or over-long prefix, alone or followed by 3 bytes, built in place in one arena; decoded "
         "by every function, under a scheduling regime that is part of the case: GOMAXPROCS(1) (the caller owns the only "
         "processor), GOMAXPROCS(1) with 3 sibling goroutines that compute and yield all the time, the processors of the run "
         "with two such siblings per processor (thorough also GOMAXPROCS(1)+16 siblings, GOMAXPROCS(2) with 0 / 4 siblings, default "
         "without siblings); 2 (thorough 4) rounds. Oracle per call as above, but the results of the two newBuf=true decoders are "
         "judged AS THEY ARE WHEN THE CALL RETURNS: read once, immediately, from the far end backwards in 1 MiB chunks that are "
         "copied to a scratch buffer (a frozen observation) and compared with in[n-len:n]; a chunk that differs is searched at "
         "every place where it could lie if the result were a copy of any range in[i:i+len] - signature copy-not-from-input when "
         "it is nowhere (a correct copy is stable, so when and in which order it is read cannot matter). One result is alive at a "
         "time (dropped and collected before the next call): a shard holds the input and one copy, about 180 MB, 2 shards "
         "(thorough 3) run at once (big_copies_peak_resident_kB is the sum of the shards' peaks); the unit takes a few seconds, which is why it is in the "
         "quick tier. Counted in big_record_newBuf_copies_compared_in_full; classes big_record_GOMAXPROCS_1, "
         "big_record_busy_sibling_goroutines, big_record_body_whole_number_of_2^24_byte_blocks. "
         "First calls of a process (fifth case type, unit first_use): the test binary re-executes itself (child test "
         "TestC16FirstUseChild, case in VERIF_XBIN_FIRSTUSE_CASE, the driver's environment without the stats/replay "
         "variables) so that a concurrent case is THE VERY FIRST use of the library in a fresh process: for every Unmarshal "
         "function x 11 small valid inputs (one-byte records 00/61/ff/80, the empty and a two-byte record, the numbers 5, "
         "127, 128, 16383, eight bytes) 32 goroutines released together make that call on that input as their first call, "
         "then the other functions (Rot = the function the goroutines start with); plus per function one process in which "
         "11 goroutines start with it on the 11 different inputs; every case in 2 (thorough 6, plus 1 of a binary built with -race: unit first_use_race) fresh processes (counted in "
         "first_use_child_processes); oracle = the concurrent case's (per call, and equal to the same call made alone "
         "afterwards), evaluated in the child and reported by the parent; a child that dies with a Go panic / fatal error "
         "whose trace runs through the library is signature first-use-process-died. "
         "Collision sequences (seventh case type, unit collisions, BOTH tiers): the Unmarshal functions are functions of their "
         "argument, so what a call returns is a sub-range of ITS input or a copy of one whatever was decoded before. A case = 2..4 "
         "bodies of one length (2..48, sometimes ..600, a tenth 2^k-9..2^k+9 up to 64 KiB) that DIFFER and agree under a cheap hash, "
         "forged by construction and verified with the standard library: CRC-32 IEEE / Castagnoli / Koopman and CRC-64 ISO / ECMA "
         "(a patch of 4 / 8 bytes anywhere in the body, solved by elimination over GF(2)), Adler-32 (+1,-2,+1 on three neighbouring "
         "bytes), 32-bit FNV-1 and FNV-1a (two 8-byte blocks that collide from the initial state, birthday search once per process, in "
         "front of a common rest), sum of bytes, xor of bytes, a permutation of the bytes, equal first and last 8 bytes, equal first "
         "16 / 32 / 64 bytes (64-bit FNV collisions are out of reach and not covered). Each body becomes a complete record (exact "
         "prefix, minimal or over-long, alone or followed by up to 20 bytes); for every ordered pair (i, j) of records and every "
         "ordered pair of the four functions that return bytes (UnmarshalBytes / UnmarshalString x newBuf false / true: the orders "
         "true-true, true-false, false-true, false-false, slice and string decoder mixed) the first is called on record i and then "
         "the second on record j - on one goroutine, or every record always on a goroutine of its own (hand-over, one call at a "
         "time), or one goroutine per record with all of them decoding all records at the same time, a quarter of those with "
         "GOMAXPROCS(1); per-call oracle as above (a newBuf=false result lies in this input by pointer arithmetic, a newBuf=true result "
         "equals a range of this input byte for byte and lies outside it). Enumerated: 15 hashes x 17 body lengths 2..70000 x 3 modes; "
         "rapid on top. Counted per hash in collision_pairs_decoded_back_to_back_<hash> / _at_the_same_time_<hash>; classes "
         "collision_bodies_agree_in_length_and_<hash>, collision_sequence_on_one_goroutine, _handed_from_goroutine_to_goroutine, "
         "collision_records_decoded_at_the_same_time. "
         "Stack inputs (eighth case type, unit stack_inputs, BOTH tiers): the input is a local array of the caller that does not "
         "escape ([64]byte, or [1024]byte for longer inputs and a quarter of the short ones), sliced - it lives on the goroutine stack, "
         "which Go MOVES when it grows. A case = one input (complete record with a body of 0..60, a sixth ..1000 bytes, minimal or "
         "over-long prefix, sometimes 3 bytes behind; a grammar input; a mutated input) and ONE Unmarshal function; a fresh goroutine "
         "(smallest stack) goes down 0..63 tiny frames and then 100..3000 frames of a recursion with a frame of a few words, about "
         "100 or about 300 bytes, and at every level fills the array and makes the call: descending in small steps, at every stack "
         "size (8, 16, 32 KiB ...) some call exhausts the stack in the prologue of the decoder or of a function it calls, i.e. the "
         "input moves DURING the call (observed: the slice's data pointer before and after the call differ - "
         "stack_moved_during_decoder_call, stack_moved_during_<function>, stack_moved_during_zero_copy_decode_of_non_empty_value; about "
         "half of the cases). Oracle per call as above with the input's address range taken AFTER the call (the harness's slice is a "
         "pointer the runtime keeps up to date), plus: the call returns the n, the success/failure and the bytes of the same call on a "
         "heap copy (placement-dependent-result). One function and one input per descent, because another call at the same level "
         "would take the growth away. Enumerated: every function x 14 inputs x 3 frame sizes. The harness touches the array only "
         "through direct calls that do not retain it (go build -gcflags=-m: 'in does not escape', no 'moved to heap'); at run time "
         "every probe checks that the array lies within 64 KiB of another local of its frame "
         "(stack_input_confirmed_next_to_a_local_of_its_frame; otherwise an inconclusive note). "
         "Not asserted: rejection of over-long or >64-bit varints, decoded values, error texts. "
         "non-trivial = the leading varint terminates inside the input and its value (mod 2^64) is larger than the number of "
         "bytes that follow it or >= 2^31; a history is non-trivial when a later round changed the memory; "
         "distinct = FNV hash of the input bytes / of the history's JSON form",
    assumptions=["'sub-range of the input' is checked against in[0:len], not against the capacity",
                 "'never over-read' (title) is read literally: a decoder may not touch memory outside in[0:len] even when the bytes it finds there do not influence what it returns - the memory behind a slice need not be mapped (mmap-ed file, end of an arena); observed through an inaccessible page next to the input",
                 "the Unmarshal functions are plain functions of their argument (no receiver, no documented state): 'for every byte string each Unmarshal function returns ...' is read as holding for a call whatever other Unmarshal calls are in progress on other goroutines, as long as nobody writes the input",
                 "the first calls a process makes are calls like any other: a lazily initialised table / pool inside the library must be safe for concurrent first use",
                 "a []byte returned with newBuf=true belongs to the caller, who may write every byte of it up to its capacity (buffer-reuse histories)",
                 "an input of 64 MiB is an ordinary byte string: 'for every byte string each Unmarshal function returns without panicking' includes not exhausting the goroutine stack on it",
                 "'the returned bytes are ... a copy of [a sub-range of the input]' is a statement about the value the call returns: it holds the moment the call has returned, for whoever reads the result first and on however many processors the program runs (big_copies reads the result once, immediately; it never waits and looks again)",
                 "a record of 80 MiB is an ordinary byte string for newBuf=true as well (the process then holds the input and a copy)",
                 "so is an input of 293 MiB (585 MiB in the thorough tier) that consists of continuation bytes, and - thorough tier - a complete record of 2 to 4 GiB decoded with newBuf=true: 'for every byte string' has no size limit, the tiers only differ in what they can afford",
                 "the Unmarshal functions have no documented state: 'the returned bytes are a sub-range of the input or a copy of one' refers to the input of THIS call, whatever other byte strings - of the same length and checksum or not - were decoded before it or are being decoded next to it",
                 "a byte string that lives in a local array of the caller (on the goroutine stack) is a byte string like any other; the Go runtime may move it while the callee runs, and 'a sub-range of the input' is judged against where the input is when the call has returned",
                 "the native fuzzing stage (thorough) uses a test binary built with -fuzz (coverage instrumentation) and is seeded with the hostile inputs"],
    units=[
        dict(name="exhaustive", run="^TestC16Exhaustive$", shards=(6, 16), timeout=(200, 600)),
        dict(name="grammar", run="^TestC16RapidGrammar$", checks=(30000, 400000), shards=(2, 16), timeout=(200, 600)),
        dict(name="mutate", run="^TestC16RapidMutate$", checks=(30000, 400000), shards=(2, 16), timeout=(200, 600)),
        dict(name="history_exhaustive", run="^TestC16HistoryExhaustive$", shards=(1, 4), timeout=(200, 600)),
        dict(name="history", run="^TestC16RapidHistory$", checks=(15000, 200000), shards=(2, 16), timeout=(200, 600)),
        dict(name="concurrent", run="^TestC16RapidConcurrent$", checks=(4000, 20000), shards=(2, 8), timeout=(200, 900),
             race=(False, True)),
        dict(name="long_runs", run="^TestC16LongRuns$", shards=(4, 8), timeout=(200, 600)),
        dict(name="word_runs", run="^TestC16WordRuns$", shards=(2, 3), timeout=(200, 600)),
        dict(name="big_copies", run="^TestC16BigCopies$", shards=(2, 3), timeout=(200, 600)),
        dict(name="huge_copies", run="^TestC16HugeCopies$", enabled=(False, True), shards=1, timeout=(200, 600)),
        dict(name="collisions", run="^TestC16(Rapid)?Collisions$", checks=(2500, 30000), shards=(1, 4), timeout=(200, 600)),
        dict(name="stack_inputs", run="^TestC16(Rapid)?StackInputs$", checks=(4000, 80000), shards=(1, 4), timeout=(200, 600)),
        dict(name="first_use", run="^TestC16FirstUse$", shards=(2, 8), timeout=(200, 900)),
        dict(name="first_use_race", run="^TestC16FirstUse$", enabled=(False, True), shards=8, timeout=(200, 900), race=(False, True),
             env={"VERIF_XBIN_FIRSTUSE_TRIES": "1"}),
        dict(name="fuzz", run="^FuzzC16$", fuzz=(None, "^FuzzC16$"), enabled=(False, True), serial=True, shards=1, timeout=(200, 400),
             args=([], ["-test.fuzz=^FuzzC16$", "-test.fuzztime=120s", "-test.fuzzcachedir={rundir}/fuzzcache", "-test.parallel=16"]),
             env={"VERIF_STATS_PERPID": "1"}),
    ],
)

LEVEL_TEXT["C16"] = (
    "Fuzzing of the decoders' whole input space with a totality oracle (no panic, consumed length and returned range inside "
    "the input, zero consumed on error): every byte string up to length 2, every string up to length 10 over the "
    "extreme group bytes (length prefixes made of all-ones / all-zero groups, including 2^63-1 and 2^64-1), a "
    "grammar of hostile length prefixes with short bodies and with records of up to 256 KiB (enumerated: up to 4 MiB, thorough "
    "8 MiB) around every power of two and around the small multiples of 4 KiB, 64 KiB and 1 MiB, mutated valid encodings, the same inputs decoded by up to 8 goroutines at once, runs of 1 to 64 MiB of continuation "
    "bytes and runs whose length crosses the point where a shift counter of 7, 8, 15, 16 or 31 bits (thorough: 32) is exhausted (18 bytes to 293 MiB), records of 32 to 80 MiB of non-zero content whose newBuf=true copies are compared in full the moment the call returns (on one "
    "processor, next to busy goroutines, on all processors), in the thorough tier records of 2 to 4 GiB copied by newBuf=true, records whose bodies differ but agree in length and a cheap hash (CRC-32/64, Adler-32, FNV-32, byte sum / xor, equal ends or prefix) decoded back to back in every order of the copying and the zero-copy decoders, inputs that live on the goroutine stack decoded at every level of a descent across the stack sizes (the input moves during the call), small valid inputs as the very first concurrent calls of a few hundred fresh processes and, in the thorough tier, "
    "native go fuzzing from the hostile seeds. No counterexample among the inputs counted in the evidence; not a proof for all byte strings."
)
