PROPS["C17"] = dict(
    pkg="p_blocks", hooks=[], level="exploration", design="DESIGN.md §4 C17",
    technique="model-based PBT (rapid) against a set model with a reopen-after-every-operation differential (a second allocator "
              "opened on a copy of the bytes is probed and compared with the model), bounded-exhaustive op lists on tiny "
              "geometries (a second alphabet with Grow of the live buffer and reopens on more / fewer bytes), a sparse Buffer backend for "
              "gigabyte-sized segments and for allocators of more than 2^24 blocks that start full (headers preset to the bytes the allocator "
              "itself leaves in a full segment), constructor grid over valid/invalid block sizes, memory-mapped-file backend with close + map again, "
              "race-detector stress with an atomic owner table, fault injection at every storage call site with the library's error vocabulary",
    rule="case = (block size, segments, oversize bytes, fit, backend inmem|mmap|sparse, segments whose header is preset to full, op list over "
         "Arrange / fill / Free(allocated | free | out of range | negative) / drain / Block+stamp / Block out of range / Reopen-and-continue "
         "(on the same bytes; mmap: mapped again with size -1 or the explicit size; on the bytes followed by zero bytes up to one more byte or page, "
         "the next segment boundary, a block past it, or 1-2 more segments - in memory a larger buffer, mmap: NewMMFile with the larger size, "
         "which extends the file - where the old segments keep their state and added ones are empty; a size the constructor must refuse is only "
         "probed) / probe of a prefix of the bytes (mmap: the file mapped with a smaller size; less than a segment or unfit: refused, else the "
         "leading whole segments with their state) / Grow of Bytes() of the live allocator by the same size classes followed by more calls on "
         "the SAME allocator (its Count may stay or follow the buffer; every later reopen probe uses the geometry of the grown buffer)); "
         "exhaustive over a 11-op alphabet "
         "for block sizes 1, 2 (4) with 1-3 segments to the depth in exhaustive_parts, and over a 10-op alphabet with Grow(+1 byte | to the next "
         "segment), reopen larger and prefix probe on 4 tiny geometries (one starting from preset-full headers); rapid lists up to 300 ops for block sizes 1..1024 "
         "with 1-3 segments, thorough tier also 2048/4096 on one segment; page-multiple block sizes 4096, 8192 and the non-power-of-two "
         "multiples 12288, 20480, 24576 (blocks per segment not a power of two) with 1-2 segments on a sparse buffer of the harness "
         "(only the blocks the allocator touches exist; Block() geometry on a sample of indexes and on every block a case touches), "
         "bulk arranges reaching block indexes up to ~70000 (and the whole first segment now and then), frees picked by index value "
         "around byte, 2^15, 2^16 and segment boundaries, reopen probe on a copy of the materialised blocks; unit huge: Count just below / above "
         "2^24 and 2^25 (thorough 2^26) - 85..2051 page-multiple segments on the sparse buffer, or 2^20..2^21 segments of block size 1, 2 in real "
         "memory - with all (or all but the last one or two) headers preset to full, 0-5 holes made by FreeBlock at 0, segment, 2^24, 2^25, "
         "Count/2 and Count-1 (+-3) or anywhere, then up to 30 ops at the edge of exhaustion including Grow and the reopen kinds, plus a grid "
         "(every sparse block size x threshold: last free block, ErrExhausted, frees at both ends and at the threshold, reopen, reopen adding a "
         "segment, Grow, fill up); thorough tier also reaches the full state of 2^24+ blocks call by call (sparse 4096 x 513 segments, in memory "
         "1 x 2^21+1); above 2^22 blocks the model is two bit sets, block geometry and the FreeBlock side of the reopen probe are sampled "
         "(touched, recent and landmark indexes), the ArrangeBlock side stays exact; constructor cases = (block size valid or invalid, buffer size, fit); "
         "concurrent cases = (geometry, 2-8 goroutines, rounds, blocks held per goroutine, and in half of the cases: Pre/PreFree = the allocator under test is a REOPEN of bytes with a history "
         "- a first allocator makes up to Count ArrangeBlock calls on 2-4 segments and frees all but at most G*hold evenly spread blocks (minus every 2nd/3rd/5th of those), these are the goroutines' initial holdings, "
         "so the concurrent phase of a freshly reopened allocator starts with FreeBlock as well as ArrangeBlock calls; Late = nobody, neither the workers nor the harness' bookkeeping, calls Available() on the allocator under "
         "test until the workers have completed a drawn number (0..59) of calls, then an observer goroutine makes the FIRST Available() call of the allocator's life while the workers go on, and the workers' own bound checks on "
         "Available() begin when it has returned; ParkSeg/ParkOps = the same with the interleaving forced through the storage: the Buffer is a wrapper around the in-memory one, the workers are held between two rounds, and if "
         "the first Available() call reads the header of a segment >= ParkSeg from the Buffer that read is parked until the workers, let go at that moment, have completed 1..16 more calls - an Available() that does not touch the "
         "storage is not parked). Oracle as before and schedule independent: owner table, stamps, Available() within [Count-G*hold, Count] whenever observed (including the first call), and at quiescence Available() == "
         "Count - blocks held, and an allocator opened on a copy of the bytes agrees (Available, allocated set by probing); "
         "failing-storage cases (unit fault) = (block size 1..64, 1-3 segments, fit/oversize, in memory behind a wrapper of the harness, op list over ArrangeBlock / runs of ArrangeBlock up to exhaustion / "
         "FreeBlock(allocated | free | out of range | negative) / free everything / Block in and out of range / NewBlocks again on the same storage / Close then open the saved bytes / Bytes().Grow by a byte or a segment, "
         "where an op may carry a fault: the At-th storage call that can fail (Buffer, Grow, Close) made during the op and the Len-1 following ones return an error drawn from the whole vocabulary - each of the 12 sentinels of "
         "/repo/errors (ErrInvalid, ErrNotExist, ErrExist, ErrExhausted, ErrClosed, ErrInternal, ...), io and context errors, errno values (some of which errors.Is maps to a sentinel), gRPC status errors that the library's "
         "errors.Is maps to ErrExhausted / ErrInvalid / ErrNotExist or to none, an opaque errors.New - in 7 shapes (bare, %w once and twice, errors.Join, two %w verbs, a custom type with Unwrap, *fs.PathError), so that every site "
         "is hit: the first, second, later header fetch of ArrangeBlock, the header fetch of FreeBlock, the block fetch of Block, the n-th header fetch of NewBlocks, Close, Grow); a grid runs every error x shape x 18 call "
         "kinds x 6 allocator states (fresh, first segment full, full, full with a hole, ...) on one (thorough: three) tiny geometries, rapid draws lists of up to 40 ops. Oracle of a faulted call: ArrangeBlock must not report ErrExhausted "
         "while the model has free blocks unless the injected error itself is of the ErrExhausted class (then the claim is the storage's own); a call that reports success is held to the ordinary checks (index free in the "
         "model, block at its place, Count/Available of a reopened allocator); an error returned by a call during which the storage failed must be the storage's (errors.Is the injected value; ErrExhausted with nothing free and "
         "the verdicts FreeBlock owes for free / out-of-range indexes are accepted too); after every op Count, Available, every stamped user block and the allocated set recovered by a second allocator from a copy of the bytes "
         "equal the model, in which a failed call changes nothing; a failed call does not end the case; non-trivial = a failing-storage case in which >= 1 injected fault was reached, or a freed index was handed out again "
         "while another segment holds allocated blocks, or a continuing reopen with >= 1 allocated block, or ArrangeBlock hit the full "
         "allocator, or the constructor had to reject the geometry, or ArrangeBlock succeeded after a Grow on the same allocator, or a reopen "
         "on more bytes with >= 1 allocated block, or the last free block of more than 2^24 was handed out, or a concurrent case; distinct = FNV hash of the case. Excluded: "
         "buffers that do not start from zero bytes other than through the allocator's own history or the preset full headers, Grow "
         "concurrent with other calls, Grow to a non-multiple under fit on a file, use after Close, more than 2^27 blocks, block sizes "
         "between 32768 and 1 GiB; page multiples from 1 GiB up, whose segment size overflows an int64 so that no buffer can hold a "
         "segment, are tried on the constructor (grid and rapid) with small buffers only and must be rejected",
    assumptions=["set model written from the doc comments of Blocks (first block of a segment is its header, bs*8 user blocks per segment) and the C17 statement",
                 "valid block size = power of two below os.Getpagesize() (4096 here) or a multiple of it, as documented on Blocks.blkSize / GetBlocksInSegment",
                 "FreeBlock of a free in-range index is of class ErrNotExist and of an out-of-range index of class ErrInvalid (code comments; statement only says it fails)",
                 "the allocated set of a reopened allocator is recovered by probing (FreeBlock on every index, ArrangeBlock until exhausted), no assumption on the bit layout of the header",
                 "preset headers: the header bytes of a full segment are taken from a one-segment allocator of the same block size that handed out all its blocks, and copied into the headers of other segments; this relies on the documented layout (each segment starts with its own header describing its bs*8 blocks) being position independent; the thorough tier reaches the same state call by call, and small geometries run every probe on preset states",
                 "prefix probe: an allocator on the leading k whole segments of the bytes sees exactly the state of these segments (documented layout: the header is the first block of each segment)",
                 "Grow: Buffer.Grow is documented without restriction, Blocks.Bytes() hands the buffer out and NewBlocks documents that the buffer may be larger than needed (fit=false), so growing the buffer of a live allocator is taken as supported; asserted afterwards is only what the statement says (results against the model, state recoverable from the bytes); the statement's first sentence does not name Grow (borderline)",
                 "failing storage: Buffer is an interface whose methods return errors, so a storage may fail at any call with any error; the statement's 'ErrExhausted exactly when nothing is free' is applied to such calls with one exception: "
                 "when the storage's own error is of the ErrExhausted class, passing it on is not a claim of the allocator. That an error of the storage is passed on (errors.Is) is what the code does at every site and what "
                 "Block documents ('or access to the block is not possible'); the statement itself only supports the ErrExhausted part and the unchanged / recoverable state (signature blocks:storage-error-replaced marks the weaker-founded part)",
                 "the concurrent oracle is schedule independent (owner table, bounds on Available, quiescent state); a report of the race detector is attributed to the case through a subtest",
                 "Available() is documented without precondition ('returns number of free blocks'), so its first call may come at any time, also while other goroutines allocate and free; a Buffer may be slow at any call and its "
                 "documentation allows concurrent requests for non-overlapping ranges, so a wrapper that delays one header read is a legitimate storage (the harness already passes its own Buffer implementations: sparse, mmap)"],
    units=[
        dict(name="exhaustive", run="^TestC17Exhaustive$", shards=(8, 11), timeout=(200, 1500)),
        dict(name="rapid", run="^TestC17Rapid$", checks=(2000, 8000), shards=(5, 16), timeout=(200, 1500)),
        dict(name="constructor", run="^TestC17Constructor$", checks=(5000, 50000), shards=(1, 4), timeout=(200, 600)),
        dict(name="mmap", run="^TestC17Mmap$", checks=(150, 600), shards=(2, 8), timeout=(200, 1500)),
        dict(name="concurrent", run="^TestC17Concurrent$", shards=(2, 16), timeout=(200, 1500), race=True),
        dict(name="sparse", run="^TestC17Sparse$", checks=(150, 1200), shards=(2, 8), timeout=(200, 1500)),
        dict(name="huge", run="^TestC17Huge$", checks=(40, 300), shards=(2, 8), timeout=(200, 1500)),
        dict(name="fault", run="^TestC17Fault$", checks=(1500, 6000), shards=(2, 6), timeout=(200, 1500)),
        dict(name="big", run="^TestC17Big$", checks=(1, 12), shards=(1, 4), timeout=(200, 1500), enabled=(False, True)),
    ],
)

LEVEL_TEXT["C17"] = (
    "Generated-input search with an exact oracle: every op list over a 11-op alphabet up to a depth bound on 8- to 64-block "
    "allocators (every segment boundary and free-hint position), thousands of random long lists on block sizes up to 1024 "
    "(4096 in the thorough tier) in memory and on memory-mapped files (reopened with the same, the explicit, a larger and a smaller mapping "
    "size), on block sizes of 1 to 6 pages with up to 70000 allocated blocks on a sparse buffer, and on nearly full allocators of 2^24..2^25 "
    "(2^26) blocks, with Grow of the live buffer as one of the operations, are compared call by call with a set model; after every "
    "operation a second allocator is opened on a copy of the bytes and its allocated set, recovered by probing, is compared with "
    "the model; block byte ranges are located by pointer arithmetic and checked against each other and the headers; the constructor "
    "is tried on a grid of valid and invalid geometries; 2-8 goroutines allocate and free under the race detector with an owner "
    "table, also on freshly reopened multi-segment allocators whose first Available() call is made while they run (free running, and with a header read parked by the storage); a storage that fails at any single call site of any operation with any error class and shape of the library's vocabulary (grid plus random lists) must not make the allocator claim exhaustion, lose the error or change its state. No counterexample among the cases counted in the evidence; not a proof for longer sequences, other schedules or larger geometries."
)
