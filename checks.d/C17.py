PROPS["C17"] = dict(
    pkg="p_blocks", hooks=[], level="exploration", design="DESIGN.md §4 C17",
    technique="model-based PBT (rapid) against a set model with a reopen-after-every-operation differential (a second allocator "
              "opened on a copy of the bytes is probed and compared with the model), bounded-exhaustive op lists on tiny "
              "geometries, a sparse Buffer backend for gigabyte-sized segments, constructor grid over valid/invalid block sizes, memory-mapped-file backend with close + map again, "
              "race-detector stress with an atomic owner table",
    rule="case = (block size, segments, oversize bytes, fit, backend inmem|mmap, op list over Arrange / fill / Free(allocated | free | "
         "out of range | negative) / drain / Block+stamp / Block out of range / Reopen-and-continue); exhaustive over a 11-op alphabet "
         "for block sizes 1, 2 (4) with 1-3 segments to the depth in exhaustive_parts, rapid lists up to 300 ops for block sizes 1..1024 "
         "with 1-3 segments, thorough tier also 2048/4096 on one segment; page-multiple block sizes 4096, 8192 and the non-power-of-two "
         "multiples 12288, 20480, 24576 (blocks per segment not a power of two) with 1-2 segments on a sparse buffer of the harness "
         "(only the blocks the allocator touches exist; Block() geometry on a sample of indexes and on every block a case touches), "
         "bulk arranges reaching block indexes up to ~70000 (and the whole first segment now and then), frees picked by index value "
         "around byte, 2^15, 2^16 and segment boundaries, reopen probe on a copy of the materialised blocks; constructor cases = (block size valid or invalid, buffer size, fit); "
         "concurrent cases = (geometry, 2-8 goroutines, rounds, blocks held per goroutine); non-trivial = a freed index was handed out again "
         "while another segment holds allocated blocks, or a continuing reopen with >= 1 allocated block, or ArrangeBlock hit the full "
         "allocator, or the constructor had to reject the geometry, or a concurrent case; distinct = FNV hash of the case. Excluded: "
         "buffers that do not start from zero bytes other than through the allocator's own history, Grow, use after Close, block sizes "
         "between 32768 and 1 GiB; page multiples from 1 GiB up, whose segment size overflows an int64 so that no buffer can hold a "
         "segment, are tried on the constructor (grid and rapid) with small buffers only and must be rejected",
    assumptions=["set model written from the doc comments of Blocks (first block of a segment is its header, bs*8 user blocks per segment) and the C17 statement",
                 "valid block size = power of two below os.Getpagesize() (4096 here) or a multiple of it, as documented on Blocks.blkSize / GetBlocksInSegment",
                 "FreeBlock of a free in-range index is of class ErrNotExist and of an out-of-range index of class ErrInvalid (code comments; statement only says it fails)",
                 "the allocated set of a reopened allocator is recovered by probing (FreeBlock on every index, ArrangeBlock until exhausted), no assumption on the bit layout of the header",
                 "the concurrent oracle is schedule independent (owner table, bounds on Available, quiescent state); a report of the race detector is attributed to the case through a subtest"],
    units=[
        dict(name="exhaustive", run="^TestC17Exhaustive$", shards=(6, 11), timeout=(200, 1500)),
        dict(name="rapid", run="^TestC17Rapid$", checks=(2500, 8000), shards=(4, 16), timeout=(200, 1500)),
        dict(name="constructor", run="^TestC17Constructor$", checks=(5000, 50000), shards=(1, 4), timeout=(200, 600)),
        dict(name="mmap", run="^TestC17Mmap$", checks=(150, 600), shards=(2, 8), timeout=(200, 1500)),
        dict(name="concurrent", run="^TestC17Concurrent$", shards=(2, 16), timeout=(200, 1500), race=True),
        dict(name="sparse", run="^TestC17Sparse$", checks=(150, 1200), shards=(2, 8), timeout=(200, 1500)),
        dict(name="big", run="^TestC17Big$", checks=(1, 12), shards=(1, 4), timeout=(200, 1500), enabled=(False, True)),
    ],
)

LEVEL_TEXT["C17"] = (
    "Generated-input search with an exact oracle: every op list over a 11-op alphabet up to a depth bound on 8- to 64-block "
    "allocators (every segment boundary and free-hint position), thousands of random long lists on block sizes up to 1024 "
    "(4096 in the thorough tier) in memory and on memory-mapped files, and on block sizes of 1 to 6 pages with up to 70000 allocated "
    "blocks on a sparse buffer, are compared call by call with a set model; after every "
    "operation a second allocator is opened on a copy of the bytes and its allocated set, recovered by probing, is compared with "
    "the model; block byte ranges are located by pointer arithmetic and checked against each other and the headers; the constructor "
    "is tried on a grid of valid and invalid geometries; 2-8 goroutines allocate and free under the race detector with an owner "
    "table. No counterexample among the cases counted in the evidence; not a proof for longer sequences, other schedules or larger geometries."
)
