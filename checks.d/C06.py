PROPS["C06"] = dict(
    pkg="p_kv", hooks=["inmem"], level="exploration", design="DESIGN.md §4 C06",
    technique="model-based PBT with a virtual clock: in-memory backend inside a testing/synctest bubble (fake clock), Redis via miniredis FastForward; systematic first-touch matrix + rapid op lists",
    rule="case = op list as in C03 plus advance(23/47/97/251 min), wait (WaitForVersionChange expected to return at once), park (a waiter "
         "parked on a live key, in-memory only) and expiries +1h/+3h/+100h/already-expired(in-memory only); after an advance the generator "
         "aims the next op at a key whose expiry was just crossed with probability 1/2 and draws its kind uniformly from the nine kinds; the "
         "systematic part plays write x advance x first-touching op x follow-up for every op kind on both backends. An advance never stops "
         "exactly on an expiry instant. The redisexact unit writes through Put/PutMany/Create/CasByVersion with ExpiresAt = t0 + d (t0 read before the call; d from 5 ms to an hour with odd sub-millisecond parts), ages miniredis by exactly d and requires the record to be gone (any correct TTL is at most ExpiresAt minus the time of the call), and to be still there two milliseconds plus the duration of the call earlier. The squeeze unit (in-memory backend, real goroutines ordered through the storage mutex) forces 'A's first critical section, all of B, A's next critical section' for A = Get/GetMany/ListKeys/Create/CasByVersion/Delete meeting an expired record "
         "and B = Put/Create of a fresh record without expiry, and a Put applied between the expiry of a record and the expiry handling of a waiter parked on it: the fresh record must be there afterwards (unless a Delete that ran after it returned nil); and it keeps a waiter that registered a moment before the expiry of its record off the processor until the expiry has passed (GOMAXPROCS(1)): it must end with ErrNotExist, like a waiter on a deleted key. The rediswire unit lets time pass INSIDE one call of the Redis backend: a miniredis whose TTLs are aged by the real clock (catch-up FastForward before every command "
         "and observation), the client's connection wrapped so that the k-th command of one put/putmany/create(over a record that lapses or is removed meanwhile)/cas/cas-with-forced-retry call is stalled 200-500 ms "
         "(before forwarding for TTL-free commands, before the reply otherwise; every position enumerated once + drawn pairs); the written records must be readable until 150 ms before their ExpiresAt and gone 150 ms after it "
         "(a failure is confirmed by two re-runs with all durations doubled); the same unit runs 'waitprolong' cases: a WaitForVersionChange polls a record that expires in 60-400 ms, and 1 ms after the first poll that comes less than 8-70 ms before "
         "the expiry the record is prolonged by an hour (CasByVersion or Put) - the key exists without interruption, so the waiter must end with nil, never ErrNotExist (exact verdict, judged only if the prolongation succeeded before the expiry). non-trivial = the clock crossed an expiry and a later op was the first to touch that key (wire unit: a stall really happened inside the call before its TTL-carrying write); "
         "distinct = hash of (driver, op list); classes first_touch_expired:<kind> give the histogram of first-touching op kinds",
    assumptions=["reference model: dead(k) <=> expiry < now; a dead key is absent for every operation",
                 "in-memory backend runs on the synctest fake clock; miniredis ages TTLs only through FastForward; Redis clamps TTLs to >= 1ms so "
                 "records written already expired are only generated for the in-memory backend"],
    units=[
        dict(name="firsttouch", run="^TestC06FirstTouch$", shards=1, timeout=(300, 900)),
        dict(name="inmem", run="^TestC06InmemRapid$", checks=(3000, 30000), shards=(2, 16), timeout=(300, 1500)),
        dict(name="redisexact", run="^TestC06RedisExact$", shards=1, timeout=(300, 900)),
        dict(name="squeeze", run="^TestC06Squeeze$", shards=1, timeout=(300, 900)),
        dict(name="rediswire", run="^TestC06RedisWire$", checks=(2, 40), shards=(1, 4), timeout=(300, 1500), shrinktime="30s"),
        dict(name="redis", run="^TestC06RedisRapid$", checks=(1500, 8000), shards=(2, 16), timeout=(300, 1500)),
    ],
)

LEVEL_TEXT["C06"] = (
    "Generated histories with clock movement are compared step by step with a reference model in which an expired key is simply absent; "
    "the in-memory backend runs on a controlled fake clock, so 'time has passed the expiry' is exact and a parked waiter's wake-up is "
    "decided at quiescence, not by a timeout. Every operation kind is tried as the first one to touch an expired key (systematic matrix "
    "plus aimed random generation). No counterexample among the counted cases; not exhaustive."
)
