PROPS["C14"] = dict(
    pkg="p_ring", hooks=["container"], level="exploration", design="DESIGN.md §4 C14",
    technique="model-based PBT (rapid) against a slice model + bounded-exhaustive op-list enumeration + deterministic fill-to-checkpoint runs against an arithmetic model",
    rule="case = (capacity, op list over Write/Read/ReadN/Skip/At/Clear); exhaustive over the full op alphabet "
         "(ReadN len 0..cap+2, Skip -1..cap+2 and MaxInt, At -1..cap+1 and MaxInt) for capacities 0..3(4) to the depth in exhaustive_parts, and once more to depth 3 (thorough 4) over that alphabet widened by the out-of-range arguments Skip(2^k+1), At(2^k) for k=16,31,32 whose low bits equal the smallest in-range argument, rapid lists "
         "for capacities 0..300 with arguments that also include +-2^31, +-2^40, MaxInt, MinInt and (one Skip/At argument in six) an in-range value moved out of range by a multiple (1,2,3,-1,-2,255,2^20) of 2^16, 2^31 or 2^32 (ReadN destination lengths: by 1..3 times 2^16 only, they must be allocated), and (one case in eleven) capacities 301..5000 incl. 2^k-1, 2^k, 2^k+1 whose short lists mix single calls with bulk fills "
         "(N Write calls, N around the capacity - to the brim and beyond - or anywhere below; the O(cap) cleared-slot sweep then follows every non-Write op and every 64th Write); "
         "a ReadN destination is the window scratch[F:F+N] of an array of F+N+B elements (F elements in front of it, B elements of spare capacity behind it, cap(dst)=N+B; F=B=0 is a slice made to measure): "
         "the depth-3(4) pass of the exhaustive unit adds windows of every length 0..cap+1 with F=1 and room for a full buffer behind, two random ReadN calls in five (one in two in the shapes unit, one in three in the independent unit) draw F 0..3 and B 0..cap+2 with lengths leaning to the short ones incl. 0; "
         "the count must be min(len(dst),Len) and never exceed len(dst), and the canary elements of the scratch outside the window must stay untouched; a shapes unit runs the same contract with other element types: strings and structs whose text looks like a format directive, and a "
         "zero-size element type with capacities up to MaxInt-1 (which only such a type can have; there the backing array exceeds 2^32 slots, so the Skip/At/ReadN arguments congruent to small values modulo 2^16, 2^31, 2^32 - systematic lists and one random argument in six, ReadN destinations of any length since they cost nothing - lie inside the array although out of range); "
         "the same unit also runs element types that cannot be compared with == - []byte, map, func, a struct with a slice field, an array of slices (values incl. the nil/zero value and empty slices; the harness tracks their identity through the slice header, the map header or the serial number a func returns) - "
         "and the interface element types any and error whose values are the nil interface (the zero value of V, a legal element), typed nils (nil pointer, nil map), uncomparable dynamic values ([]byte) and ordinary non-nil values incl. the sentinels io.EOF and ErrExhausted themselves: "
         "and the predeclared basic element types byte (= uint8), int8, uint16, rune (= int32), int, int64, uint64, uintptr, bool, float32, float64, complex128 and named types over byte, int, rune, bool, float64, string "
         "(an implementation may special-case an instantiation, e.g. a copy fast path for byte buffers; value sets contain the zero value and, for floats, NaN, -0 and the infinities, compared bit by bit): "
         "systematic lists make every kind of value meet the full buffer of every capacity 0..3 and travel through it (the rotation by 0..13 Write/Read pairs puts the wrap point at every position before a ReadN with room for the whole buffer), random lists on capacities 0..6 mix them "
         "(classes element_shape:<type>:<kind>_stored / _written_to_full_buffer / _returned, and per element type readn_spans_wrap_point, readn_with_room_for_everything_on_wrapped_window / _on_unwrapped_window); ReadN must also leave the tail of its window beyond the count untouched; "
         "a held unit moves the number of elements a buffer HOLDS (not the arguments) across the word sizes: buffers of capacity 2^p-1, 2^p, 2^p+1 and one of capacity 2^pmax+2 are filled by single Write calls (every one must be accepted; Len is looked at every 2^22 calls) after an offset phase that moves the indices off 0, "
         "and at the held counts 2^p-1, 2^p, 2^p+1 and at the brim a fixed battery is compared with the arithmetic model (held count, serial number of the oldest element): Len, Cap, At at in-range indices (0, 1, middle, last, and 2^16/2^31/2^32 -1/+0/+1 when the buffer holds that many) and out-of-range ones, Skip of non-positive counts, Write on the full buffer = ErrExhausted, "
         "Skip(3), ReadN into a 2-element and a 0-element window, Read, the same number of Writes back, and finally a drain by ReadN(Len+2 slots) / Skip(Len) / Skip(MaxInt) / Clear followed by Read=io.EOF, At(0) panics, Write+Read; "
         "p = 8, 15, 16, 24 for zero-size and byte elements, 8, 15, 16 for bool, int, string, 8, 16 for float64 and a named byte type; THOROUGH TIER ONLY: p = 31 and 32 for the zero-size element type (capacities 2^31, 2^32, 2^32+2: more than 10^10 Write calls, about 30 s on three shards) - "
         "a defect that needs 2^31 or more elements in the buffer at once (e.g. a 32-bit element counter) is out of reach of the quick tier, which holds at most 2^24+2 elements; "
         "an independent unit lets 2..8 goroutines work at the same time, each through families of its own private buffers (never shared; capacities 0..5000, a family = the same op list on capacities c..c+span-1, most lists first fill to one short of / exactly / beyond the brim; element shapes mixed: *int, string, struct, zero-size, byte, bool, float64, a named string type), every buffer against the model - independent buffers must not interact through package state (a fatal runtime error is attributed by the driver as process-crash); non-trivial = some op spanned the wrap point of the backing array, or Write hit Len==Cap, "
         "or Read hit empty; distinct = FNV hash of (capacity, op list)",
    assumptions=["slice model of a bounded FIFO written from the RingBuffer interface comments and the C14 statement",
                 "cleared-slot invariant read through the overlay accessor VerifRingSlots (skipped if the hook no longer compiles)"],
    units=[
        dict(name="exhaustive", run="^TestC14Exhaustive$", shards=(4, 16), timeout=(200, 1500)),
        dict(name="shapes", run="^TestC14Shapes$", checks=(3000, 30000), shards=(1, 8), timeout=(200, 1500)),
        dict(name="rapid", run="^TestC14Rapid$", checks=(10000, 60000), shards=(4, 16), timeout=(200, 1500)),
        dict(name="independent", run="^TestC14Independent$", checks=(300, 3000), shards=(1, 4), timeout=(200, 1500)),
        dict(name="held", run="^TestC14Held$", shards=(1, 3), timeout=(200, 900)),
    ],
)

LEVEL_TEXT["C14"] = (
    "Generated-input search with an exact oracle: every call sequence over the complete small-argument alphabet up to a "
           "depth bound for capacities 0..4 (all wrap-around positions of both indices) plus tens of thousands of random long "
           "sequences on capacities up to 300 are compared call by call with a slice model, and the backing array is inspected "
           "after every call. No counterexample among the cases counted in the evidence; not a proof for longer sequences."
)
