PROPS["C14"] = dict(
    pkg="p_ring", hooks=["container"], level="exploration", design="DESIGN.md §4 C14",
    technique="model-based PBT (rapid) against a slice model + bounded-exhaustive op-list enumeration",
    rule="case = (capacity, op list over Write/Read/ReadN/Skip/At/Clear); exhaustive over the full op alphabet "
         "(ReadN len 0..cap+2, Skip -1..cap+2 and MaxInt, At -1..cap+1 and MaxInt) for capacities 0..3(4) to the depth in exhaustive_parts, rapid lists "
         "for capacities 0..300 with arguments that also include +-2^31, +-2^40, MaxInt, MinInt, and (one case in eleven) capacities 301..5000 incl. 2^k-1, 2^k, 2^k+1 whose short lists mix single calls with bulk fills "
         "(N Write calls, N around the capacity - to the brim and beyond - or anywhere below; the O(cap) cleared-slot sweep then follows every non-Write op and every 64th Write); a shapes unit runs the same contract with other element types: strings and structs whose text looks like a format directive, and a "
         "zero-size element type with capacities up to MaxInt-1 (which only such a type can have); non-trivial = some op spanned the wrap point of the backing array, or Write hit Len==Cap, "
         "or Read hit empty; distinct = FNV hash of (capacity, op list)",
    assumptions=["slice model of a bounded FIFO written from the RingBuffer interface comments and the C14 statement",
                 "cleared-slot invariant read through the overlay accessor VerifRingSlots (skipped if the hook no longer compiles)"],
    units=[
        dict(name="exhaustive", run="^TestC14Exhaustive$", shards=(4, 16), timeout=(200, 1500)),
        dict(name="shapes", run="^TestC14Shapes$", checks=(3000, 30000), shards=(1, 8), timeout=(200, 1500)),
        dict(name="rapid", run="^TestC14Rapid$", checks=(20000, 60000), shards=(2, 16), timeout=(200, 1500)),
    ],
)

LEVEL_TEXT["C14"] = (
    "Generated-input search with an exact oracle: every call sequence over the complete small-argument alphabet up to a "
           "depth bound for capacities 0..4 (all wrap-around positions of both indices) plus tens of thousands of random long "
           "sequences on capacities up to 300 are compared call by call with a slice model, and the backing array is inspected "
           "after every call. No counterexample among the cases counted in the evidence; not a proof for longer sequences."
)
