PROPS["C20"] = dict(
    pkg="p_zip", hooks=[], level="exploration", design="DESIGN.md §4 C20",
    technique="round-trip PBT (rapid) over generated directory trees compared file by file; sandbox-snapshot invariant over "
              "generated and systematically enumerated hostile archives written with archive/zip directly",
    rule="two case kinds. tree case = (directories nested to depth <= 4, 0..25 regular files plus up to 6 entries with RELATED names (see below); file and directory names are byte strings: ASCII letters/digits, "
         "spaces, inner and leading dots, unicode, up to 200 bytes, and arbitrary bytes 0x01..0xFF (invalid UTF-8: Latin-1, lone continuation bytes, "
         "truncated and overlong sequences, 0xFE/0xFF; control characters; backslash; a literal U+FFFD; siblings that differ only in such bytes), "
         "never '.', '..', NUL or '/'; one directory in eight is named like a path component of the arguments of the two calls ('src', 'dest', 'out.zip', 'outside': the base names of the source directory, the destination, the archive and the directory that holds outside names); related names: in half of the trees 1..6 extra entries are named after an entry the tree already has and put into the same "
         "directory - a file next to a file, a file next to a directory (named like the directory plus an affix), a directory next to a file - the name being the other "
         "name with a prefix and/or a suffix added (the usual marks of helper files: '.', '~', '#', '_', '.#', '._', 'tmp', ... / '.tmp', '.bak', '.part', '.swp', '~', "
         "'.lock', '.orig', trailing dots and spaces, ... or free strings over such characters), with leading marks, the last extension or trailing dots/spaces "
         "removed, or in another letter case; chains (a name derived from a derived name) occur; contents empty / random bytes / zero runs / "
         "sizes around 4K, 32K, 64K / at most two files of about 1 MB; filter in {nil, path suffix, keep-only directory component, "
         "exclude directory component, reject all}; recursive flag; source dir spelled as a clean absolute path with or without ONE "
         "trailing slash (further spellings: see SPELLING below); destination absent, empty, or pre-populated with regular files at the relative paths of source files - longer, "
         "shorter, same length (every byte inverted), COLLIDING (same length, same CRC-32 - the checksum a zip entry records - and, where the last 192 bytes leave room, same Adler-32, yet other bytes: "
         "forged by Gaussian elimination over GF(2) on second-difference byte patterns (+1,-2,+1) or single-bit flips near the end; files of fewer than 5 bytes fall back to the inverted bytes), empty, arbitrary - and with unrelated files; in a third of the cases 1..3 further rounds within the same process into the SAME destination path "
         "string: before each, 0..3 removals under the destination (the whole directory, all its contents, one drawn sub-folder, one drawn file), then source files "
         "shrunk/grown/emptied/rewritten/inverted byte by byte (same length)/replaced by a colliding content (same length, CRC-32 and where possible Adler-32 as the content the destination holds from the round before)/deleted or a new file added next to an existing one under a related name - or no edit at all (the same archive again) - then "
         "ZipFolder+UnzipToFolder again, compared with the model after every round). FAILED CALLS in the history: one case in six starts with, and one further round in three is "
         "preceded by, 1..2 calls that cannot succeed completely - ZipFolder of the source as it then is into {BASE}/missing/out.zip (no such directory), into a path that is a directory, or into "
         "a symlink to /dev/full (create and open succeed, every write fails; skipped and counted when the sandbox has no /dev/full; never /dev/full itself: every path handed to the library lies in the "
         "case's scratch directory, ZipFolder removes its destination on failure), or UnzipToFolder of a fresh archive of the source cut at / with 8 bytes inverted at a drawn position, into a private "
         "destination. Their outcome is not judged (nil accepted, only a panic is reported); the ordinary rounds after them are compared with the model as always - a round trip owes nothing to calls that failed before it. "
         "MANY FILES UNDER A DESCRIPTOR LIMIT: a case may add 'many' small files m0000.dat.. (distinct contents, dealt round-robin to the source directory and its sub-directories) and name a descriptor room: "
         "around the ZipFolder and UnzipToFolder calls of every ordinary round - and around nothing else; the check runs one case at a time and starts no goroutine - the soft RLIMIT_NOFILE of the test process is lowered with "
         "syscall.Setrlimit to (highest descriptor in use + 1 + room) and put back right after the two calls, so that the library can open `room` more descriptors, fewer than the tree has files "
         "(usual default soft limits are 256 and 1024; a tree is not limited by them). rapid: about one tree in 120 gets 120..500 such files and room 16/32/64/100, one in 200 only the limit; unit manyfiles: 300 flat files/room 32, "
         "200 files in nested directories/room 16 over two rounds, 260 with a directory filter/room 100 (thorough adds 1200/room 250, 700 non-recursive with a suffix filter/room 64 after a removed sub-folder, 2100/room 1000). "
         "Where the limit cannot be read or lowered the case runs without it (class tree_fd_limit_unavailable). HUGE FILES (unit huge, thorough tier only): a tree {a, m-big, z} whose m-big is a sparse file of 2^32-1, 2^32 or 2^32+4097 bytes (one per shard) with single non-zero bytes at 0, 2^31-1, 2^31, 2^32-2 .. 2^32+1, size/3, size-1, "
         "round-tripped and compared by size and content; needs the file's size in real scratch space for the extracted copy: the free space is looked at first and the case is skipped with an inconclusive note below size*9/8 + 4 GiB. FILE MODES: a source file may carry a permission mode of its own (0000, 0200 write-only, 0111 execute-only, 0400, 0444, 0644, 0755, 0600, 0222, 0040, 0004, 0333, and with the setuid/setgid/sticky bits 4755, 2644, 1644, 4000, 7777 - inert on a data file in the scratch directory), "
         "applied with chmod after the content is written and then tried out with an ACTUAL open for reading: a regular file that the zipping process can read is in the domain whatever its permission bits say (a privileged process - root, CAP_DAC_OVERRIDE - reads files without any read bit), "
         "and the round trip must reproduce it like any other selected file (relative path and content; the mode of the extracted file is not judged); when the open fails the file is an unreadable file, stays excluded and gets 0644 back (class tree_file_mode_reverted_process_cannot_read). "
         "rapid: one file in four draws a mode; unit modes: every mode on a file in the source directory and on a file in a sub-directory x filters nil / suffix / keep-only directory / exclude directory x recursive flag x one round / two rounds with every file rewritten in between "
         "(classes tree_file_mode:<mode>, tree_selected_file_without_any_read_bit). "
         "ENTRIES RELATED THROUGH THE FILE SYSTEM (Links, created after the files, at most 4 per random tree): a source tree is not a set of independent files. "
         "hard: a further NAME of the inode of an earlier regular file (os.Link) - in the directory of the first name, in another directory (a name in the source directory for a file deep in the tree and the other way round), "
         "a third name made from the second, of an empty file, of a file with a mode, or OUTSIDE the tree in {BASE}/outside (link count above one, one name in the tree); every name in the tree is a regular file of the tree and, "
         "when filter and recursive flag select it, must come back under its own relative path with the content of the inode - the names of one inode may be both selected, or one selected and the other rejected by a suffix/directory filter "
         "or cut by the non-recursive mode. copy: a new file with the bytes of an earlier one, an inode of its own (control). symfile/symdir: a symbolic link to a regular file of the tree (target spelled relative or absolute), to a file "
         "in {BASE}/outside, to a directory of the tree or to the source directory itself; never dangling (an edit that deletes the target name removes the links to it first). Symbolic links are not regular files and the statement "
         "says nothing about them: whatever the destination holds at the relative path of one is neither required nor counted as an extra file (the unchanged ZipFolder stores the bytes it can read through the link); the regular files "
         "of such a tree are judged as always, and a file that appeared UNDER a linked directory would be an extra file. Between rounds the content edits write IN PLACE (every name of the inode shows the new content, the model follows), 'delete' removes one name "
         "(the inode stays under the others), and the new edit 'replace' writes the new content aside and renames it over the name (a new inode under the old name; other names keep the old content). "
         "rapid: one tree in three draws 1..4 such entries (5/9 hard - one in six outside -, 1/9 copy, 2/9 symfile, 1/9 symdir; names of their own or short ones with usual extensions, offered to the suffix filter as well); "
         "unit links: one tree with all of these shapes (two and three names, same and other directory, empty, 70000 bytes read-only, outside, copy, five symbolic links) x filters nil / suffix .dat / suffix .txt / keep-only directory / exclude directory x recursive flag x "
         "one round / three rounds (edits through the second name, first name deleted, target of a symbolic link deleted, a name replaced, a sub-folder of the destination removed) "
         "(classes tree_hardlink_*, tree_copy_*, tree_symlink_*, tree_later_round_file_replaced_by_rename; tree_link_unavailable where the file system refuses os.Link/os.Symlink: the entry is dropped). "
         "SPELLING OF THE PATH ARGUMENTS AND ITS ECHO IN THE TREE: the statement is about the tree, the archive and the destination, not about the strings that name them. A case may name a working directory for the library calls "
         "({BASE} itself: 'src', 'out.zip', 'dest'; an empty directory {BASE}/work: '../src', ...; the directory that holds {BASE}: '<name of BASE>/src' - chdir right before each library call and back right after it, under a mutex, "
         "the package runs one case at a time) and a spelling per argument: relative to that directory or absolute; for the archive and the destination also './' in front, '/./' or '//' before the last component, a '..' detour through "
         "a directory next to the object ('outside/../dest'), two leading slashes, and for the destination (absent or present before the call) a trailing '/', '//' or '/.'. The SOURCE directory is spelled absolute or relative, clean, with or without one "
         "trailing slash: with any other spelling ('./src', 'a/./src', 'a//src', 'a/../src', 'src/.', 'src//', '//abs/src') the unchanged ZipFolder stores wrong entry names, skips every file of a non-recursive call or panics (it cuts len(srcDir) bytes off paths "
         "that filepath.Walk has cleaned) - probed, reported as a robustness finding, not asserted: the callers and tests of the package only pass clean paths. The filter is judged on the path filepath.Join(source argument, relative path) "
         "(for an absolute spelling the clean absolute path as before); a file on which the filter answers differently for that path and for the absolute one (a directory filter that matches a component ABOVE the tree) is not judged "
         "(class tree_filter_differs_...). Echo entries: a tree may hold a directory named like the source directory ('src'), its spelling in the call as a chain of directories ('<name of BASE>/src'), a mirror of its absolute path "
         "below itself ('backup/<abs path of src>/f.txt', the way backups are laid out), and files whose NAMES contain these strings ('copy-of-src.bak'), bare or with helper-file affixes, in the source directory or a sub-directory, directly or below "
         "'backup'/'.snapshot'/a drawn folder; their files are regular files of the tree like any other (path and content must come back, also through later rounds and edits). Under a spelled case the scratch directory must hold nothing but "
         "source, archive, destination (and the harness's own 'outside'/'work') after every round and the working directory {BASE}/work must stay empty (zip:stray-entry). rapid: a third of the trees are spelled (working directory drawn from none/base/work/parent, "
         "source relative in 3 of 4 of those with a working directory), a quarter hold 1..2 echo entries; unit spellings: one tree with every echo shape x a joint walk through 14 source spellings x 11 archive spellings x 49 destination spellings x 5 filters "
         "(nil, suffix, keep-only and exclude directory 'src', suffix 'src/f.txt') x recursive flag x destination present/absent x one or two rounds (154 cases, thorough 686: every source spelling with every destination spelling) "
         "(classes tree_args_spelled, tree_calls_from_working_directory:*, tree_*_spelled*, tree_destination_trailing:*, tree_echo_*, tree_selected_path_contains_the_*_again, tree_selected_file_below_directory_named_like_the_source). "
         "Violation messages mask the scratch names also where they occur inside tree paths ({BASE}, {BASENAME}, {TMP}). "
         "Excluded as outside the documented domain: unclean source paths (see above), "
         "dangling symbolic links (ZipFolder cannot read through them), devices, files that the zipping process cannot open for reading, modes on directories and on files of the destination, the archive placed inside the source dir. "
         "archive case = list of zip entries (name, kind file/dir/symlink mode bits, payload, stored or deflated) written with archive/zip, "
         "optionally with 1..3 corrupted bytes; names from '..', '.', empty and plain segments joined by '/' or '\\\\', up to 8 leading '../', "
         "absolute prefixes ('/', '//', the sandbox root, the destination itself), trailing slash, duplicates and file/dir clashes; the "
         "exhaustive unit runs every ordered list of length <= 2 (thorough: <= 3) over a systematic alphabet of 65 hostile entries. non-trivial = tree with >= 1 file in a sub-directory and >= 1 empty or filtered-out file, or an "
         "extraction over a longer file at the path of a selected one, or two selected sibling files one named like the other wrapped in a prefix and a suffix, or a later "
         "round that must put a selected file into a folder removed from the destination in between, or a selected file that goes over a destination file of equal length and CRC-32 but other content, or a tree with more selected files than descriptors available during the calls, or a tree with two selected names of one inode, or archive with >= 1 entry "
         "whose cleaned joined name leaves the destination; distinct = FNV hash of the JSON form of the case",
    assumptions=["oracle (a): map relPath->content of the regular files under the destination == the source's regular files for which "
                 "filter(clean source dir + '/' + relPath) is true (source dir as spelled in the call, cleaned: for a relative spelling the relative path) (nil filter = all) and, when recursive is false, that sit directly in the "
                 "source dir (a regular file is a name whose inode is a regular file: every hard-linked name counts on its own); directories (empty or not) are not compared; "
                 "relative paths at which the source holds or held a symbolic link are left out of the comparison on both sides; both calls must return nil. When the destination held regular files "
                 "before the extraction (pre-populated, or left by an earlier round and not removed since): every selected file must have exactly the source content afterwards; "
                 "'nothing else' is judged on what the extraction adds - a file that was there before and is not selected is not an extra file, "
                 "but must be byte-identical afterwards; pre-existing directories where a file must go (or files where a directory must go) are "
                 "not generated. Removals between rounds only take away regular files and whole folders of the destination (the model forgets them); "
                 "an extraction must succeed and give the same result whatever this process extracted before (no state outside the file system)",
                 "oracle (b): the destination is sandbox/d1/.../d8; (path, type, permission bits, and for non-directories size, mtime, content hash) "
                 "of everything in the sandbox outside the destination subtree - decoy files and directories at every level, the archive "
                 "itself - is identical before and after UnzipToFolder, whatever it returns; absolute targets outside the sandbox are watched "
                 "one by one; an error is accepted, a panic is not. One sandbox skeleton serves all archive cases of a test process: the "
                 "destination subtree and the archive are removed after every case, the skeleton is compared with its pristine snapshot "
                 "before every case and rebuilt after any violation (a replay builds its own sandbox); tree cases get a fresh directory each",
                 "violation messages are functions of the case alone (scratch directory names replaced by {ROOT}/{BASE}, no mtime values): "
                 "rapid only shrinks failures whose message is reproducible",
                 "Linux file system semantics (names are raw bytes, backslash is an ordinary name byte, names are case sensitive); names are kept byte-exact "
                 "in the case (JSON: plain string if valid UTF-8, {hex: ...} otherwise)"],
    units=[
        dict(name="tree", run="^TestC20TreeRapid$", checks=(400, 1500), shards=(4, 16), timeout=(200, 1200), shrinktime=("15s", "40s")),
        dict(name="modes", run="^TestC20TreeModes$", shards=(2, 4), timeout=(200, 1200)),
        dict(name="links", run="^TestC20TreeLinks$", shards=(2, 4), timeout=(200, 1200)),
        dict(name="manyfiles", run="^TestC20TreeManyFiles$", shards=(3, 6), timeout=(200, 1200)),
        dict(name="spellings", run="^TestC20TreeSpellings$", shards=(2, 4), timeout=(200, 1200)),
        dict(name="archive", run="^TestC20ArchiveRapid$", checks=(1500, 8000), shards=(4, 16), timeout=(200, 1200), shrinktime=("15s", "40s")),
        dict(name="hostile", run="^TestC20ArchiveExhaustive$", shards=(8, 16), timeout=(200, 1200)),
        dict(name="huge", run="^TestC20Huge$", shards=(1, 3), timeout=(600, 1200), enabled=(False, True)),
    ],
)

LEVEL_TEXT["C20"] = (
    "Generated-input search with exact oracles: thousands of random directory trees (odd names, sibling names derived from one another by helper-file prefixes and suffixes, hard-linked names, copies and symbolic links, empty, binary and large files, every "
    "filter kind, both values of the recursive flag, source / archive / destination spelled absolute or relative to a working directory and decorated with './', '//', '/./', '..' detours and trailing slashes, trees that repeat the spelling of their own source directory in directory and file names) are zipped, unzipped and compared file by file "
    "with the selected part of the source, in a third of the cases over several rounds into one destination path with parts of the destination removed in between; every ordered combination of a systematic set of hostile zip entries up to a length bound "
    "plus thousands of random hostile archives are extracted eight levels deep inside a sandbox whose complete state outside the "
    "destination is compared before and after. No counterexample among the cases counted in the evidence; not a proof for other "
    "name shapes, other file systems or platforms."
)
