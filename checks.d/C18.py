PROPS["C18"] = dict(
    pkg="p_mixer", hooks=[], level="exploration", design="DESIGN.md §4 C18",
    technique="differential PBT against a two-pointer reference merge; bounded-exhaustive sequence pairs x selectors x "
              "source kinds x call programs, plus rapid long inputs and long programs",
    rule="case = (two int sequences, source kind per input, selector, call program over HasNext/Next/Reset followed by a full "
         "drain); every element carries its origin (value*1000+side*100+index, selectors compare the value only) so that tie "
         "preference and per-input order are observable. Exhaustive: all pairs of sequences over {1,2,3} of length 0..3 "
         "(thorough: also 0..4) x 5 selectors (<, <=, always-first, always-second, >) x 3x3 source kinds x every program to the "
         "depth in exhaustive_parts; rapid: lengths 0..40, alphabets of 1..20 values, sorted under the selector in 60% of the "
         "draws, programs up to 120 (200) calls. Source kinds: WrapIntSlice, a wrapper without Reset (Reset must return an "
         "error; the mixer is not used afterwards because its state after a refused Reset is undocumented), and a resettable "
         "source whose final HasNext says true while the following Next returns (0,false) and which stays exhausted "
         "afterwards (iterator.go imparity; the undelivered element is not part of the input). Sources that revive after "
         "reporting exhaustion are not generated. non-trivial = the selector decided a tie between equal heads, or exactly one "
         "input is empty, or a successful Reset happened midway / on a loaded look-ahead / after the end, or HasNext was "
         "called twice in a row, or a lying final HasNext was consumed; distinct = FNV hash of the whole case",
    assumptions=["reference merge written from the C18 statement: head of input 1 is emitted iff input 2 is exhausted or "
                 "(input 1 is not exhausted and selector(head1, head2)); when Next returns ok=false its value is not compared",
                 "Reset with two resettable sources is required to succeed (the sources' own Reset returns nil)"],
    units=[
        dict(name="exhaustive", run="^TestC18Exhaustive$", shards=(16, 16), timeout=(200, 1200)),
        dict(name="rapid", run="^TestC18Rapid$", checks=(10000, 200000), shards=(2, 16), timeout=(200, 1200)),
    ],
)

LEVEL_TEXT["C18"] = (
    "Generated-input search with an exact oracle: every pair of short sequences over a 3-value alphabet, every selector, every "
    "combination of source kinds and every HasNext/Next/Reset program up to a depth bound, plus random long inputs and programs, "
    "are compared call by call with a two-pointer reference merge in which each element is tagged with its origin. No "
    "counterexample among the cases counted in the evidence; not a proof for longer inputs, deeper programs or other selectors."
)
