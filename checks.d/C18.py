PROPS["C18"] = dict(
    pkg="p_mixer", hooks=[], level="exploration", design="DESIGN.md §4 C18",
    technique="differential PBT against a two-pointer reference merge; bounded-exhaustive sequence pairs x selectors x "
              "source kinds x call programs, plus rapid long inputs and long programs",
    rule="case = (two int sequences, a second pair of sequences, source kind per input, selector, call program over HasNext/Next/"
         "Reset/Init-again followed by a full drain); letter i calls Init on the same Mixer value with fresh iterators over the "
         "other pair of inputs, after which the expected output is a fresh merge of the new inputs. Every element carries its "
         "origin (value<<15|init generation|side|index, selectors compare the value only) so that tie preference, per-input "
         "order and stale look-ahead are observable. The selector handed to the mixer also checks its arguments: it must be asked "
         "about exactly (current head of input 1, current head of input 2) and never while an input has no head "
         "(sig mixer:selector-got-non-head). Exhaustive: all pairs of sequences over {1,2,3} of length 0..3 (thorough: also 0..4) "
         "x 5 selectors (<, <=, always-first, always-second, >) x source kinds x every program over {h,n,r,i} / {h,n,r} to the "
         "depths in exhaustive_parts; re-Init inputs there are the swapped pair and, as a second variant, two empty inputs; a "
         "pair with a non-resettable source is enumerated only with programs whose first Reset is the last call (the wrapper "
         "delegates every other call and the case ends at the refused Reset); an empty input is served both from an empty non-nil "
         "slice and from a nil slice (WrapIntSlice(nil), per side; for the two-empty re-Init variant both-nil with selector <= only). rapid: lengths 0..40, alphabets of 1..20 values, "
         "sorted under the selector in 60% of the draws, independent second pair, programs up to 120 (200) calls, no reductions; empty inputs nil or non-nil (drawn), 5% inputs of "
         "500..3000 elements, 5% negative/zero/extreme values (|v| < 2^42), 5% both inputs served from one and the same slice. Source kinds: WrapIntSlice, a wrapper without Reset (Reset must return an "
         "error; the mixer is not used afterwards because its state after a refused Reset is undocumented), and a resettable "
         "source whose final HasNext says true while the following Next returns (0,false) and which stays exhausted "
         "afterwards (iterator.go imparity; the undelivered element is not part of the input), and VALUE-TYPE (non-pointer) implementations - nothing in the Iterator "
         "interface asks for a pointer: valfunc = an adapter struct of closures handed over by value (func fields, so the dynamic type is not comparable), "
         "valfunc_noreset = the same adapter without Reset, valslice = struct{elements []int; position *int} by value (slice field, not comparable), valcmp = "
         "struct{*state} by value (comparable); for one input or both, 10% of the rapid draws put one and the same kind on both inputs (sessions: on every leaf), "
         "and exhaustive part 3 runs every ordered pair of kinds with a value kind on at least one side (same type on both sides included) x all input pairs over {1,2} of "
         "length 0..2 x 5 selectors x every program over {h,n,r} to depth 4 (thorough 5), pairs with a Reset-less source under the same first-Reset-is-last reduction. Sources that revive after "
         "reporting exhaustion are not generated. TRANSIENT RESET FAILURES (golibs.Reseter: 'Result may indicate about an error during the reset'): any source kind that has a Reset method can be put "
         "behind a wrapper whose first k Reset calls return an error and leave the source where it is, while every later call rewinds it (k 1..3; the error is a library class - ErrUnimplemented, ErrDataLoss, ErrInternal, bare or "
         "wrapped with %w - io.EOF or a plain error), on input 1, input 2 or both (one rapid case in five; one session round in five on 1..2 leaves or on every leaf, below inner mixers included; exhaustive part 4: failure plans "
         "(1,0) (0,1) (1,1) (2,0) (0,2) (2,1) x {ErrUnimplemented, plain error} x source pairs slice/slice, slice/disparity, valcmp/slice x all input pairs over {1,2} of length 0..2 x 5 selectors x every program over "
         "{h,n,r} to depth 4 (thorough 5) that contains a Reset). A Reset of the mixer made while some source still has a failure to deliver is not judged (neither its result nor which sources it asked), and from then until the "
         "next Reset made when NO source has a failure left the HasNext/Next calls of the program are executed but not compared and the selector does not check its arguments: the state after a failed Reset is undocumented. "
         "A Reset made when no source has a failure left is a Reset of two resettable inputs: it must return nil and restart the merge completely, whatever was read since the failed one; if the program ends in the unjudged "
         "state the harness calls Reset until that point is reached (every Reset of the mixer passes at least one pending failure on; bounded at 16 / 64 calls, a tree that never gets there is not judged), then the full drain follows. RESET RUNS: the letter r may carry a repeat count (r256 = 256 consecutive Reset calls, every one of them judged like a single r), so that programs with hundreds or tens of thousands of Resets in a row stay short: "
         "one Reset in four of the rapid programs (main unit, sessions, element types) is a run whose length is drawn from {1..4, 255, 256, 257, 511, 512, 513, 1024, 65535, 65536, 65537} (the neighbourhoods of the points where a pass counter 8 or 16 bits wide comes round again), "
         "wherever the program puts it - after a HasNext that loaded the look-ahead, after a Next, after another run, after the end; exhaustive part 5: every program over the calls {h, n, r, r255, r256, r257} (thorough: also r512, r65536) to depth 3 (thorough 4; programs with r65536 to depth 3) "
         "that contains a run x all input pairs over {1,2} of length 0..2 x 5 selectors x slice/slice and slice/disparity (classes consecutive_successful_resets_*). "
         "ELEMENT TYPES (unit element_types, third case type): Mixer[E] for element types whose ZERO VALUE is a legal element - Mixer[any] and Mixer[error] (nil interface), Mixer[*T] (nil pointer), Mixer[string] (empty string); the main runner merges ints and never uses 0 as an element. "
         "An input is a sequence over {zero value, 1, 2, ...} served from a resettable slice iterator; ordinary elements carry (value, side, index), the zero value cannot carry a tag; the selector (<, <=, >, always-first, always-second) compares ranks, rank(v)=2v and rank(zero value)=ZeroRank, "
         "so the zero value sorts first (0), ties with a value (even), lies strictly between two values (odd) or sorts last (1000); the same reference merge, head check of the selector and HasNext/Next/Reset oracles apply. Exhaustive: all pairs of sequences over {zero,1,2} of length 0..2 (thorough 0..3) x 4 element types x "
         "selectors x ranks {0,2,3,4,1000} x every program over {h,n,r} to depth 2 (thorough 3); rapid: lengths 0..40, alphabets 1..20, zero values nowhere / at one place (first, last, anywhere) / at every fourth place on average / everywhere, sorted under the selector in 60% of the draws, programs with Reset runs "
         "(classes element_type:<type>:*; non-trivial there = the selector had to decide about a zero-value head). "
         "non-trivial = the selector decided a tie between equal heads, or exactly one "
         "input is empty, or a successful Reset happened midway / on a loaded look-ahead / after the end, or HasNext was "
         "called twice in a row, or a lying final HasNext was consumed, or Init was called again while a look-ahead was pending, or a Reset accepted by both sources followed a failed one; distinct = FNV hash of the whole case. "
         "SESSIONS (units sessions_*): 'any two input iterators' includes a Mixer as an input (mixer_test.go merges a mixer with a slice) and iterators "
         "created after other iterators were used and closed, so a second case type is a HISTORY of 1..10 rounds in one process: each round builds a "
         "merge tree over 2..8 fresh leaves (any binary tree shape, every mixer with the round's selector, leaf kinds as above), runs a "
         "HasNext/Next/Reset program on the root, may stay open while the next 1..5 rounds are opened and used (several trees alive at once), runs a "
         "second program, is drained (or, 20%, abandoned where it stands) and closed by one of four disciplines: nothing closed / root mixer only / "
         "every created iterator once, newest first (defer style) / every created iterator once, oldest first. The harness calls Close at most once "
         "per object it created and never touches an object after closing it itself (Iterator doc: Close 'must be always called for any iterator', "
         "'must not be used after the call'); that Mixer.Close forwards Close to its inputs, so that an input closed by its creator is closed a second "
         "time through the mixer, is the library's own undocumented behaviour and part of the history. Oracle: the root of every round is compared "
         "call by call with the reference merge of the reference outputs of its two inputs (recursively), elements tagged value|round|leaf|index; "
         "each mixer's selector checks that argument 1 is an element of a leaf below input 1 and argument 2 of a leaf below input 2 of the same "
         "round; Reset of a tree with a non-resettable leaf must return an error (the tree is then only closed). Close return values are not "
         "judged; a Mixer value or iterator is never reused after Close; Mixer values are never copied (a by-value copy of a used Mixer is not a "
         "call of the API and nothing documents it). A failing session is re-run after two garbage collections (drops what earlier sessions of the "
         "process left in package-level caches) and only a failure that is still there is reported, so that the replay of the session alone "
         "reproduces it; in the exhaustive unit the previous session + this one is tried as a longer history otherwise. sessions_exhaustive: "
         "every two-round history of (ab or (ab)c over fixed slices; drained / abandoned untouched / abandoned after 'hn'; 4 close disciplines; closed "
         "before or after the later round) x (every tree shape over 2..4 slice leaves x all assignments of the sequences over {1,2} of length 0..1 "
         "(thorough 0..2 for 2 leaves) x selectors (quick, 4 leaves: <= and > only) x programs over {h,n,r} to depth 3 (thorough 4 for 2..3 leaves)). session non-trivial = a round opened after an earlier "
         "one was closed, or two trees alive at once, or a mixer over two mixers, or three levels of mixers, or a tie / refused Reset / accepted Reset after a failed one in a nested tree. "
         "TYPE HISTORIES (unit type_history, fourth case type, types.go): 'any two input iterators' ranges over iterator TYPES, and a process uses many mixers over many types; whether Reset must succeed is decided by what the two sources of "
         "THAT mixer implement, whatever sources of other mixers - used earlier or at the same time in the process - implemented. A zoo of 35 iterator types in 16 groups that share their printed name (fmt %T) although they are different types, "
         "at least one with and one without a Reset method per group: function-local types declared under one name in different functions (by value and by pointer: p_mixer.cursor / *p_mixer.cursor, iter, reader), local types of generic functions "
         "(p_mixer.box[int], box[string], box[[]int], box[Tag], box[map[Tag]bool]), and same-named types - plain and generic - of the harness package and of its twin sub-package verifharness/p_mixer/twin/p_mixer, which has the same package name "
         "(*p_mixer.Cursor, Walker, Seq[int], Seq[Tag], Ring[string]; the side that has Reset alternates). A zoo type is a source kind of an ordinary case, so the whole case oracle applies. A type history = 1..4 phases, a phase = 1 case or 2..4 cases "
         "started together on a barrier (each on its own goroutine with its own mixer and sources: concurrent first use); cases draw their sources from one spelling group (7 in 8; else any zoo type), the other side from the same group, the same type, "
         "WrapIntSlice, an ordinary kind or any zoo type, inputs as in the rapid unit, programs of up to 10 calls rich in Resets and Reset runs. The histories of one test process run one after the other, so the process as a whole is a long history in "
         "which every group meets its resettable and non-resettable types in a drawn order (8 / 16 processes per run). A failing history is executed again in FRESH processes (the test binary re-executes itself): alone, then preceded by the earlier phases "
         "of the process that used types printed like its own, then preceded by everything the process did before; the first that fails there is the reported case, so that the replay (a fresh process) reproduces it; if none does, the complete "
         "history of the process is reported with the verdict seen. type-history non-trivial = a refused Reset (type without Reset) and a due Reset of ANOTHER type printed alike in one history, in either order or in one concurrent phase, or both inside one mixer "
         "(classes type_history:*)",
    assumptions=["reference merge written from the C18 statement: head of input 1 is emitted iff input 2 is exhausted or "
                 "(input 1 is not exhausted and selector(head1, head2)); when Next returns ok=false its value is not compared",
                 "Reset with two resettable sources is required to succeed whenever the sources' own Reset calls return nil at that moment - also when an earlier Reset failed because a source's Reset returned an error then "
                 "(nothing lets a Mixer remember an earlier failure: 'Reset allows to reset the mixer internals and retry underlying iterators')",
                 "'any selector' includes selectors that are only defined on real elements: consulting the selector with anything "
                 "but the two current heads is reported even when the emitted sequence is unaffected",
                 "Init on a used Mixer value must leave nothing of the previous inputs behind (Init 'initializes the mixer')",
                 "a merge over fresh iterators owes nothing to iterators that were used and closed earlier in the process, whatever documented "
                 "Close discipline their creator followed (each created iterator closed at most once by the creator, possibly once more through "
                 "Mixer.Close forwarding); the nested-tree reference applies the C18 statement to every mixer of the tree",
                 "'when both inputs can be reset' is a statement about the two sources handed to this mixer's Init (do they implement golibs.Reseter, does their Reset return nil): a refused Reset of another mixer over other "
                 "iterator types - however those types are named or printed - gives no licence to refuse this one"],
    units=[
        dict(name="exhaustive", run="^TestC18Exhaustive$", shards=(16, 16), timeout=(200, 1200)),
        dict(name="rapid", run="^TestC18Rapid$", checks=(10000, 200000), shards=(2, 16), timeout=(200, 1200)),
        dict(name="sessions_exhaustive", run="^TestC18ExhaustiveSessions$", shards=(8, 16), timeout=(200, 1200)),
        dict(name="element_types", run="^TestC18ElementTypes$", checks=(6000, 60000), shards=(2, 8), timeout=(200, 1200)),
        dict(name="sessions_rapid", run="^TestC18RapidSessions$", checks=(4000, 20000), shards=(2, 16), timeout=(200, 1200), shrinktime="10s"),
        dict(name="type_history", run="^TestC18TypeHistory$", checks=(600, 6000), shards=(8, 16), timeout=(200, 1200), shrinktime="10s"),
    ],
)

LEVEL_TEXT["C18"] = (
    "Generated-input search with an exact oracle: every pair of short sequences over a 3-value alphabet, every selector, every "
    "combination of source kinds and every HasNext/Next/Reset/re-Init program up to a depth bound, plus random long inputs and "
    "programs, plus histories of several merge trees (mixers of mixers, opened, used and closed over time under every documented Close discipline), plus process-long histories of mixers over iterator types that share their printed name but differ in having Reset, are compared call by call with a two-pointer reference merge in which each element is tagged with its origin, and "
    "the selector verifies that it is only consulted about the two current heads. No "
    "counterexample among the cases counted in the evidence; not a proof for longer inputs, deeper programs or other selectors."
)
