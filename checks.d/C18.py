PROPS["C18"] = dict(
    pkg="p_mixer", hooks=[], level="exploration", design="DESIGN.md §4 C18",
    technique="differential PBT against a two-pointer reference merge; bounded-exhaustive sequence pairs x selectors x "
              "source kinds x call programs, plus rapid long inputs and long programs",
    rule="case = (two int sequences, a second pair of sequences, source kind per input, selector, call program over HasNext/Next/"
         "Reset/Init-again followed by a full drain); letter i calls Init on the same Mixer value with fresh iterators over the "
         "other pair of inputs, after which the expected output is a fresh merge of the new inputs. Every element carries its "
         "origin (value<<15|init generation|side|index, selectors compare the value only) so that tie preference, per-input "
         "order and stale look-ahead are observable. The selector handed to the mixer also checks its arguments: it must be asked "
         "about exactly (current head of input 1, current head of input 2) and never while an input has no head "
         "(sig mixer:selector-got-non-head). Exhaustive: all pairs of sequences over {1,2,3} of length 0..3 (thorough: also 0..4) "
         "x 5 selectors (<, <=, always-first, always-second, >) x source kinds x every program over {h,n,r,i} / {h,n,r} to the "
         "depths in exhaustive_parts; re-Init inputs there are the swapped pair and, as a second variant, two empty inputs; a "
         "pair with a non-resettable source is enumerated only with programs whose first Reset is the last call (the wrapper "
         "delegates every other call and the case ends at the refused Reset); an empty input is served both from an empty non-nil "
         "slice and from a nil slice (WrapIntSlice(nil), per side; for the two-empty re-Init variant both-nil with selector <= only). rapid: lengths 0..40, alphabets of 1..20 values, "
         "sorted under the selector in 60% of the draws, independent second pair, programs up to 120 (200) calls, no reductions; empty inputs nil or non-nil (drawn), 5% inputs of "
         "500..3000 elements, 5% negative/zero/extreme values (|v| < 2^42), 5% both inputs served from one and the same slice. Source kinds: WrapIntSlice, a wrapper without Reset (Reset must return an "
         "error; the mixer is not used afterwards because its state after a refused Reset is undocumented), and a resettable "
         "source whose final HasNext says true while the following Next returns (0,false) and which stays exhausted "
         "afterwards (iterator.go imparity; the undelivered element is not part of the input). Sources that revive after "
         "reporting exhaustion are not generated. non-trivial = the selector decided a tie between equal heads, or exactly one "
         "input is empty, or a successful Reset happened midway / on a loaded look-ahead / after the end, or HasNext was "
         "called twice in a row, or a lying final HasNext was consumed, or Init was called again while a look-ahead was pending; distinct = FNV hash of the whole case",
    assumptions=["reference merge written from the C18 statement: head of input 1 is emitted iff input 2 is exhausted or "
                 "(input 1 is not exhausted and selector(head1, head2)); when Next returns ok=false its value is not compared",
                 "Reset with two resettable sources is required to succeed (the sources' own Reset returns nil)",
                 "'any selector' includes selectors that are only defined on real elements: consulting the selector with anything "
                 "but the two current heads is reported even when the emitted sequence is unaffected",
                 "Init on a used Mixer value must leave nothing of the previous inputs behind (Init 'initializes the mixer')"],
    units=[
        dict(name="exhaustive", run="^TestC18Exhaustive$", shards=(16, 16), timeout=(200, 1200)),
        dict(name="rapid", run="^TestC18Rapid$", checks=(10000, 200000), shards=(2, 16), timeout=(200, 1200)),
    ],
)

LEVEL_TEXT["C18"] = (
    "Generated-input search with an exact oracle: every pair of short sequences over a 3-value alphabet, every selector, every "
    "combination of source kinds and every HasNext/Next/Reset/re-Init program up to a depth bound, plus random long inputs and "
    "programs, are compared call by call with a two-pointer reference merge in which each element is tagged with its origin, and "
    "the selector verifies that it is only consulted about the two current heads. No "
    "counterexample among the cases counted in the evidence; not a proof for longer inputs, deeper programs or other selectors."
)
