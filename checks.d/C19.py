PROPS["C19"] = dict(
    pkg="p_errors", hooks=[], level="exploration", design="DESIGN.md §4 C19",
    technique="exhaustive cross-product of class x other class x wrap-text list (depth 0..4) x embedding level x object x gRPC "
              "code x message, systematic message sizes around powers of two up to 64 KiB, batches of chains built before any "
              "is checked + rapid message texts, objects, sizes and batches; relational oracle",
    rule="chain case = (class with a gRPC code, list of 0..4 (thorough: exhaustive 0..5, rapid 0..6) fmt.Errorf(\"%s%w%s\") levels with verbatim pre/post texts, optional "
         "errors.EmbedObject at one level 0..depth, object); checked: Is(GRPCWrap(e), class), not Is(GRPCWrap(e), k) for each of "
         "the 11 other distinct class values (incl. ErrClosed, ErrCommunication), GRPCWrap(GRPCWrap(e)) == GRPCWrap(e) with the "
         "same code, ExtractObject true and JSON-equal object directly after EmbedObject, after all wraps, after GRPCWrap and "
         "after the second GRPCWrap - all of it only after the chain, GRPCWrap(e) and GRPCWrap(GRPCWrap(e)) have been created. A "
         "chain may carry a target length: err.Error() of the finished chain is padded with ASCII to exactly that many bytes, the "
         "padding sitting in a wrap text inside or outside the embedding, in the object's string, in many array elements or in "
         "many fields (systematic: 19 targets 100..65537 around 256/1024/4096/16384/65536 x 5 places x embedding levels; rapid: "
         "power of two +-64 or log-uniform up to 70000 in 20% of the chains). batch case = 2..8 chains with distinct objects: "
         "every chain is built (GRPCWrap per chain or after all are built) before the first result is looked at, then each is "
         "checked like a single chain (systematic: sizes 2..8 x depth 0..2 x embedding inner/outer x GRPCWrap order; rapid: 20% "
         "of the cases). code case = (one of the 17 gRPC codes, message): for a non-OK code exactly one distinct class "
         "k has Is(status.Error(c,msg), k) and FromGRPCError is non-nil (OK: status.Error is nil, nothing asserted). "
         "Exhaustive: 10 classes x every list over 8 text styles up to the depth in exhaustive_parts x (no embedding + every level x 3 objects), and 17 "
         "codes x 13 messages; rapid: texts from ASCII/unicode/JSON fragments/colons/%/ESC/\"json\"/\"\\x1bjso\" pieces and "
         "arbitrary strings, nested objects whose strings may contain the complete marker (JSON escapes ESC). Excluded: the "
         "complete marker \\x1bjson in a wrap text, also when it would only arise across a concatenation boundary (then the "
         "level's texts are replaced by \"[\" \"]\", class text_would_complete_marker_replaced) - EmbedObject's precondition and "
         "ExtractObject's two-marker format; chains that contain more than one class (GRPCStatusCode's fallback iterates a map); "
         "invalid UTF-8. non-trivial = chain with >= 1 wrap level or an embedded object, or a batch with >= 2 embedded objects, or a non-OK code; distinct = FNV hash of "
         "the JSON form of the case",
    assumptions=["the classes that have a gRPC code are the ten named in the errorsToCode table at the pinned commit (fixed list, "
                 "not derived from the code under test)",
                 "'equal object' is decided on the JSON form of the extracted vs embedded object (nil and empty slices coincide)",
                 "nothing is asserted about which code a class gets, only the relations of the C19 statement; in particular the "
                 "text of GRPCWrap(e) is not compared with e.Error() - a lost or altered text is reported only through "
                 "ExtractObject (false or a different object)",
                 "an error value and its embedded object must not depend on errors created after it (batches)"],
    units=[
        dict(name="exhaustive", run="^TestC19Exhaustive$", shards=(16, 16), timeout=(200, 1200)),
        dict(name="rapid", run="^TestC19Rapid$", checks=(5000, 100000), shards=(2, 16), timeout=(200, 1200)),
    ],
)

LEVEL_TEXT["C19"] = (
    "Generated-input search with a relational oracle: the complete cross product of the ten coded classes, all other classes, wrap "
    "lists up to depth 4 over a text alphabet that includes the embed marker's neighbours, every embedding level and all 17 gRPC "
    "codes is enumerated, message lengths are driven to the bytes around every power of two up to 64 KiB, batches of up to 8 errors "
    "are built before any of them is inspected, and random texts, objects, sizes and batches are added on top; each chain is checked for class preservation, absence of "
    "every other class, idempotence of GRPCWrap and object extraction. No counterexample among the cases counted in the evidence; "
    "not a proof for other wrapping forms (errors.Join, custom error types) or deeper chains."
)
