PROPS["C19"] = dict(
    pkg="p_errors", hooks=[], level="exploration", design="DESIGN.md §4 C19",
    technique="exhaustive cross-product of class x other class x wrap-text list (depth 0..4) x embedding level x object (Go structs and generated protobuf messages) x gRPC "
              "code x message, exhaustive lists of level forms (several %w, errors.Join with non-class side errors, inner GRPCWrap), systematic message sizes around powers of two up to 64 KiB, batches of chains built before any "
              "is checked + rapid message texts, objects, sizes and batches; relational oracle; concurrent hammer (goroutines behind a spin barrier work on chains of different classes, every result compared with the "
              "result of the same call made sequentially before)",
    rule="chain case = (class with a gRPC code, list of 0..4 (thorough: exhaustive 0..5, rapid 0..6) fmt.Errorf(\"%s%w%s\") levels with verbatim pre/post texts, optional "
         "errors.EmbedObject at one level 0..depth, object); checked: Is(GRPCWrap(e), class), not Is(GRPCWrap(e), k) for each of "
         "the 11 other distinct class values (incl. ErrClosed, ErrCommunication), GRPCWrap(GRPCWrap(e)) == GRPCWrap(e) with the "
         "same code, ExtractObject true and JSON-equal object directly after EmbedObject, after all wraps, after GRPCWrap and "
         "after the second GRPCWrap - all of it only after the chain, GRPCWrap(e) and GRPCWrap(GRPCWrap(e)) have been created. "
         "A level is not only a single-%w fmt.Errorf: it can be a fmt.Errorf with several %w verbs or an errors.Join whose other operands "
         "(1..3 side branches, before or after the branch holding the class) are errors that are NOT classes of the library and match none "
         "with errors.Is - context.Canceled, context.DeadlineExceeded, io.EOF (bare or wrapped once with %w) and errors.New(text) - so the "
         "chain is a tree with exactly one class in it; and a level can be errors.GRPCWrap itself (layered chains: a lower layer already "
         "converted its error for the wire, or it arrived from a downstream gRPC call, and %w wrapping / side branches / EmbedObject continue "
         "above it before GRPCWrap is applied again at the top). The same checks apply to every such tree (unit trees: every list over 18 level "
         "forms = plain fmt, GRPCWrap, {two-%w fmt, Join} x {class branch first, last} x 4 side kinds, to depth 3 (thorough 4) x 10 classes x "
         "(no object + object at every level); rapid: 60% of the chains draw each level from plain 30% / GRPCWrap 20% / several-%w 30% / Join 20%). DEEP CHAINS ('at any depth'): a level entry may carry a repeat count (Rep: the level is applied Rep+1 times), so a chain has up to thousands of Unwrap links between the error "
         "handed to GRPCWrap and the class. Unit deep: links = 2^k-1, 2^k, 2^k+1 for 32..4096 (thorough ..16384), 10^k-1..10^k+1 for 100, 1000 (thorough 10000), 2000, 3000, 5000 x 10 classes x shapes "
         "(bare %w run, run with a text, a several-%w or Join node in the middle of the run, the run below / above an inner GRPCWrap level, forks all the way for <= 257 links, Join forks among them up to 65) x "
         "(no object, object innermost, object outermost); rapid: one single chain in ten (thorough: in twenty; one batch chain in thirty) turns one or two of its levels into runs of 8..4096 links (log-uniform, or 2^k/10^k +-1; runs of several-%w levels <= 200, of Join levels <= 40 (a Join renders its whole message again on every Error() call); "
         "texts of <= 2 bytes per side, none for runs above 512 links, because the message is copied at every link; no length target). OBJECT SIZES: a chain may carry an object target - the object is padded (string / many elements / many fields) until its "
         "JSON text between the markers has exactly that many bytes; unit deep runs every multiple of 512 up to 8 KiB (thorough 32 KiB) -8..+2 x 3 pad places x embedding innermost/outermost, rapid 5% of the single chains with an object. A "
         "chain may carry a target length: err.Error() of the finished chain is padded with ASCII to exactly that many bytes, the "
         "padding sitting in a wrap text inside or outside the embedding, in the object's string, in many array elements or in "
         "many fields (systematic: 19 targets 100..65537 around 256/1024/4096/16384/65536 x 5 places x embedding levels; rapid: "
         "power of two +-64 or log-uniform up to 70000 in 20% of the chains). batch case = 2..8 chains with distinct objects: "
         "every chain is built (GRPCWrap per chain or after all are built) before the first result is looked at, then each is "
         "checked like a single chain (systematic: sizes 2..8 x depth 0..2 x embedding inner/outer x GRPCWrap order; rapid: 20% "
         "of the cases). Twin batches: two chains whose messages are byte-identical but whose classes differ - 'p<text of A>, <text of B>q' built once "
         "as a %w chain around A with B's text in the level-0 Post text and once around B with A's text in the level-0 Pre text (class texts are "
         "legitimate message texts) - in both construction orders (systematic: all 90 ordered class pairs x no object / object above level 0 or 1 x "
         "GRPCWrap order; rapid: a third of the batches get one such pair); only the %w structure may decide the class. code case = (one of the 17 gRPC codes, message): for a non-OK code exactly one distinct class "
         "k has Is(status.Error(c,msg), k) and FromGRPCError is non-nil (OK: status.Error is nil, nothing asserted). "
         "Exhaustive: 10 classes x every list over 8 text styles up to the depth in exhaustive_parts x (no embedding + every level x 4 objects), and 17 "
         "codes x 13 messages; rapid: texts from ASCII/unicode/JSON fragments/colons/%/ESC/\"json\"/\"\\x1bjso\" pieces and "
         "arbitrary strings, nested objects whose strings may contain the complete marker (JSON escapes ESC). Excluded: the "
         "complete marker \\x1bjson in a wrap text, also when it would only arise across a concatenation boundary (then the "
         "level's texts are replaced by \"[\" \"]\", class text_would_complete_marker_replaced) - EmbedObject's precondition and "
         "ExtractObject's two-marker format (checked on the assembled message of the level, side texts included); chains that contain more than one "
         "class (GRPCStatusCode's fallback iterates a map) - therefore side branches never hold a class, an error that Is a class "
         "(syscall.Errno ...) or a gRPC status; custom error types with their own Is/As/Unwrap. "
         "TEXTS THAT LOOK LIKE JSON: object strings and map keys (and wrap texts) also draw from an alphabet of texts that look like JSON escapes - the six-character text backslash-uXXXX for the code points json.Marshal itself writes that way (003c 003e 0026 2028 2029 001b 0000) and for others, "
         "upper-case and truncated forms, a surrogate pair, backslash-n/t/r/b/f/slash/quote, a doubled and a lone backslash, quote characters - next to the characters < > & U+2028 U+2029 and HTML fragments themselves: in a Go string the backslash is an ordinary character, so the object must come back unchanged "
         "(one drawn text in ten is built from 1..5 such pieces; exhaustive: a fourth object with such texts in its string, array elements, keys and values of both maps and the nested object runs through the class x wrap list x embedding level product and the extraction-target section; classes object_string_looks_like_json_u_escape, object_map_key_looks_like_json_u_escape, ...). "
         "EXTRACTION TARGETS: a chain with an object may name a caller-owned target kind (Into): *Obj, *any, *map[string]any, one *json.RawMessage variable re-used for all stages (nil at first, or holding other content with 4 KiB of spare capacity), "
         "or a named []byte type whose UnmarshalJSON keeps a copy of the text. At every stage (result of EmbedObject, finished chain, GRPCWrap, second GRPCWrap) the object is first extracted into that target, compared with what encoding/json itself decodes "
         "from the embedded object's JSON text into a target of the same kind (re-marshalled; RawMessage/[]byte texts compared after a decode through interface{}), and then OVERWRITTEN IN PLACE by the caller (every byte of the RawMessage/[]byte, every field, element and map entry of the decoded values) - "
         "what ExtractObject filled in belongs to the caller - before the plain *Obj extraction of the stage and all later stages run; at the end the plain extraction is repeated on the result of EmbedObject, the finished chain, GRPCWrap(e) and a fresh GRPCWrap(e). "
         "rapid: half of the chains with an object, kind drawn; exhaustive: every list up to depth 2 over 6 styles x 10 classes x embedding level x 5 objects x (no target + 6 kinds), half of the combinations at depth 2. "
         "GENERATED PROTOBUF MESSAGES AS OBJECTS AND TARGETS: the embedded object may be a generated message (the natural payload of a gRPC service; a Go struct with json tags for the json.Marshal/json.Unmarshal that EmbedObject/ExtractObject document), "
         "embedded by pointer as users do and extracted into a FRESH message of the same type; equal = proto.Equal with a message built from the same description that was never given to the library AND the same json.Marshal text. "
         "Message types are the ones reachable offline through the library's own dependencies, 25 kinds: flat ones of google.golang.org/genproto/googleapis/rpc/errdetails (ErrorInfo with a string map, DebugInfo with repeated strings, ResourceInfo, RequestInfo, LocalizedMessage, "
         "BadRequest / QuotaFailure / PreconditionFailure / Help with repeated flat sub-messages), messages that hold well-known types (errdetails.RetryInfo{Duration}, the library's own kvs record golibskvspb.Record{bytes, Timestamp, optional Timestamp}, rpc status.Status{repeated Any}) and well-known types themselves "
         "(Timestamp, Duration, Any, FieldMask, Empty, Struct with string/number/bool/null/list/nested values - it brings its own MarshalJSON -, String/Bytes/Int64/UInt64/Int32/Bool/DoubleValue). A message is plain data in the case (kind + texts + numbers + byte strings, filled in a fixed kind-specific way; absent elements = zero value / absent sub-message); "
         "string fields are valid UTF-8 as proto3 demands (marker, JSON-like and HTML texts included), bytes fields hold arbitrary bytes, timestamps/durations are brought into their documented ranges, doubles are finite (NaN/Inf are not marshalable - EmbedObject documents that it returns err unchanged then). "
         "Caller-owned targets of such a chain: a message of the same type (fresh per stage, then overwritten in place through protoreflect: every byte of bytes fields, every scalar, element and map entry at every depth) or any/map/RawMessage/[]byte as above (compared with what encoding/json decodes from the message's JSON text). "
         "exhaustive: every list up to depth 2 over (plain text, JSON-like text, inner GRPCWrap, Join with a side error) x 10 classes x embedding level x 75 messages (3 per kind: empty, populated with hard texts/bytes/extreme numbers, small) x (fresh message + 6 owned kinds), a sixth of the combinations at depth 2; "
         "rapid: one embedded object in four, half of them from the kinds with sub-messages of well-known types; batches put the chain's position into the message. Length targets of such chains pad wrap texts only; object-size targets do not apply. Verified first that the unchanged library round-trips all 25 kinds at every stage. "
         "Not covered: messages with oneof fields of interface type (encoding/json cannot decode into them - outside what EmbedObject/ExtractObject promise), re-use of one message variable across extractions (json.Unmarshal merges into a used struct), proto2 / unknown fields / extensions. "
         "LITERAL OBJECTS (JSON text that is not a {...} object): EmbedObject takes any non-nil interface value json.Marshal accepts, so the embedded object may be a value whose JSON text is the bare null - through every Go shape that marshals to it and that EmbedObject accepts "
         "(verified on the unchanged tree: only the untyped nil interface is refused): typed nil pointer to struct / int64 / string, nil slice, nil map, nil json.RawMessage, json.RawMessage(\"null\") also with surrounding white space, pointer to a nil interface, a json.Marshaler that writes null (value, nil pointer to it, a nullable-number type that also decodes null itself) - "
         "or true / false, 0, -0, int64 / uint64 extremes, float64 extremes and 5e-324, json.Number of hundreds of digits or with exponents beyond float64 (1e400), \"\", the strings \"null\" \"true\" \"0\" \"[]\" \"{}\" \"[null]\" ' null ' \"nullnull\" \"NULL\" and the six-character-escape spelling of null, [] and {} (empty non-nil slice / map, empty struct), "
         "[null] ([]any / []*int64), {\"a\":null} (map of any / of pointers, a struct whose pointer, slice, map, interface, RawMessage and struct-pointer fields are all nil), [\"null\"], {\"null\":\"null\"}, raw JSON texts built from these with white space. Plain data in the case: shape name + parameter text (27 shapes). "
         "At every stage (result of EmbedObject, finished chain, GRPCWrap, second GRPCWrap) ExtractObject into a ZERO target of the value's own Go type must return true and leave the target reflect.DeepEqual and json.Marshal-equal to a target prepared in the same way and handed to json.Unmarshal together with the JSON text EmbedObject wrote (nothing of encoding/json's null rules is modelled); "
         "extraction-target kinds of such a chain: a USED target of the own type (pointer to other content, filled slice with spare capacity, map with other keys, struct with every field set, non-empty RawMessage ...: null resets a pointer / slice / map / interface and leaves a struct or number alone, a map target keeps its other keys - whatever json.Unmarshal does), "
         "*any fresh and *any that held a map, and the re-used *json.RawMessage (nil / with spare capacity) and []byte Unmarshaler of the other objects (both then overwritten by the caller). A target that cannot take the text under encoding/json itself (number beyond float64 into interface{}) asserts nothing; RawMessage / Unmarshaler targets must then hold the text itself. "
         "exhaustive: every list up to depth 2 over (plain text, JSON-like text, inner GRPCWrap, Join with a side error) x 10 classes x embedding level x 89 literal objects x (zero target + 6 kinds), an eighth (thorough: half) of the combinations at depth 2; rapid: one embedded object in six, half of them null shapes, parameter texts half fixed half drawn (numbers of up to 60+30 digits with exponents, strings and raw JSON built around the literals). "
         "Literal objects of a batch need not be distinct; length targets pad wrap texts only. Classes object_json_is_null, object_json_is_bare_bool/number/string, object_json_is_empty_container, object_json_holds_null_inside_a_container, object_json_holds_the_word_null_in_a_string, literal_shape:*, literal_object_extracted_into_*. "
         "FOREIGN EXTRACTION TARGETS AND OBJECTS THAT MARSHAL MORE THAN THEY DECLARE (foreign.go): the type of the caller's target differs from the type of the embedded object the way real callers' do - narrow (a struct with 2 of the object's fields), wide (all fields of Obj + 3 more), "
         "cased (no json tags, field names differ from the keys in case only: encoding/json matches case-insensitively), embedded (the fields spread over an anonymous struct and an anonymous pointer-to-struct), loose (fields of type any / json.Number / []any / map[string]any / json.RawMessage), empty (struct{}), "
         "typed (map[string]json.RawMessage), mismatch (the field for key s is an int), scalar (int64), strings ([]string); zero, or USED (+used: json.Unmarshal of a fixed other object into it before, absent keys must keep their old content) - 17 kinds, for every kind of embedded object (Obj struct, generated message, literal object). "
         "Three more object shapes (30 in all): discriminated (a struct whose MarshalJSON adds a \"kind\" key and that has no UnmarshalJSON, so its own type does not decode the key), discriminated_ptr (pointer-receiver MarshalJSON adding \"@type\" and a \"meta\" object), embedded_fields (a struct with anonymous embedded struct fields by value and by pointer), "
         "each extracted into a zero / used target of its own type and into the other kinds like any literal object. Oracle, purely differential (ExtractObject 'returns ... whether err contains the object value and it was extracted successfully', the object travels as its json-marshaled version): at every stage ExtractObject must return true "
         "exactly when json.Unmarshal of the JSON text EmbedObject wrote into an identically prepared target returns nil (sig errors:extract-failed / errors:extract-reported-undecodable), and on success leave the target reflect.DeepEqual and json.Marshal-equal to that one (targets holding a RawMessage: equal after re-rendering through interface{}, "
         "because EmbedObject spells an invalid byte as the escape \\ufffd); after a refused extraction the target is not compared. exhaustive: every list up to depth 1 (thorough 2) over (plain text, JSON-like text, inner GRPCWrap, Join with a side error) x 10 classes x embedding level x 16 objects (3 Obj structs, 8 literal objects of every JSON form "
         "incl. raw objects with keys in both spellings / wrong value types, the 3 new shapes, 2 generated messages) x 17 kinds, half of the combinations at depth >= 1; rapid: a third of the caller-owned targets are foreign. Classes foreign_target_decodes:<kind>, foreign_target_cannot_take_the_object:<kind>, object_json_has_keys_its_own_type_does_not_decode. "
         "RAW BYTES: error texts and object strings are Go strings, not necessarily UTF-8. Inside a case every text is valid UTF-8 and a rune U+F780..U+F7FF stands for the raw byte 0x80..0xFF (so the JSON form of the case is exact); the library gets the decoded bytes. "
         "Wrap texts, side texts, object strings / keys and code messages may hold invalid bytes (Latin-1, lone continuation bytes, truncated sequences, surrogates, overlong forms, 0xFF) and genuine U+FFFD characters "
         "(one rapid chain in six draws two thirds of its texts from such pieces, so that raw bytes in the wrapping meet U+FFFD in the object's JSON text; exhaustive: 4 raw styles, 2 raw objects in the section above, 2 raw code messages). "
         "Invalid UTF-8 had been excluded because encoding/json would not keep such a case byte-exact and because json.Marshal writes U+FFFD for invalid bytes of the OBJECT's strings (two map keys may even coincide), so the Go value embedded is not what any decoder can return: "
         "for an object with invalid bytes the reference of all stages is therefore what the library itself extracts from the result of EmbedObject (same library path before and after the wrapping and GRPCWrap); objects whose strings are valid - U+FFFD included - keep the "
         "embedded value as the reference, whatever the wrap texts hold. Verified first that the unchanged library (in process: status.Error keeps the message bytes) behaves consistently on all of these. What a real gRPC transport does to a status message that is not UTF-8 is not part of the check. "
         "CONCURRENT USE (conc.go, unit concurrent; thorough also unit concurrent_race under the race detector): hammer case = 2..12 chains around different classes (the ten coded classes in a drawn order) + goroutine count G (2..16, clamped to GOMAXPROCS) + rounds. "
         "Phase 1: every chain is checked sequentially like a chain of a batch (all relations above). Phase 2, still sequentially: the outcome of every step of every chain is computed once - GRPCStatusCode(e), code and text of GRPCWrap(e), "
         "the set of classes k with Is(e, k) and with Is(GRPCWrap(e), k) over all 12 classes, FromGRPCError / FromGRPCErrorMsg of the wrapped error, ExtractObject (ok + JSON text into a json.RawMessage) from e and from GRPCWrap(e). "
         "Phase 3: G goroutines start together behind a spin barrier and make `rounds` visits each (quick 1000..3000, thorough 4000..12000; race unit <= 500); goroutine g visits chain (g*n/G + round) mod n, so that at every instant the goroutines work on "
         "DIFFERENT classes, and performs the steps of that chain in an order rotated by goroutine and round: on the shared prebuilt chain, on the shared GRPCWrap result made before the goroutines started (FromGRPCError, Is, GRPCWrap(g) == g, code), "
         "on a GRPCWrap result of its own and - chains of <= 12 links, every fourth visit - on a chain it assembles itself (EmbedObject included), i.e. wrapping of fresh errors is interleaved with reading already wrapped ones. "
         "Every result must equal the one of phase 2 (sig errors:concurrent-result-differs-from-sequential; the loop has no channel or mutex operation and formats nothing, one atomic stop flag is read every 32 visits). "
         "A third of the cases are lean (plain %w chains of depth 1..3, short texts, no object: the tightest loop), the others take chains from the rapid chain generator (all level forms, objects of all kinds, runs cut to <= 32 links; three bare classes in four get one level, "
         "a bare class being found by a map lookup). About 45 library calls per visit, some 5*10^4 visits in the quick tier. A replay re-runs the three phases on the chain set. Classes hammer_*. "
         "non-trivial = chain with >= 1 wrap level or an embedded object, or a batch with >= 2 embedded objects, or a non-OK code, or a hammer case in which >= 2 goroutines ran over chains of >= 2 different classes reachable through Unwrap only; distinct = FNV hash of "
         "the JSON form of the case",
    assumptions=["Is, GRPCWrap, GRPCStatusCode, FromGRPCError, FromGRPCErrorMsg, EmbedObject and ExtractObject are functions of their arguments and error values are immutable, so the relations of the statement hold for every call "
                 "whatever other goroutines call at the same time (a gRPC server wraps errors in all its handler goroutines): a result obtained concurrently must equal the result of the same call made alone; "
                 "the hammer is a probabilistic search (real parallelism, no schedule control), its silence is weaker evidence than that of the sequential units",
                 "the classes that have a gRPC code are the ten named in the errorsToCode table at the pinned commit (fixed list, "
                 "not derived from the code under test)",
                 "'equal object' is decided on the JSON form of the extracted vs embedded object (nil and empty slices coincide)",
                 "nothing is asserted about which code a class gets, only the relations of the C19 statement; in particular the "
                 "text of GRPCWrap(e) is not compared with e.Error() - a lost or altered text is reported only through "
                 "ExtractObject (false or a different object)",
                 "an error value and its embedded object must not depend on errors created after it (batches)",
                 "a value filled in by ExtractObject belongs to the caller: writing to it must not change what the error, or a status error made from it, "
                 "renders and yields afterwards (errors are immutable values; encoding/json copies what it decodes and asks the same of an Unmarshaler)",
                 "a generated protobuf message is an ordinary object for EmbedObject/ExtractObject (a struct with json tags, encoded and decoded by encoding/json, as documented): its encoding/json form, not the canonical protobuf JSON form, is what travels in the error text; "
                 "'the same object' for a message is proto.Equal (nil and empty repeated/bytes fields coincide, an absent and an empty sub-message do not) plus an identical json.Marshal text",
                 "an object whose JSON text is null (typed nil pointer, nil slice / map ...) or another bare literal is an embedded object like any other: EmbedObject documents only 'non-nil object' (the interface) and json-marshalling, ExtractObject documents json-unmarshalling into o; "
                 "'extractable' for it means ExtractObject returns true and the target - zero or used - ends up as json.Unmarshal of the embedded text leaves it",
                 "'extractable' is relative to the target the caller hands in: encoding/json (named by EmbedObject, used by ExtractObject) decides whether a target can take the embedded JSON text - unknown keys are skipped, absent keys leave fields alone, keys match fields case-insensitively, "
                 "a value of the wrong JSON type is an error; ExtractObject is held to exactly that verdict in both directions and, on success, to that content",
                 "for objects whose strings are not valid UTF-8 'the same object' means the object the library extracts right after EmbedObject (JSON cannot carry the invalid bytes)",
                 "'any chain of wrapping around it' is read to include the standard library's other %w forms (several %w verbs, errors.Join) "
                 "as long as the class is the only class in the tree, and chains in which GRPCWrap (idempotent by the statement) was already "
                 "applied at a lower layer; verified first that the unchanged library keeps class, exclusiveness, idempotence and the object "
                 "for all of these shapes"],
    units=[
        dict(name="exhaustive", run="^TestC19Exhaustive$", shards=(16, 16), timeout=(200, 1200)),
        dict(name="trees", run="^TestC19ExhaustiveTrees$", shards=(8, 16), timeout=(200, 1200)),
        dict(name="rapid", run="^TestC19Rapid$", checks=(5000, 100000), shards=(2, 16), timeout=(200, 1200)),
        dict(name="deep", run="^TestC19Deep$", shards=(4, 16), timeout=(200, 1200)),
        dict(name="concurrent", run="^TestC19Concurrent$", checks=(10, 25), shards=(1, 2), timeout=(200, 1200), shrinktime="5s", serial=True),
        dict(name="concurrent_race", run="^TestC19Concurrent$", checks=(0, 10), shards=(1, 2), timeout=(200, 1200), shrinktime="5s",
             race=(False, True), enabled=(False, True), env={"VERIF_HAMMER_MAX_ROUNDS": "500"}),
    ],
)

LEVEL_TEXT["C19"] = (
    "Generated-input search with a relational oracle: the complete cross product of the ten coded classes, all other classes, wrap "
    "lists up to depth 4 over a text alphabet that includes the embed marker's neighbours, every embedding level and all 17 gRPC "
    "codes is enumerated, message lengths are driven to the bytes around every power of two up to 64 KiB, batches of up to 8 errors "
    "are built before any of them is inspected, and random texts, objects, sizes and batches are added on top; each chain is checked for class preservation, absence of "
    "every other class, idempotence of GRPCWrap and object extraction. No counterexample among the cases counted in the evidence; "
    "error trees built with several %w verbs and errors.Join around one class (side branches holding context errors, io.EOF, plain errors) "
    "and layered chains with GRPCWrap at inner levels are enumerated to depth 3 as well; "
    "chains of up to 5000 links (16385 in the thorough tier) are run at depths around every power of two and ten; "
    "generated protobuf messages (errdetails, rpc status, the kvs record, well-known types) are embedded and extracted into fresh messages of the same type; "
    "goroutines hammer chains of different classes concurrently and every result is compared with the sequential one (thorough: also under the race detector); "
    "not a proof for other wrapping forms (custom error types, several classes in one tree) or still deeper chains."
)
