PROPS["C05"] = dict(
    pkg="p_distlock", hooks=["timeout", "inmem", "distlock"], level="fault_enumeration", design="DESIGN.md §4 C05",
    technique="scenario-based PBT on the real clock with short leases (overlay hook) and a fault-injecting storage wrapper: enumeration of 'k-th renewal fails' for every k, drawn hold/death/unlock-race scenarios, interval oracles with retry-confirmation",
    rule="scenario kinds: hold(n lease periods, renewal calls k1[,k2] fail transiently - every single k enumerated in the everyk unit, consecutive "
         "and separated pairs drawn; each renewal call may take 5-15% of the lease to reach the storage) sampled every lease/5: record present, ExpiresAt in the future, contender TryLock false, renewals continue; "
         "death(phase 0..99% of the renewal cycle, after 0..3 renewals, 1..3 lockers of different providers parked in LockWithCtx): they get the lock one at "
         "a time (a critical-section counter is checked), the first one not before the ExpiresAt stored at the "
         "moment of death (exact) and within one lease + 2 s of it; unlockrace(renewal in flight parked before/after being applied while Unlock "
         "runs): no record afterwards, <= 1 renewal attempt reaches the storage after Unlock returned, none succeeds, a second tenure of the "
         "same Locker is held for two leases undisturbed; handoff(first tenure ends at 5..110% of a renewal cycle after 0..2 renewals, the second "
         "tenure - same Locker or another provider's - starts at once): its record stays present and unexpired for three leases and a "
         "contender stays excluded; waithold(the next holder waited 0.3..2.5 leases in Lock() before it got the lock): its record is fresh - "
         "present, unexpired, contender excluded for 2.5 leases; bystander(lock A is unlocked while its renewal is in flight and 2-4 other locks of the "
         "process are acquired in that window): the other locks stay held for three leases; hold scenarios acquire through Lock(), or through LockWithCtx/TryLock with a context that is cancelled "
         "right after the acquisition on a storage wrapper that refuses done contexts (the context bounds the acquisition, not the tenure); relock(the same Locker is unlocked and locked again while a renewal "
         "of the first tenure is in flight, optionally with the second Create itself in flight while the late renewal completes): the second tenure is acquired, present, unexpired and exclusive for 2.5 leases; "
         "unlockfail(the Delete made by Unlock is lost on the way in, or its reply is, after 0..1.4 leases of holding, or with a renewal held in flight across the Unlock - before or after the storage applied it; that one attempt may still complete): <= 1 renewal attempt afterwards, none succeeds, a contender acquires right after the expiration the record had then "
         "and keeps its own record for 1.5 leases. In half of the hold scenarios the contender tries with a blocking LockWithCtx (a tenth of a lease) instead of TryLock, and 1-3 of its Create calls fail (request lost, or applied with the reply lost): "
         "a failing contender must not disturb the holder's record. trygate: two goroutines share a Locker and the second one's TryLock/LockWithCtx uses a context that parks the first time the lock code consults it, so that the first goroutine's Unlock can be placed inside the attempt; the second goroutine then holds for 1.8 leases. Hold scenarios also acquire with a context whose deadline (a quarter of a lease) simply runs out while the lock is held, and the injected renewal failures take six shapes (a plain error, errors wrapping ErrClosed / ErrCommunication / ErrInternal, context.DeadlineExceeded, io.ErrUnexpectedEOF - never ErrNotExist or ErrConflict, which are answers). Further shapes: three renewal failures in a row (the retries at 5/8, 6/8, 7/8 of the lease; the last one succeeds); another goroutine of the process using the holder's Locker meanwhile (its LockWithCtx cancelled while it waits for the token, or a failing TryLock); after an Unlock whose Delete failed THE SAME Locker calls LockWithCtx at once and must get the lock when the leftover record has lapsed; death with several waiters of which the one that started waiting first gives up before the record expires; the multi unit may first run 2-12 callbacks due at once through the process-wide timer pool and leave it idle before the first lock is taken. sharedhandoff: two goroutines share one Locker, the first unlocks while the second waits in Lock(), and the Delete of that Unlock is answered (or forwarded) a tenth of a lease late: the second goroutine gets the lock and keeps it for 2.5 leases. One hold scenario in six is a long tenure (6-12 leases) with up to 7 isolated renewal failures, each repaired by its retry. A multi unit runs, one scenario at a time (nothing else may touch the timer machinery), a process that holds 2-5 locks acquired 0-0.3 leases apart and unlocks a drawn subset at drawn moments "
         "(systematic: the two older of three locks unlocked in order of age at several phase pairs): the locks still held keep their records present and unexpired for three leases. Batches of 4..8 scenarios run concurrently. lease 300 ms (quick) / 60 ms..1 s (thorough). "
         "non-trivial = hold with >= 1 injected failure, death, handoff, waithold, unlockfail, or unlockrace/relock whose renewal really was in flight; distinct = hash of the scenario",
    assumptions=["real clock: a verdict that depends on an upper time bound is confirmed by re-running the scenario with the lease doubled (twice) before it is "
                 "reported; lower bounds (acquired before the stored expiration, record after Unlock) are exact and reported at once",
                 "the lease period is set through the overlay accessor VerifSetLease; storage = in-memory backend behind a per-provider fault wrapper",
                 "'about one lease period' is checked as <= 1 lease + 2 s after the stored expiration"],
    units=[
        dict(name="everyk", run="^TestC05EveryK$", shards=1, timeout=(300, 900)),
        dict(name="rapid", run="^TestC05Rapid$", checks=(6, 30), shards=(2, 12), timeout=(400, 1800)),
        dict(name="rapid_oldtimers", run="^TestC05Rapid$", checks=(0, 20), shards=(1, 6), timeout=(400, 1800), env={"GODEBUG": "asynctimerchan=1"}, enabled=(False, True)),
        dict(name="multi", run="^TestC05Multi$", checks=(8, 40), shards=(2, 8), timeout=(400, 1800), shrinktime="20s"),
    ],
)

LEVEL_TEXT["C05"] = (
    "Fault enumeration over the renewal chain: for a lock held n lease periods the k-th renewal call is made to fail for every k in turn, "
    "pairs of failures and holder death at drawn phases are generated, and Unlock is raced against a renewal parked by the harness before or "
    "after it is applied. Oracles read the stored record, a contender's TryLock and the log of storage calls over time. Real time is "
    "involved, so bounds are generous and confirmed by re-runs; defects whose only symptom is a delay below the bound are out of reach."
)
