PROPS["C07"] = dict(
    pkg="p_kv", hooks=["inmem"], level="exploration", design="DESIGN.md §4 C07",
    technique="stateful PBT over waiter scripts with an exact per-step expectation: in-memory backend in a testing/synctest bubble (quiescence = 'promptly'), Redis backend on its own miniredis per script with bounded real time",
    rule="case = script over {start waiter with current/stale/unknown version or pre-cancelled context, cancel waiter i, Put, PutMany (1-2 keys), "
         "CasByVersion ok/conflict, Delete, Create, advance clock} with up to 4 live waiters on 2 keys, <= 25(40) steps in-memory, <= 10 steps "
         "on Redis (batches of up to 8 scripts run concurrently, each on its own server). The hammer unit starts a waiter for the current version and writes the key (Put or CAS) at the same moment, "
         "300..2000(6000) times on 1..6 keys in parallel: after the write returned the waiter must return nil within 5 s. The squeeze unit forces a writer (Put/CAS/PutMany/Delete) between the critical sections of a starting waiter through the "
         "storage mutex, keeps a waiter that registered a moment before the expiry of its record off the processor until the expiry has passed (GOMAXPROCS(1), mutex handed to a spinning holder; afterwards ErrNotExist and an empty waiter table), and applies a Put "
         "between the expiry of a record and the expiry handling of the waiter parked on it. A deadline unit (both backends, real clock) runs waiters under a 10-400 ms deadline on a key that is not touched (or gets a new version at a drawn moment): the context's error may be returned only once ctx.Err() is non-nil (read the moment the call returns - exact), an untouched key yields neither nil nor ErrNotExist, a change well before the deadline yields nil. On Redis the deadline unit also owns the connection (go-redis Dialer; the wrapper honours the read deadline the client sets and a timed-out read comes back a millisecond after it): the reply of the waiter's k-th poll is withheld until 2 s after the deadline (the waiter must be back within deadline + 0.7 s, not with nil or ErrNotExist); 'joiner' cases withhold a poll reply of a first waiter for 500 ms, rewrite the key through another client and start a second waiter on the same client with the NEW version (it must stay blocked until its own deadline, which lies after the arrival of the withheld reply; the first waiter must end with nil); 'repeat' cases let 2-6 waiters in a row lose a poll reply across their deadline on a client with a pool of two connections and then require an ordinary waiter on that client to see an ordinary change within 1.5 s. Lagging-server steps in the scripts write a record whose expiry passes on the client's clock while the server (whose clock stands still) keeps serving it: the key exists. The Redis unit starts with systematic scripts: every kind of version argument (current, stale, garbage, EMPTY, seven near misses) against a live key. A waiter's version argument is the current version, a stale one, garbage, or a near miss of the current one (other letter case, leading/trailing blank, NUL, "
         "one character less or different): anything but the exact current version must return nil at once. Redis scripts also contain 'fault' steps (every Redis command fails for 180 ms): a waiter may give up with the storage's error or ride "
         "it out, but must not report a change or an absence that is not there; in-memory scripts also write records that are already expired "
         "(the key is then gone for every waiter). Put and CAS steps may write a 'journal' value - the bytes the storage held for the key just before (read from the Redis server; the previous version string in memory) - so that the old version text is part of the new record. A quiet unit (Redis) parks two waiters, lets 2.1 s or 4.3 s of real time pass with nothing happening and then wakes them by Put/Delete/CAS/PutMany/cancel: they must have returned 1 s after the 200 ms settling time (three runs in a row must miss that bound before it is reported). After every step every waiter must have returned iff "
         "key absent/expired (ErrNotExist) or version != argument (nil) or context done (context error), and must still be parked otherwise; "
         "the in-memory waiter table must hold exactly the parked waiters and be empty at the end. non-trivial = a waiter was cancelled "
         "while another one on the same key stayed parked, or one mutation woke >= 2 waiters; distinct = hash of (environment, script); "
         "classes woken_by:<op> = histogram of waking operation kinds",
    assumptions=["in-memory: the fake clock of the bubble only moves on 'advance'; quiescence is exact (synctest.Wait)",
                 "Redis: the waiter polls at most every 64 ms; a step settles for 200 ms, a waiter that must return is awaited for 5 s more and the "
                 "script is re-run once before a missing wake-up is reported", "waiter table read through the overlay accessor VerifWaiterTable"],
    units=[
        dict(name="deadline", run="^TestC07Deadline$", checks=(6, 60), shards=(1, 4), timeout=(300, 1200), shrinktime="15s"),
        dict(name="hammer_oldtimers", run="^(TestC07Hammer|TestC07Squeeze|TestC07Deadline)$", checks=(6, 100), shards=(1, 4), timeout=(300, 1500), shrinktime="15s", env={"GODEBUG": "asynctimerchan=1"}),
        dict(name="inmem", run="^TestC07InmemRapid$", checks=(20000, 60000), shards=(2, 16), timeout=(300, 1500)),
        dict(name="squeeze", run="^TestC07Squeeze$", shards=1, timeout=(300, 900)),
        dict(name="hammer", run="^TestC07Hammer$", checks=(40, 300), shards=(2, 8), timeout=(300, 1500), shrinktime="15s", race=(False, True)),
        dict(name="redis", run="^TestC07RedisRapid$", checks=(8, 60), shards=(4, 16), timeout=(300, 1500)),
        dict(name="redisquiet", run="^TestC07RedisQuiet$", shards=1, timeout=(300, 600)),
    ],
)

LEVEL_TEXT["C07"] = (
    "Generated scripts of waiters, writers, deleters and cancellations are played step by step; on the in-memory backend the harness owns "
    "the clock and the schedule (synctest bubble), so after each step it knows exactly which waiters must have returned with which result and "
    "which must still be parked - a lost or invented wake-up is an exact predicate, not a timeout. The Redis backend is checked with the same "
    "scripts under generous real-time bounds. Sampled scripts, not exhaustive."
)
