PROPS["C03"] = dict(
    pkg="p_kv", hooks=["inmem"], level="exploration", design="DESIGN.md §4 C03",
    technique="model-based differential PBT: every op list runs on a reference model, the in-memory and the Redis (miniredis) backend; bounded-exhaustive op lists + rapid",
    rule="case = op list over Create/Get/GetMany/Put/PutMany/CasByVersion/Delete/ListKeys with keys {a,a/,b,ab,a/b,k1,c\\d,a%,a%%,v%d,'',a/kvs/b} (the empty key included: known finding for ListKeys(\"?\") on the in-memory backend, see known_findings.txt); a 'fill' operation (one op in twenty) writes 3..130 fresh keys f000,f001,... in one PutMany with a drawn value and expiry, so that stores of tens to hundreds of records (classes store_of_64_or_more_keys / store_of_256_or_more_keys) are part of the histories and every listing is compared over all of them; after PutMany the harness refills its record slice, after GetMany it overwrites the returned records (both belong to the caller); expiries also 'an hour ago' and the zero time (the key is then absent; on Redis after its minimum TTL of 1 ms), values {nil,'',x,yy}, "
         "expiry none/+1h/+100h/'never' (1 January..December of the years 2500, 2999, 9999, 10000, 10001, 25000, 292277, 1000000 in turn - on both sides of what int64 nanoseconds, RFC 3339 and protobuf timestamps express; "
         "the ExpiresAt read back must equal the one written; the clock does not move here), a third of the ListKeys ops open a second listing right after the first and read the two iterators in reverse order (each must yield the keys present at that moment), CAS version current/previous/empty/garbage, GetMany/PutMany lists of 0..4 "
         "keys with repeats, 18 glob patterns from the subset gobwas/glob and Redis MATCH agree on; exhaustive part: all lists to the depth in "
         "exhaustive_parts over a 29-op alphabet on 2 keys. A third unit runs the in-memory backend alone against the model with records written already expired (Redis clamps TTLs to >= 1 ms and "
         "cannot take part). A bulk unit writes N records with PutMany (N at and around 64, 128, 256, 500, 512, 1000, 1024, 2000, 2048, 3000, 4096; chunked or in one call; "
         "with and without expiries), reads all of them plus absent keys back with ONE GetMany in a permuted order, lists them, deletes a part and reads "
         "again, on both backends. Excluded on purpose: keys with a leading '/', glob syntax only one side knows. "
         "non-trivial = some op met an existing key with an outcome class different from the empty store (ErrExist, conflict, overwrite, "
         "delete-existing, ListKeys with a match); distinct = hash of the op list",
    assumptions=["reference model written from the comments of kvs.Storage and the C03 statement; nil and empty values are identified; "
                 "version strings are compared structurally (stored==reported, fresh after every write)",
                 "Redis is the in-process miniredis v2.30.2 server"],
    units=[
        dict(name="exhaustive", run="^TestC03Exhaustive$", shards=(1, 16), timeout=(300, 1500)),
        dict(name="inmemexpired", run="^TestC03InmemExpired$", checks=(3000, 20000), shards=(1, 8), timeout=(300, 1500)),
        dict(name="bulk", run="^TestC03Bulk$", checks=(12, 120), shards=(2, 8), timeout=(300, 1500)),
        dict(name="rapid", run="^TestC03Rapid$", checks=(1700, 15000), shards=(6, 16), timeout=(300, 1500)),
    ],
)

LEVEL_TEXT["C03"] = (
    "Generated-input search against an executable reference model of the documented contract: each generated operation sequence is "
    "applied to the model and to both backends and every single result (error class, record content, reported versions, key lists) is "
    "compared; all sequences up to the stated depth over a small alphabet are enumerated, longer ones are random. Evidence = no "
    "disagreement among the counted cases; it is not a proof for longer sequences or other alphabets."
)
