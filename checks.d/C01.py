PROPS["C01"] = dict(
    pkg="p_distlock", hooks=["timeout", "inmem", "distlock"], level="fault_enumeration", design="DESIGN.md §4 C01",
    technique="schedule-controlled PBT: rapid draws worker programs, scheduler decisions and fault placements; the case runs in a testing/synctest bubble with every storage call gated; exhaustive single-fault sweep per base case; critical-section monitor as oracle; free-running -race stress in the thorough tier",
    rule="case = 1..3 providers over one gated in-memory store, 1..2 lock names, 2..4 Locker objects, 2..4(5) worker goroutines (some sharing a "
         "Locker) each with 1..3(4) rounds of Lock/TryLock/LockWithCtx(+pre-cancelled) followed by Unlock, and a list of <= 60(150) scheduler "
         "decisions interpreted against the enabled moves {start next command of an idle worker, release the parked storage call of worker w, "
         "cancel a running attempt, lapse a record that has no live holder}; up to two faults (request lost / reply lost) on Create, Delete or "
         "WaitForVersionChange by release index; the sweep unit re-runs every fault-free base case with a single fault at every release index "
         "(<= 40) of both kinds, plus drawn pairs. The clock is frozen, so leases of live holders never run out (the premise of C01); the longwaiter unit adds the real-clock scenario "
         "'B waits 0.6..3.1 leases in Lock() while A holds and renews, A unlocks, B holds 2.5 leases, a contender must stay excluded', and 'the holder dies, its record expires under 2-3 waiting lockers, which must then hold the lock one "
         "at a time', and 'a lock is unlocked during its renewal while other locks of the process are being acquired; those stay exclusive', and 'the same Locker is unlocked and re-locked while a renewal of its first tenure is in flight (held before / after the storage applied it, "
         "optionally with the second Create in flight too); the second tenure stays exclusive for 2.5 leases' (lease 300 ms). The longwaiter unit also holds a lock acquired through LockWithCtx/TryLock with a context cancelled right afterwards (on a storage that refuses done contexts), and holds against a blocking contender whose Create calls fail: the contender must stay excluded. "
         "The key space is spelled with prefixes of 1..45 bytes and lock names of 1..7 bytes in three styles (up to 3 names, up to 5 Locker objects created in drawn order on up to 3 providers). Injected storage errors of the engine take six shapes (plain, wrapping ErrClosed / ErrCommunication / ErrInternal, context.DeadlineExceeded, io.ErrUnexpectedEOF). The longwaiter unit further covers three renewal failures in a row, a second goroutine using the holder's Locker meanwhile (cancelled LockWithCtx, failing TryLock), deadline-carrying acquisitions whose deadline runs out during the tenure, the sharedhandoff and trygate scenarios (two goroutines on one Locker) judged for exclusion. Provider Shutdown moves are enabled in one case of six, and in half of the cases the storage refuses calls whose context is done. "
         "non-trivial = a Create of one Locker object met the record of another (ErrExist), or a fault or a cancel hit a parked attempt; "
         "distinct = hash of the case",
    assumptions=["interleavings are controlled at storage-operation granularity; goroutine interleavings inside one storage call are not (the in-memory "
                 "store holds one mutex per call); below that granularity only the free-running stress unit (thorough, -race) samples schedules",
                 "a record is 'lapsed' by the harness only when the critical-section monitor says nobody holds the lock and no Unlock is in progress",
                 "timer package re-initialised inside the bubble through the overlay accessors VerifReset/VerifDrain/VerifWatchers"],
    units=[
        dict(name="rapid", run="^TestC01Rapid$", checks=(6000, 50000), shards=(2, 16), timeout=(300, 1800)),
        dict(name="sweep", run="^TestC01FaultSweep$", checks=(150, 1500), shards=(2, 16), timeout=(300, 1800)),
        dict(name="longwaiter", run="^TestC01LongWaiter$", shards=1, timeout=(300, 900)),
        dict(name="stress", run="^TestC01Stress$", checks=(0, 150), shards=(1, 8), timeout=(300, 1800), race=(False, True), enabled=(False, True)),
    ],
)

LEVEL_TEXT["C01"] = (
    "The harness owns the schedule: each generated case fixes the lockers, their programs and the order in which their storage calls are "
    "let through, with injected request-lost/reply-lost errors; for every fault-free base case all single fault placements are enumerated. "
    "The oracle is a critical-section counter (holders <= 1 from the return of Lock/TryLock(true)/LockWithCtx(nil) until entry to Unlock). "
    "Evidence = cases, scheduling steps, fault placements tried. Not a proof: schedules beyond the drawn ones and below storage-call "
    "granularity are only sampled."
)
