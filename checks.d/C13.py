PROPS["C13"] = dict(
    pkg="p_timers", hooks=["timeout"], level="exploration", design="DESIGN.md §4 C13",
    technique="PBT over arrival scripts on the real clock: lateness bound per callback, pool wind-down to zero goroutines (hook + goroutine dump cross-check) and restart; systematic ordered pairs of arrival patterns + rapid scripts",
    rule="case = idle timeout 5/20/50 ms, pool limit 1..10, warm or cold pool, and a script over {far future 60..600 s (cancelled at the end), near "
         "1..30 ms, burst of 1..60 prompt callbacks due together, cancel the head of the queue, idle gap > 2 idle timeouts, sleeps}, steps issued "
         "inline or from other goroutines; the patterns unit plays every ordered pair of the six patterns for each idle timeout and pool limits "
         "1,10 (1,2,5,10 thorough). The exitrace unit schedules a prompt callback, waits until about the (calibrated) moment the idle worker leaves, "
         "schedules the next one, thousands of times with the arrival offset tracking the exit moment, and it also forces the order 'the last idle worker decides to leave, a Call "
         "arrives right behind it' through the package lock (FIFO hand-over of a starving sync.Mutex), and the same meeting in the other order at the worker's SECOND idle round (the Call queues first and finds a worker registered, the worker right behind it is about to leave: the future must be started all the same); a barge squeeze lets a burst grow the pool to 2-5 workers, keeps a far future pending and, at the moment the surplus workers reach their decision to leave (two idle rounds), queues 3, 11, 12 or 25 Calls on the package lock AHEAD of them (nobody is parked on the wake channel meanwhile, so the wake-up tokens pile up beyond the channel's capacity): afterwards a Call must RETURN (within 3 s - otherwise the package lock is held for ever: verdict call-blocked) and its function must be started. Checked: every future that was not cancelled starts within 3 s of call-return + delay; when nothing is "
         "pending the package reaches zero worker goroutines within 3*idle + 5 s; a Call after that fires within 3 s. A generations unit schedules a first generation of 1..9000(20000) futures (due in 10 min and cancelled, or due at once and left to fire, or alternating), a second generation of 1..3000 futures due 30-150 ms ahead (part of it before the first cancel sweep), "
         "and then cancels every handle of the first generation again 0-3 times (forward, reverse or shuffled): every future of the second generation is started exactly once, not early; the heap stays consistent. In 'layered' cases the first generation is a heap of 3..127 futures, two thirds due in 10 min and one third within 150-400 ms; the far ones are cancelled one by one "
         "and after every cancel the pending queue is checked to be a heap with consistent indexes (overlay accessor); the near ones must start on time. non-trivial = a near future "
         "was scheduled while only far ones were pending, or a burst exceeded the pool limit, or a Call hit a completely wound-down pool; "
         "distinct = hash of the case; classes max_lateness:* give the observed lateness histogram",
    assumptions=["'eventually' is decided as 'within 3 s' (healthy lateness measured here: p99 5 ms, max ~10 ms under load); a delay defect below 3 s is out of reach",
                 "a time-bound verdict is confirmed by one re-run of the same script before it is reported",
                 "idle timeout / pool limit set and worker count read through the overlay accessors VerifReset/VerifWatchers; the default 30 s idle timeout is not exercised in the quick tier"],
    units=[
        dict(name="generations", run="^TestC13Generations$", checks=(10, 80), shards=(1, 4), timeout=(300, 1500), shrinktime="20s"),
        dict(name="patterns", run="^TestC13Patterns$", shards=(6, 16), timeout=(300, 1800), shrinktime="20s"),
        dict(name="exitrace", run="^TestC13ExitRace$", shards=(2, 16), timeout=(300, 1800)),
        dict(name="rapid", run="^TestC13Rapid$", checks=(30, 400), shards=(6, 16), timeout=(300, 1800), shrinktime="20s"),
        dict(name="rapid_oldtimers", run="^TestC13Rapid$", checks=(10, 200), shards=(1, 4), timeout=(300, 1800), shrinktime="20s", env={"GODEBUG": "asynctimerchan=1"}),
    ],
)

LEVEL_TEXT["C13"] = (
    "Arrival scripts (far/near/burst/cancel-head/idle-gap in every order, concurrent callers, several idle timeouts and pool limits) are run "
    "for real; each callback's lateness is measured against a bound three orders of magnitude above the healthy value and far below the "
    "'slept towards the far deadline' failure, then the pool must reach zero goroutines and start again. Liveness is approximated by that "
    "bound, confirmed by a re-run; sampled scripts."
)
