PROPS["C02"] = dict(
    pkg="p_kv", hooks=["inmem"], level="exploration", design="DESIGN.md §4 C02",
    technique="concurrent-history PBT: rapid draws per-thread programs, real goroutines run them, the recorded history is decided by a linearizability checker (porcupine) with an executable per-key model plus winner/freshness counters",
    rule="case = T in 2..6(8) thread programs of up to 8(12) ops over 1..3 keys (Create/Get/Put/CasByVersion with last-seen, older or garbage "
         "version/Delete/GetMany/PutMany with and without a far-future expiry) or a race program (all threads create one key; all threads "
         "read-then-CAS one key), on the in-memory backend and on Redis (miniredis); in two cases out of five (half of the rediswire cases) all keys of the case are spelled with one or two leading '/' characters (the Redis backend maps such a key to the server key of the plain spelling: only one spelling is used per case); threads start behind a barrier and run freely with drawn "
         "Gosched calls; plus a hammer unit: 2..8 threads race Create on one fresh key (or CasByVersion on one version) behind a spin barrier "
         "for 200..1500(4000) rounds, with a context whose Err() yields the processor in half of the cases, winners counted directly; and a squeeze unit that forces pairs of in-memory operations (Create/Create, Create/Put, CAS/CAS, CAS/Put, CAS/Delete) "
         "into the order 'A's first critical section, all of B, A's next critical section' through the storage mutex (overlay accessor, FIFO hand-over of a "
         "starving sync.Mutex). A quarter of the PutMany batches carry per-record expiry flags and may repeat a key (the last record of a key is its per-key effect). A rediswire unit owns the schedule of the Redis backend at COMMAND granularity: every thread (2-4, programs of <= 4 ops, or shaped races: creators/deleters on one key, read-then-CAS, two single calls against each other) has its own "
         "client whose connection parks every command until the scheduler releases it; exactly one command is in flight at a time and the release order is a drawn, replayable list, so the interleavings of SET NX / GET / WATCH / MULTI..EXEC / DEL / MSET that make up "
         "concurrent Create, CasByVersion, PutMany ... calls are explored directly; in a third of these cases some writes carry an expiry 1 ms ahead, which the un-aged miniredis keeps (a server with a lagging clock): such a record may be found or be gone at any later "
         "step of the model, every later write without expiry must stick. In a third of the in-memory cases some writes carry an expiry that passed an hour ago (they leave the key absent, like a Delete, in the per-key model). The private unit also gives every thread 20-200 keys of its own that it writes with one PutMany per round and reads back with one GetMany, and it collects every version a successful write was given: over all keys and threads no version may occur twice ('a version never handed out before'). The hammer and private units stop starting new cases after 25 s (5 min) of wall time, so an overloaded machine shortens them instead of stretching the check (skipped cases are counted in the evidence). After a wire-scheduled history the server is aged by two hours: a record left without expiry must still be there with the same version, everything else must be gone. A private unit runs 2..48(64) goroutines on ONE storage object, each on a key of its own "
         "(Create / Put / CasByVersion with expiry / Delete, each followed by a Get, 20..300(1500) rounds, values of 0..2000 bytes): per key the calls are sequential, so every result must be the sequential one - nothing the callers share behind the scenes may carry one caller's data to another's key. A lostreply unit loses the reply of each wire command of a CasByVersion call in turn (the server applied the command, the connection breaks): the call may report the connection error or succeed, but must not answer ErrConflict/ErrNotExist while its own write is in the storage. The hammer also lets all threads meet the same born-expired records at the same moment (Get / GetMany / ListKeys, in-memory). The squeeze unit also forces a Put to be applied between the expiry of a record and the expiry handling of a waiter parked on it, and between the two halves of a Get/GetMany that meets an expired record (the Put's record must survive). Multi-key calls are split into per-key sub-operations sharing the call/return stamps. non-trivial = the recorded history "
         "has two overlapping operations of different threads on one key of which at least one is a write; distinct = hash of (programs, "
         "call/return stamp pattern observed)",
    assumptions=["schedules are sampled by the Go runtime, not enumerated; the deciding step is the checker on each recorded history",
                 "per-key sequential specification written from the kvs.Storage comments; the version of a record written by PutMany is unknown "
                 "to the model until first read and must differ from the one before", "porcupine v1.3.0; a checker timeout is inconclusive, never a violation"],
    units=[
        dict(name="inmem", run="^TestC02InmemRapid$", checks=(1500, 10000), shards=(2, 8), timeout=(300, 1500), race=(False, True)),
        dict(name="squeeze", run="^TestC02Squeeze$", shards=1, timeout=(300, 900)),
        dict(name="hammer", run="^TestC02Hammer$", checks=(60, 150), shards=(2, 6), timeout=(300, 1500), shrinktime="15s"),
        dict(name="lostreply", run="^TestC02RedisLostReply$", shards=1, timeout=(300, 900)),
        dict(name="private", run="^TestC02Private$", checks=(40, 60), shards=(2, 8), timeout=(300, 1500), shrinktime="15s"),
        dict(name="rediswire", run="^TestC02RedisWire$", checks=(600, 6000), shards=(2, 8), timeout=(300, 1500)),
        dict(name="redis", run="^TestC02RedisRapid$", checks=(400, 2500), shards=(6, 8), timeout=(300, 1500), race=(False, True)),
    ],
)

LEVEL_TEXT["C02"] = (
    "Each generated multi-threaded program is executed for real and its invocation/response history is handed to a linearizability checker "
    "with the documented per-key semantics (single Create winner, CAS succeeds at most once per version, documented loser outcomes, version "
    "changes on every write); independent counters re-check winners and global version freshness. Evidence = number of histories, how many "
    "had genuinely overlapping conflicting operations, samples. Interleavings are sampled, so rare schedules can be missed."
)
