PROPS["C08"] = dict(
    pkg="p_lru", hooks=[], level="exploration", design="DESIGN.md §4 C08",
    technique="model-based PBT (rapid) against a reference LRU with a create/delete callback ledger + "
              "bounded-exhaustive call sequences",
    rule="case = (shape in {Cache[string,int], ECache[[]string,string,int] with inner key = lower-cased join so that 3 distinct PKs "
         "collide per key, ExpirableCache[string,*item] whose expiry flag is owned by the harness}, capacity, key alphabet size, "
         "nil-or-not delete callback, op list over GetOrCreate(key, PK variant, create outcome ok|error) / Remove(key, PK variant) / "
         "Clear / mark-a-resident-item-expired (expirable only)) followed by a fixed epilogue (capacity insertions of fresh keys, "
         "each of which must evict the then least recently used entry, then a final Clear and the created/deleted ledger balance). "
         "Exhaustive over the full alphabet for the cells listed in exhaustive_parts (2 keys x capacity 1-2 for every shape, 3-4 keys x "
         "capacity 2-3 for Cache) to the depth given there plus the constructor refusals (maxSize<1, nil create function); rapid lists "
         "of up to 80 (thorough 160) calls, 2-6 keys for capacities 1-4, longer lists for capacities 5-8 and 64. "
         "non-trivial = an eviction took an entry that was not the oldest-created resident (a hit changed which entry is evicted "
         "later), or a failed creation happened between two hits, or a successful insertion followed a Clear that removed something; "
         "distinct = FNV hash of (shape, capacity, keys, flags, op list). Excluded: items that are already expired when the create "
         "function returns them and the residency of a stale item after a failed re-creation (neither is determined by the "
         "documentation; the second is followed, not asserted); concurrency (C09). GetOrCreate may carry a re-entrant create function: a nested program of at most 2 calls (GetOrCreate, Remove, rarely Clear; at most 2 levels deep) on other keys of the same cache, run by the create function before its own outcome (never on a key in flight: the single-flight table would make the call wait for itself); reference: the nested calls are ordinary calls at that moment, then the outer value is inserted as most recently used with eviction of the then least recently used entry. The ecache shape also covers reference-like PKs whose memory the caller recycles: the harness keeps two reusable []string key buffers and, in half of the ecache cases, makes two thirds of its GetOrCreate/Remove calls (also nested ones) through a buffer after overwriting its content with the call's key text, so PKs stored by earlier calls are mutated behind the cache; residency, hits, eviction order and capacity must follow the inner key as computed at call time.",
    assumptions=["reference LRU written from the C08 statement and the comments of ecache.go / expirable.go; residency is probed only "
                 "through return values, create-call counts and delete callbacks",
                 "ECache: the PK handed to the delete callback is the one stored at creation, a hit through another PK with the same inner "
                 "key returns the stored value without calling create (ecache.go stores pair{pk,v})",
                 "ExpirableCache: a stale item is only replaced when GetOrCreate touches it; until then it is an ordinary resident for "
                 "Remove/Clear/eviction order; expiry is a harness-controlled fact (GetExpiresAt returns year 1 or year 9000), no clock decision",
                 "the order of the delete callbacks inside one Clear is not asserted (undocumented)"],
    units=[
        dict(name="exhaustive", run="^TestC08Exhaustive$", shards=(4, 16), timeout=(120, 900)),
        dict(name="rapid", run="^TestC08Rapid$", checks=(25000, 250000), shards=(4, 16), timeout=(120, 900)),
    ],
)

LEVEL_TEXT["C08"] = (
    "Generated-input search with an exact oracle: every call sequence over the complete op alphabet (keys x create outcome x PK "
    "variant, Remove, Clear, expire) up to the depth bound for the small cells listed in the evidence, plus hundreds of thousands of "
    "random sequences for capacities 1-8 and 64 on all three cache shapes, are compared call by call (return value, error identity, "
    "create calls and their argument, exact delete callbacks) with a reference LRU, the recency order is read back through "
    "evictions at the end of every case and the created/deleted ledger is balanced after a final Clear. No counterexample among the "
    "cases counted in the evidence; not a proof for longer sequences or larger key sets."
)
