PROPS["C08"] = dict(
    pkg="p_lru", hooks=[], level="exploration", design="DESIGN.md §4 C08",
    technique="model-based PBT (rapid) against a reference LRU with a create/delete callback ledger + "
              "bounded-exhaustive call sequences",
    rule="case = (shape in {Cache[string,int], ECache[[]string,string,int] with inner key = lower-cased join so that 3 distinct PKs "
         "collide per key, ExpirableCache[string,*item] whose expiry flag is owned by the harness, Cache[string,any] (shape iface: the value type is an INTERFACE type and a successful "
         "creation hands over, as its op says, a non-nil pointer, the nil interface value - create returns (nil, nil) - or a typed nil pointer)}, capacity, key alphabet size, "
         "nil-or-not delete callback, op list over GetOrCreate(key, PK variant, create outcome ok|error (with the SHAPE OF THE ERROR VALUE, see below), expirable only: Born = 0 or a run of 1..4, iface only: kind of the created value) / Remove(key, PK variant) / "
         "Clear / mark-a-resident-item-expired (expirable only)) followed by a fixed epilogue (capacity insertions of fresh keys, "
         "each of which must evict the then least recently used entry, then a final Clear and the created/deleted ledger balance). "
         "Capacities: 1-8 and 64, and - one rapid case in eleven (a third of them ending with a Clear, a quarter without delete callback) plus three exhaustive cells - a capacity from {math.MaxInt, math.MaxInt-1, 2^40, 2^31, 2^16}, "
         "the spellings of 'unbounded': no case can fill such a cache, so the reference never evicts, hits/Remove/Clear/callbacks are as for any capacity, and the epilogue makes 4 insertions (none may evict) instead of capacity many; "
         "nothing in the harness allocates, loops or adds by capacity. Interface-typed values (shape iface): for the cache a value is a value - a creation that succeeds with a nil value is inserted, returned by later hits "
         "without a create call (same kind of nil), counted by Remove/Clear, evicted in its turn and passed to the delete callback exactly once with that nil value (a nil value carries no id: the callback's "
         "(key, nil) is charged to the latest nil creation for the key, of which at most one is resident); two rapid creations in five are nil (nil interface : typed nil pointer = 3 : 1), "
         "the exhaustive alphabet of the iface cells has both per key. "
         "Exhaustive over the full alphabet for the cells listed in exhaustive_parts (2 keys x capacity 1-2 for every shape, 3-4 keys x "
         "capacity 2-3 for Cache, 2 keys x capacity 1-2 and MaxInt for iface, 2 keys x capacity MaxInt / MaxInt-1 for Cache) to the depth given there plus the constructor refusals (maxSize<1 down to math.MinInt, nil create function also with maxSize MaxInt); rapid lists "
         "of up to 80 (thorough 160) calls, 2-6 keys for capacities 1-4, longer lists for capacities 5-8 and 64. "
         "non-trivial = an eviction took an entry that was not the oldest-created resident (a hit changed which entry is evicted "
         "later), or a failed creation happened between two hits, or a successful insertion followed a Clear that removed something; "
         "distinct = FNV hash of (shape, capacity, keys, flags, op list). Items that are born expired (expirable shape): a GetOrCreate with Born = n > 0 (one call in four, "
         "also nested ones; exhaustive: two extra cells of 2 keys x capacity 1-2 whose alphabet also has Born 1 and Born 3 per key) makes the next n successful creations FOR ITS KEY return an item whose expiry has already passed; the run belongs to the key and "
         "is consumed by this call and by the later calls that create for the key, so histories hold runs of 1..4 consecutive stale creations for one key, inside one call and across calls. "
         "Reference, compared exactly per call (number and argument of the create calls, delete callbacks, returned value): a miss whose creation is born expired inserts it (evicting the least "
         "recently used entry if full), removes it again (one delete callback for it) and calls create exactly once more; a stale resident is removed (one callback) and created once; in both "
         "cases what the one replacement creation returns is returned and resident as it is, stale or not - never a third create call or a second callback for the key in one call; a later "
         "GetOrCreate finds it stale and replaces it once again. A failing create outcome applies to every create call of the op (so a born-expired item is never followed by a failed replacement). "
         "Shapes of the error value (Op.Err, rapid part, also nested creations; p_lru/errkinds.go): a failing create function returns a drawn one of: plain fmt.Errorf value; error wrapping another (%w); an error class of golibs/errors (os.ErrNotExist ... ErrInternal), bare or wrapped; "
         "a TYPED NIL POINTER of a custom error type (var e *T; return v, e - the interface value is != nil, so the creation has failed); a value of a zero-size struct type; a value whose Error method panics when called (the unchanged cache never calls it: it decides on err != nil alone); "
         "context.Canceled / DeadlineExceeded; a value of a slice type (not comparable: == on two of them would panic); a non-nil pointer of the custom type; errors.Join of two. For each: a failed creation is one whose error result is != nil as Go defines it; GetOrCreate must return that very error "
         "(errors.Is, for the slice type errors.As plus identity of the backing array; Error() is never called by the harness either) together with no insertion, no eviction, no delete callback (lru:fail-callbacks), and the next GetOrCreate of the key must call create again (the reference keeps the key absent); "
         "the failing create function returns -1 / nil as value. Classes failed_creation_error_<shape>. The exhaustive part uses the plain shape. "
         "Excluded: the residency of a stale item after a failed re-creation (not determined by the "
         "documentation; followed, not asserted); concurrency (C09). GetOrCreate may carry a re-entrant create function: a nested program of at most 2 calls (GetOrCreate, Remove, rarely Clear; at most 2 levels deep) on other keys of the same cache, run by the create function before its own outcome (never on a key in flight: the single-flight table would make the call wait for itself); reference: the nested calls are ordinary calls at that moment, then the outer value is inserted as most recently used with eviction of the then least recently used entry. The ecache shape also covers reference-like PKs whose memory the caller recycles: the harness keeps two reusable []string key buffers and, in half of the ecache cases, makes two thirds of its GetOrCreate/Remove calls (also nested ones) through a buffer after overwriting its content with the call's key text, so PKs stored by earlier calls are mutated behind the cache; residency, hits, eviction order and capacity must follow the inner key as computed at call time.",
    assumptions=["a creation that returns (nil value, nil error) is a successful creation in the sense of the statement ('a miss calls the create function once and, on success, inserts the value'): CreatePoolElemF is "
                 "func(K) (V, error), the code and the comments decide on the error alone and say nothing that would single out a value; the same for the delete callback ('for every entry that leaves the cache')",
                 "a creation has failed exactly when the create function's error result is != nil in Go's sense; that includes a nil pointer of a concrete error type stored in the error interface (the caller of GetOrCreate receives it as a non-nil error, "
                 "so for the caller the creation failed and 'a failed creation changes nothing' applies); the cache is given no licence to inspect the error value",
                 "every maxSize >= 1 is a legal capacity (NewECache refuses only maxSize < 1); math.MaxInt is how callers spell 'no limit'",
                 "reference LRU written from the C08 statement and the comments of ecache.go / expirable.go; residency is probed only "
                 "through return values, create-call counts and delete callbacks",
                 "ECache: the PK handed to the delete callback is the one stored at creation, a hit through another PK with the same inner "
                 "key returns the stored value without calling create (ecache.go stores pair{pk,v})",
                 "ExpirableCache: a stale item is only replaced when GetOrCreate touches it; until then it is an ordinary resident for "
                 "Remove/Clear/eviction order; expiry is a harness-controlled fact (GetExpiresAt returns year 1 or year 9000), no clock decision",
                 "ExpirableCache, items that are already expired when the create function returns them: the type comment promises that the wrapper 'checks if value reached expires at timestamp and "
                 "re-adds it to the cache by calling the createNewF' (one re-add by one create call, after the C08 statement's one delete callback for the entry that leaves by expiry replacement); "
                 "that holds for a value the cache has just created as for a resident one (documented). The comment is silent on whether the replacement is looked at again in the same call: "
                 "there the unchanged code is the reference (expirable.go: Remove, then 'call get or create again' on the embedded cache, result returned unchecked - at most two create calls and "
                 "one replacement callback per call, the stale replacement is dealt with by the next call)",
                 "the order of the delete callbacks inside one Clear is not asserted (undocumented)"],
    units=[
        dict(name="exhaustive", run="^TestC08Exhaustive$", shards=(4, 16), timeout=(120, 900)),
        dict(name="rapid", run="^TestC08Rapid$", checks=(25000, 250000), shards=(4, 16), timeout=(120, 900)),
    ],
)

LEVEL_TEXT["C08"] = (
    "Generated-input search with an exact oracle: every call sequence over the complete op alphabet (keys x create outcome x PK "
    "variant x born-expired run, Remove, Clear, expire) up to the depth bound for the small cells listed in the evidence, plus hundreds of thousands of "
    "random sequences for capacities 1-8, 64 and 'unbounded' (up to math.MaxInt) on all four cache shapes - one of them with an interface-typed value and creations that return nil -, are compared call by call (return value, error identity, "
    "create calls and their argument, exact delete callbacks) with a reference LRU, the recency order is read back through "
    "evictions at the end of every case and the created/deleted ledger is balanced after a final Clear. No counterexample among the "
    "cases counted in the evidence; not a proof for longer sequences or larger key sets."
)
