PROPS["C15"] = dict(
    pkg="p_xbinary", hooks=[], level="exploration", design="DESIGN.md §4 C15",
    technique="round-trip + size-law PBT (rapid), exhaustive 8/16-bit and boundary enumeration, bounded-exhaustive "
              "concatenations, native go fuzz over a (kind, value, length) data-provider layer in the thorough tier",
    rule="case = list of 1..20 items (byte, uint16, uint32, uint64, variable-length uint, byte string, string; newBuf flag per "
         "byte string). Every item: Marshal == Writable*Size (1/2/4/8 for the fixed kinds), Marshal into EVERY destination "
         "length 0..size+1 (shorter -> (0, error) and no panic, otherwise n == size and the same bytes) - both with "
         "destinations whose len == cap and with windows big[8:8+d] of a larger array (len < cap: canary data in front, "
         "spare capacity behind), where additionally no byte outside dst[:n] (outside dst[:len(dst)] when the call fails) may "
         "change (sizes > 2048: windows of the lengths 0..64, size-64..size+1 and every (size/64)-th in between); "
         "guard-page placement of the destination: the same calls into a destination of d bytes (len == cap) that ENDS at the "
         "last byte in front of an inaccessible page and into one that BEGINS at the first byte behind one (one anonymous "
         "mapping per process, 16 MiB between two PROT_NONE pages, linux/amd64+arm64; d = 0..size+1, sizes > 64: 0..32 and "
         "size-16..size+1; items above 16 MiB: class guard_pages_item_too_big_heap_only), run with debug.SetPanicOnFault: the "
         "callee may write dst[n:len(dst)], an access outside dst[:len(dst)] is a memory fault = signature "
         "out-of-bounds-access:Marshal even if no byte ends up different; results obey the same law as on the heap (counted in "
         "marshal_calls_into_destinations_next_to_an_inaccessible_page, class guard_pages_around_marshal_destination; without "
         "the arena: class guard_pages_unavailable and an inconclusive note); "
         "ObjectsWriter into a bytes.Buffer gives the same bytes and count, and so it does into the other sink kinds: a sink that "
         "is an io.Writer and nothing else, and a *bufio.Writer of 16 bytes over such a sink that already holds f bytes written "
         "by the harness, for EVERY f = 0..16 (all amounts of free space, none included; values above 64 KiB: f = 0, 1, 15, 16) - "
         "after Flush the sink holds the f bytes followed by exactly the Marshal encoding (counted in "
         "sink_kind_and_fill_level_writes_checked); Unmarshal returns (size, value, nil) from a source "
         "with cap == len and from one with spare capacity; newBuf=true: the result's backing array res[:cap(res)] (any "
         "length, 0 included; strings: the non-empty data) does not overlap the source's memory, appending to the decoded "
         "byte string leaves the source unchanged, and the value survives flipping the source; a []byte returned with "
         "newBuf=true is then OVERWRITTEN IN PLACE by the harness as its owner may (every byte of res[:cap(res)] flipped) and a "
         "fresh copy of the same encoding is decoded again with newBuf=true and newBuf=false: same (size, value, nil) "
         "(signature newbuf-result-not-owned, counted in newBuf_results_overwritten_in_place; all later cases of the test process, strings included, decode "
         "after these overwrites); newBuf=false: a non-empty "
         "result starts at source[prefix]; the whole list written back to back (Marshal - alternately into the rest of the "
         "buffer and into a window of exactly the needed length - and one ObjectsWriter agree) is decoded item by item, "
         "consumes everything, decodes again after every newBuf=true value was appended to, and once more (all items with "
         "newBuf=true) after every []byte that was returned with newBuf=true was overwritten in place. Enumerated: all 256 bytes, all "
         "65536 uint16, for uint32/uint64/varint every bit length 0..64 (min, max, one mixed value) and every 2^(7k), 2^(8k) "
         "-2..+2, all byte strings/strings of length 0..3 over {00,'a',ff}, every length 0..260, 2^14-4..2^14+4, 2^21-1, 2^21 "
         "(thorough 2^21-3..2^21+2), all lists of length 2 (thorough 3) over 26 representative items; rapid: the same value "
         "classes drawn at random plus random 64-bit values and random content (text, arbitrary and hostile bytes, i.e. "
         "invalid UTF-8). Byte strings with random content of >= 2^28 bytes are not generated (256 MB per value and copy); the "
         "lengths beyond are covered by the third case type. "
         "Huge bodies (third case type, unit huge_bodies): a value of L ZERO bytes, as []byte and as string, L = 2^21, 2^28 "
         "(4/5-byte prefix), 2^29, 2^30, 2^31, 2^32 each -2..+2, 2^30+2^20+5, 3*2^30+7, 2^32+2^30+1 in BOTH tiers (thorough also "
         "2^33 -2..+2, 2^31+12345, 5*2^30+2^16+3, 2^33+2^32+9); "
         "the value is a window of one arena of zeroed memory whose pages are never written (an anonymous MAP_NORESERVE "
         "mapping without transparent huge pages; a fresh Go allocation if that cannot be had) and the sink only counts (it keeps "
         "the first 16 bytes of the stream), so the unit needs address space, not resident memory or time (peak in "
         "huge_bodies_peak_resident_kB) - which is why the 2 GiB and 4 GiB boundaries are part of the quick tier; oracle: predicted size - L is 1..10, Marshal into every destination of 0..prefix+6 "
         "bytes -> (0, error), ObjectsWriter returns (predicted size, nil) and the sink received exactly that many bytes, the "
         "bytes after the prefix are zero, and the emitted prefix put in front of the arena's zero bytes decodes (newBuf=false) "
         "to (size, L bytes starting at source[prefix], nil). Not done for these lengths: Marshal into a full-size destination "
         "and newBuf=true (both copy the body). "
         "Huge streams (fourth case type, units huge_streams_exhaustive / huge_streams): 2..8 items - numbers of every kind and "
         "byte strings / strings of L zero bytes, L up to 2^33+2^17, at most three of 2^28 bytes and more - written by ONE "
         "ObjectsWriter into a sink that counts and keeps the first 16 bytes of every item; the lengths of a stream are related: "
         "a later byte string has the length of an EARLIER one of the same stream + or - k*2^m, m = 8, 16, 31, 32 (the same low "
         "bits, e.g. 3 bytes ... 2^32+3 bytes, in either order, with or without other items between them), or the same length again, "
         "or lengths at the 2^7k / 2^16 / 2^31 / 2^32 boundaries, small ones, anything up to 2^33. Oracle: every write returns "
         "(predicted size, nil) and hands the sink exactly that many bytes; an encoding of up to 64 KiB starts with the same 16 "
         "bytes as the Marshal encoding, a larger one is rejected by Marshal for every destination of 0..prefix+6 bytes and is a "
         "prefix of 1..10 bytes followed by zero bytes; then the whole stream is laid out IN PLACE in the arena (what the writer "
         "emitted for each item is put at the offset where it belongs - the zero bytes between are the bodies; the touched pages "
         "are given back after the case) and decoded item by item with newBuf=false: (size, value, nil), a byte string of L bytes "
         "starting at its place in the stream, everything consumed - so values of 2 GiB / 4 GiB and more are also decoded behind "
         "other items of a concatenation of up to 24 GiB. Exhaustive: first = b bytes (b = 0, 1, 3, 127, 128, 300; thorough 12 values up to "
         "2^21+1), second = b + k*2^m bytes (m = 8, 16, 31, 32; k = 1, thorough 1..2), the four kind pairs []byte/string, both "
         "orders, as `first, spacer, second` and `first, spacer, second, spacer, first` with spacer = nothing / uint16 / varint / a "
         "2-byte string / byte + 77-byte string + uint64, plus the streams 2^p-1, 2^p, 2^p+1 (p = 31, 32); rapid: 3 in 8 byte "
         "strings derived from an earlier length as above (classes huge_stream_length_congruent_mod_2^N_to_an_earlier_length, "
         "huge_stream_congruent_lengths_with_items_between, huge_stream_value_ge_2GiB_decoded_behind_other_items). "
         "Writer histories (second case type): 1 goroutine (writers units) or 2..4 goroutines at the same time (writers_concurrent, "
         "-race in the thorough tier, a quarter of the cases with GOMAXPROCS(1)), each with ONE ObjectsWriter value whose exported "
         "Writer field is re-pointed before every item to one of 1..4 destinations of its own: bytes.Buffer (io.StringWriter), a "
         "plain io.Writer, a framing writer whose Write sends p as one length-prefixed frame through a second ObjectsWriter, a "
         "writer that yields the processor inside Write, (rapid) a quota sink - see below - and (a third of the drawn destinations) a *bufio.Writer of 1..24, "
         "25..300 or 4096 bytes over an io.Writer-only sink into which the harness has already written 0..size bytes (4096: "
         "0..24 bytes left free), so that the items meet whatever free space the history leaves (classes "
         "writers_bufio_item_met_lt_10_free_bytes / _0_free_bytes); ObjectsWriter.Writer is the *bufio.Writer itself and the "
         "sink is compared after Flush; oracle: every write returns (size, nil) and every destination received "
         "exactly the concatenation of the Marshal encodings of the items directed to it (frame bodies for the framing writer); "
         "exhaustive over all lists of <= 3 (thorough 4) steps from 9 items x 4 destinations and over all lists of 1..2 of the 9 "
         "items into one bufio.Writer of 1, 2, 3, 4, 7, 10, 11, 16, 32 bytes pre-filled to every level 0..size (4096 bytes: "
         "4084..4096), rapid lists of 1..12 steps. "
         "Copies of a writer (same case type; ObjectsWriter is a plain struct, see assumptions): with Copy set a base writer first "
         "writes the items Pre (0..3) into a bytes.Buffer - same oracle - and every writer of the history, the one of each "
         "goroutine and the inner one of each framing destination, starts as `w := base` (a by-value copy of that used, or "
         "with no Pre unused, writer) instead of a zero value; a step with Fork set first gives every framing destination of "
         "the goroutine a by-value copy of the goroutine's writer as it is at that moment as its inner writer. The copies are so "
         "used interleaved (the framing sink encodes its frame header with its copy while the outer copy is inside "
         "Writer.Write) and by 2..4 goroutines at once on separate sinks (yielding sinks, GOMAXPROCS(1) included); oracle "
         "unchanged. Exhaustive: all lists of 1..2 steps from the 36-step alphabet with Copy and Pre = none / a number / a string, "
         "and all lists of 2 (thorough 2..3) steps with Fork on a step after the first; rapid: a third of the histories have "
         "Copy (Pre 0..3 items), a tenth of the steps Fork (classes writers_are_copies_of_a_used_writer, "
         "writers_copies_of_a_used_writer_nested_in_framing_sink / _on_ge_2_goroutines, "
         "writers_framing_sink_given_copy_of_used_outer_writer). "
         "Sinks that are out of order for a while (same case type): a step with Fail set meets a sink that takes Room % size more "
         "bytes (size = the item's encoding, so a Write of the step always fails) and answers the Write that does not fit with "
         "(what fitted, error): n == 0 with an error, or a partial write 0 < n < len(p) with an error, as io.Writer allows (torn "
         "prefix, complete prefix and (0, error) for the body, torn body, torn fixed-width number). A destination of the new kind "
         "`quota` (io.Writer only) does that itself and works again when the step is over - the SAME Writer value recovers; for "
         "every other destination kind the Writer field points to a failing writer during the step and is re-pointed to the "
         "healthy destination by the next step. NOT judged: what ObjectsWriter returns for the failing step and what the torn "
         "item left in the sink (the property says nothing about a failing Writer; the harness's sink drops the torn bytes, as "
         "an owner who repairs the stream does). Judged as ever - (size, nil) and exactly the Marshal bytes in the destination - "
         "is every step made while the sink is healthy, before and AFTER failures: the writer's result for an item does not "
         "depend on what happened to earlier items. With PreFail the last item of the base writer (Copy) met such a sink, so "
         "all writers of the history are copies of a writer whose last call failed. Exhaustive: [nothing | an item | another "
         "failing step], one failing step for each of the 9 items x every Room 0..size-1 (sizes above 12: 0..4, size-2, size-1), "
         "then each of the 9 items as the first judged write to the same or to another destination and one more item, over the "
         "destinations quota / bytes.Buffer / framing / bufio(7, 3 filled), and the same as copies of a failed base writer; rapid: "
         "half of the histories have failing steps (one step in eight, one in two directly after a failing step; Room 0, 1..11, "
         "0..2100), a third of their Copy histories a failed base writer (classes writers_sink_failed_with_n_0, "
         "writers_sink_partial_write_with_error, writers_sink_failed_ge_2_steps_in_a_row, "
         "writers_item_judged_on_recovered_sink_same_Writer_value, writers_item_judged_after_Writer_repointed_from_failed_sink, "
         "writers_are_copies_of_a_writer_whose_last_call_failed). "
         "Not generated: ONE ObjectsWriter value used by two goroutines "
         "or re-entered from its own sink (the scratch array is per value), sinks that write short WITHOUT an error (io.Writer demands an error "
         "for a short write), a *bufio.Writer over a failing sink (bufio keeps the error for good: such a Writer never recovers). "
         "non-trivial = some varint value or byte-string length is within 2 of 2^(7k) (or the varint is >= 2^64-3), or a "
         "fixed-width value is within 2 of 2^(8k) or of the top of its range; rejected short destinations are exercised by "
         "every case and counted in short_destination_rejections_checked; a writer history is non-trivial when the Writer field "
         "changed between two items, or a destination is not a bytes.Buffer, or more than one goroutine wrote, or a writer is a copy of a used writer, or an item was judged after a sink failure; a huge body is "
         "non-trivial when its length is within 2 of 2^(7k) or above 2^30; a huge stream when it has a value above 2^30 bytes or two "
         "byte strings whose different lengths agree in their low 16, 31 or 32 bits; "
         "distinct = FNV hash of the case's JSON form",
    assumptions=["uint is 64 bits wide on the platform of the run (values up to 2^64-1 are given to MarshalUint)",
                 "nothing is asserted about the byte format itself (only round trip, sizes, agreement of the two writers)",
                 "newBuf=false 'aliases the input' is read as: a non-empty result starts at source[prefix length]; empty results carry no aliasing claim",
                 "'independent of the source buffer' (newBuf=true) is read on the backing array: the decoded slice, up to its capacity, shares no memory with the source (a zero-capacity result is fine)",
                 "Marshal 'returns number of bytes written': on success nothing outside dst[:n] is written, on failure nothing outside dst[:len(dst)]",
                 "a []byte returned by UnmarshalBytes with newBuf=true ('decoded data is independent') belongs to the caller, who may write every byte of it up to its capacity; later decodes of the same or of other inputs are not affected by that (a decoded string is never written)",
                 "ObjectsWriter may be copied by value, also after it was used: it is an exported struct of an exported io.Writer field and a scratch array, nothing in the package says 'must not be copied' (as bytes.Buffer / strings.Builder / sync types do), go vet's copylocks has nothing to report and the package's own tests use it as a value; each copy is an independent writer ('ObjectsWriter and Marshal emit identical bytes' holds for each), one VALUE is used by one goroutine at a time",
                 "a *bufio.Writer is an ordinary io.Writer for ObjectsWriter: what reaches the underlying sink after Flush is what ObjectsWriter was asked to write, whatever free space the buffer had",
                 "huge_bodies / huge_streams: an anonymous private MAP_NORESERVE mapping (or, failing that, a fresh Go allocation) of up to 27 GiB is zeroed address space that the operating system backs lazily (Linux, 64-bit); the units read at most 64 KiB at the start of it and write at most 16 bytes per item, on pages they give back (MADV_DONTNEED) after the case; where that address space cannot be had (mapping refused and more than 6 GiB needed) the case is not decided and listed as inconclusive, never reported as a violation",
                 "a value that follows other values on the same ObjectsWriter is 'a value' like any other: the writer's result for an item does not depend on the items it has written before (C15 speaks of every value and of any concatenation)",
                 "the same holds after a call during which the Writer failed: C15 leaves the failing call itself open (its result and the torn bytes are not judged), but a later item written while the Writer is healthy - because the sink recovered or because the exported Writer field was pointed to another sink - is an ordinary write whose count is the predicted size and whose bytes are the Marshal encoding; nothing in the package documents a sticky error state"],
    units=[
        dict(name="exhaustive", run="^TestC15Exhaustive$", shards=(2, 8), timeout=(200, 600)),
        dict(name="rapid", run="^TestC15Rapid$", checks=(4000, 60000), shards=(8, 16), timeout=(200, 900)),
        dict(name="writers_exhaustive", run="^TestC15WritersExhaustive$", shards=(1, 4), timeout=(200, 600)),
        dict(name="writers", run="^TestC15RapidWriters$", checks=(10000, 200000), shards=(2, 8), timeout=(200, 600)),
        dict(name="writers_concurrent", run="^TestC15RapidWritersConcurrent$", checks=(5000, 40000), shards=(2, 8), timeout=(200, 900),
             race=(False, True)),
        dict(name="liveness_exhaustive", run="^TestC15LivenessExhaustive$", shards=1, timeout=(200, 400)),
        dict(name="liveness", run="^TestC15RapidLiveness$", checks=(3000, 40000), shards=(1, 4), timeout=(200, 600)),
        dict(name="huge_bodies", run="^TestC15HugeBodies$", shards=1, timeout=(200, 400)),
        dict(name="huge_streams_exhaustive", run="^TestC15HugeSeqExhaustive$", shards=(1, 2), timeout=(200, 400)),
        dict(name="huge_streams", run="^TestC15RapidHugeSeq$", checks=(3000, 50000), shards=(1, 4), timeout=(200, 600)),
        dict(name="fuzz", run="^FuzzC15$", fuzz=(None, "^FuzzC15$"), enabled=(False, True), serial=True, shards=1, timeout=(200, 400),
             args=([], ["-test.fuzz=^FuzzC15$", "-test.fuzztime=75s", "-test.fuzzcachedir={rundir}/fuzzcache", "-test.parallel=16"]),
             env={"VERIF_STATS_PERPID": "1"}),
    ],
)

LEVEL_TEXT["C15"] = (
    "Generated-input search with an exact oracle: the complete 8- and 16-bit domains, every bit length and every 7-bit / "
    "8-bit boundary with its neighbours for the wider kinds, every byte-string length across the 1/2-byte prefix boundary "
    "and around the 2/3- and 3/4-byte ones, plus tens of thousands of random mixed item lists are encoded by both writers "
    "into every destination length from 0 to size+1 and decoded again, alone and concatenated. No counterexample among the "
    "cases counted in the evidence; not a proof for the 64-bit values and contents that were not drawn. The stream writer is "
    "also driven into io.Writer-only sinks and into bufio.Writers at every fill level; byte strings of 256 MB up to more "
    "than 4 GiB (thorough: 12 GiB; 5-byte prefix) are exercised with zero content only, through a counting sink and "
    "an in-place decode, alone and as items of one writer's stream behind values whose lengths agree with theirs in the low "
    "8 / 16 / 31 / 32 bits - Marshal into a full-size destination and newBuf=true are not exercised at those lengths."
)
