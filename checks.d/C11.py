PROPS["C11"] = dict(
    pkg="p_map", hooks=["iterable"], level="exploration", design="DESIGN.md §4 C11",
    technique="structural-invariant PBT: the internal list of the ordered map / of the cache's recency list is walked through an overlay accessor after every generated step (node count, reference counts, deleted nodes), over C10's and C08's generators plus long cache histories; "
              "plus a reachability oracle that never looks inside: keys and values are pointers to harness-owned heap objects, removed ones are held through weak pointers only, and after forced garbage collections all but a constant number of them must be gone while the container is alive",
    rule="map part: C10's cases (canonical exhaustive lists for (2 keys, 2 iterators) and (3 keys, 3 iterators) to the depths in exhaustive_parts, plus rapid "
         "lists with 2..300 (one case in 40, thorough 80: 1500..5000) keys, up to 24 open iterators and bulk ops that Run expands into single calls; the op 'remat' = Remove of the entry open iterator #i would return next, "
         "i.e. the entry it is parked on, so that removal under a parked iterator is as likely on hundreds of entries as on three; one case in 6 (2..300 keys) is a list of 1..4 GROWTH-THEN-SHRINK PHASES: add a drawn key range (a few ... the whole alphabet), "
         "open 1..3 (or up to the case's bound) iterators and advance each a drawn distance, remat under some of them, 1..3 range removals of drawn extent (down to a few entries, to half, to nothing) while the iterators stay parked, "
         "close all (three phases in four; otherwise they stay for the next phase), use the map again; 0..3 ops of the general generator between the stages). VerifWalk must show: list well linked and ending "
         "in the sentinel, every live node indexed by the key table and the key table no bigger than the live nodes, nodes == Len()+1+deleted, deleted <= open iterators, refSum == open iterators, nodes-1-deleted == live entries of the history (model), and with no iterator open nodes == Len()+1 and "
         "deleted == 0. The walk is O(nodes): on a small map (<= 8 keys and <= 8 open iterators) it follows every single call; on a bigger one it follows "
         "every max(16, live/4)-th single call, every op of the list (beyond 1024 keys: every bulk op; a bulk op stands for up to Keys calls, a churn up to 9*Keys), every "
         "final Close and the end of the case. The functional oracle of C10 (Len, Get, iteration against the model) is consulted before the walk; when it disagrees the verdict on that is C10's, but the structure is still judged: "
         "walk at the point of the divergence, after the Close of every iterator still open, and at quiescence (POST-MORTEM; class map_structure_evaluated_after_functional_divergence) - a structural violation found there is reported, otherwise the case "
         "is cut short as before. Classes drained_* count the Removes that left <= 1/4 of a peak >= 16 (>= 100) live with 1 / 2-3 / >= 4 iterators parked on removed entries, all_iterators_closed_after_drain_* the quiescent points reached after them. non-trivial = an "
         "iterator was closed on, or advanced off, an entry that was removed while it was parked there. "
         "LRU part: the C08 case generator (all four cache shapes - also the one with an interface-typed value and creations that return nil -, capacities 1-8, 64 and the 'unbounded' ones up to math.MaxInt, for which the checkpoint bound is computed without overflow) plus long histories = a drawn pattern of up to 61 calls heavy on "
         "Clear/Remove/re-insert, repeated with a rotating key shift to 10^3..10^5 calls (quick at most 2*10^4), capacities 1..8, including re-entrant create functions (nested calls on other keys, as in C08) and caller-recycled PK buffers in the ecache shape; after construction, after "
         "every call and after every epilogue call VerifWalk must report: list well formed, refSum==0, deleted==0, nodes==resident+1, resident<=capacity, "
         "in-flight table empty; at every 1000th call nodes<=capacity+1 (independent of the history length). non-trivial = a Clear of a non-empty cache "
         "followed by an insertion and an eviction. A disagreement of the functional oracle is left to C10/C08; the case continues on structure only. "
         "LRU part under concurrency (unit lru-conc, p_lru/conc.go): C09's squeezed mode - 3..5 workers on 1..3 keys, capacity mostly 1-2 (or unbounded), creations parked on harness gates, decision lists on the real clock, and SQUEEZES: the harness takes the cache's own "
         "mutex (overlay accessor VerifWithLock), completes a parked creation other callers wait for and fires 1..3 overtakers behind it (the insertion of another parked creation, which evicts; Remove; Clear; GetOrCreate), so that the mutex, handed over in arrival "
         "order, serves creator, overtakers and only then the woken waiters - judged on structure only: at every quiescent point (every busy worker parked in its create function, returned, or waiting for a parked creation) VerifWalk must report "
         "resident <= capacity, nodes == resident+1, refSum == 0, deleted == 0, list well formed, in-flight table == creations parked; the same after every call has returned, and nothing resident after the final Clear. Functional disagreements (ledger, linearizability) "
         "are C09's business: the case is abandoned (class abandoned_functional_divergence). non-trivial there = a squeeze on a creation with waiters. "
         "Reachability part (units map-reach, lru-reach; p_map/reach.go, no hook): case = (container kind, slots, capacity, op list). Kinds: iterable.Map[*Obj,*Obj], iterable.Map[struct key holding a pointer, struct value holding a pointer], "
         "lru.Cache[*Obj,*Obj], lru.ECache[*Obj PK, comparable struct inner key holding a pointer, *Obj], lru.ExpirableCache[*Obj,*Obj]; slots from {8,64,200,1000,4000}, one case in 12 20000 (thorough: or 100000); cache capacity from "
         "{slots, 2*slots, slots/2, slots/10}, one cache case in ten from {math.MaxInt, math.MaxInt-1, 2^40, 2^31, 2^16} (a cache that never evicts: entries leave by Remove / Clear / expiry replacement only; same bounds). Ops (slot ranges modulo slots, every list executable): add = insert a FRESH key/value/PK object for every absent slot of a range; thin = remove the present slots of a range except every stride-th "
         "(stride from {0=none survives,2,3,7,16,50,63,64,65,100,128,257,1000} or anything up to slots, any offset, either direction); touch = cache hit (unlink+relink) / map Remove+Add; clear = Clear() of the cache / the same iterator-and-Remove loop on the map; "
         "expire (expirable kind: the next touch replaces the entry); maps: open 1..24 (mostly 1..3 or 1..8) iterators spaced over the map, advance all, close all; gc = measurement point; take / put = remove the first 1..64 present / insert into the first 1..64 absent slots "
         "found from a drawn position (a cache at capacity evicts for each put); flight (caches) = for each of the first N (1..3 or 9..64) absent slots: GetOrCreate(fresh key) runs on a second goroutine and is parked inside the create function, while it is "
         "in flight the first goroutine calls Remove(that key) or Clear() (drawn), then the creation is released and fails (all of them, or all but every 2nd / 3rd, which succeed and are live entries); one creation at a time, the second goroutine has ended "
         "before the op returns; the key/PK objects of a failed creation were never stored and count as objects of a removed entry from then on. Three cases in four (caches: four in five) begin with fill-all then thin (maps: optionally with parked iterators) or fill-all, clear, "
         "insert a few, or (caches) some residents then a flight op; then up to 8 drawn ops; then a drawn ending: nothing, or take 1..3 then put exactly 1, or put 1..3 then put exactly 1 (on a full cache: evictions, then exactly one more insertion), or take 1..64 - so "
         "that the container is left idle and measured right after 'removal(s) or eviction, exactly one more Add' and after 'removals only', with no collection in between (classes reach_measured_idle_after_...). "
         "Every case ends with: close the iterators, measure, insert 3 entries (re-use), measure. The harness holds a strong reference to an object only while its entry is live (caches: until the delete callback) and a weak.Pointer afterwards. "
         "Measurement: runtime.GC() until at most 8 + (open iterators) KEY objects and at most 0 + (open iterators) VALUE objects and PRIMARY-KEY objects of removed entries still resolve, deadline 10 collections (sync.Pool needs two); more than that after 10 collections = violation "
         "map:reach-retained / lru:reach-retained - unless the container, asked about up to 64 of the retained keys (Get / Remove), says one is present: then harness and container disagree about the live set, which is C10/C08's business, no verdict. "
         "The bounds do not depend on slots or on the history. non-trivial = a measurement with every iterator closed at <= 1/8 of a peak >= 256 entries. "
         "distinct = hash of the case",
    assumptions=["structural part: 'retains nothing' and 'cost does not grow' are decided through the number of list nodes reachable from the head (First() and eviction walk the list from "
                 "the head), not through timing or heap measurements",
                 "reachability part: 'keeps reachable' is decided by the garbage collector (weak pointers resolved after runtime.GC()), for keys/values/PKs that are or contain pointers; memory retained without such a pointer "
                 "(bare list nodes, integer keys) is not seen by it. The constant allowed beyond live and pinned entries is per role what the unchanged library needs: it was measured (about 30000 cases of all kinds, many seeds, counts left to settle over 4 collections; "
                 "re-measured with the take/put/flight ops and the drawn endings, 12 more seeds, about 44000 cases of both units at the quick and the thorough sizes) "
                 "at never more than 1 key (the stale key of the recycled node that serves as trailing sentinel until the next Add), 0 values, 0 PKs with every iterator closed, and open iterators + 1 keys, 0 values otherwise. "
                 "Keys: 8 = that plus a margin. Values and primary keys: 0 - the statement says 'no removed entry is retained', map.go wipes the value of a list node at the moment of the removal on every path (unlinked, pinned, recycled), "
                 "so no history leaves one behind, and a single value kept in a recycled node is exactly the kind of retention only this oracle can see; runtime effects are absorbed by the deadline of 10 collections, not by a count. "
                 "For the caches the statement allows 'capacity plus a constant': the constant is taken per role from the unchanged implementation as well (its recency list is that map)",
                 "reachability part, flight op: a key handed to GetOrCreate whose creation fails was never an entry; 'retains nothing beyond its residents' is read as covering it (the cache has no reason to keep it once the call has returned). Remove/Clear "
                 "overtaking a creation are ordinary calls of the documented API made from another goroutine; their return values and the residency of a creation that succeeds afterwards are C08/C09's business and not asserted here",
                 "reachability part: the objects are at least 56 bytes and hold a pointer (never tiny-allocated, so no two share a block); nothing else in the test process refers to them: ops run in functions that have returned before the measurement, "
                 "the case record is plain integers",
                 "invariants are read through the overlay accessors (*Map).VerifWalk and (*ECache).VerifWalk; if they do not compile the units report inconclusive; unit lru-conc also needs (*ECache).VerifWithLock (runs a harness function under the cache's mutex, changes nothing) and "
                 "orders critical sections through sync.Mutex's hand-over in arrival order (starvation mode, waiters older than 1 ms): a strong tendency, not a guarantee - a missed squeeze can hide a defect, never invent one; the structural invariants are "
                 "evaluated under the cache's mutex at moments when no call is between its create function and its insertion"],
    units=[
        dict(name="map-exhaustive", pkg="p_map", hooks=["iterable"], run="^TestC11MapExhaustive$", shards=(8, 16), timeout=(200, 1500)),
        dict(name="map-rapid", pkg="p_map", hooks=["iterable"], run="^TestC11MapRapid$", checks=(20000, 200000), shards=(2, 16), timeout=(200, 1500)),
        dict(name="lru-rapid", pkg="p_lru", hooks=["iterable", "lru"], run="^TestC11LruRapid$", checks=(20000, 100000), shards=(2, 16), timeout=(200, 900), env={"GOMAXPROCS": "1"}),
        dict(name="lru-long", pkg="p_lru", hooks=["iterable", "lru"], run="^TestC11LruLong$", checks=(60, 400), shards=(4, 16), timeout=(200, 900), env={"GOMAXPROCS": "1"}),
        dict(name="lru-conc", pkg="p_lru", hooks=["iterable", "lru"], run="^TestC11LruConc$", checks=(200, 1200), shards=(4, 8), timeout=(200, 900), shrinktime="10s"),
        dict(name="map-reach", pkg="p_map", hooks=[], run="^TestC11ReachMap$", checks=(150, 700), shards=(4, 8), timeout=(200, 900), env={"GOMAXPROCS": "2"}, shrinktime="8s"),
        dict(name="lru-reach", pkg="p_map", hooks=[], run="^TestC11ReachLru$", checks=(150, 700), shards=(4, 8), timeout=(200, 900), env={"GOMAXPROCS": "2"}, shrinktime="8s"),
    ],
)

LEVEL_TEXT["C11"] = (
    "A leak of one list node per call is invisible to functional assertions, so the check counts nodes: after every step of generated map "
    "histories (exhaustive to a depth, random beyond) and of generated cache histories up to 10^5 calls, the internal list must hold exactly the "
    "live entries, the sentinel and the entries pinned by open iterators, with matching reference counts and a key index that holds exactly the live nodes (also in histories that grow to hundreds of entries and shrink to a few while iterators stay parked on removed entries; "
    "when the functional oracle disagrees first, the structure is still judged at that point and with every iterator closed), and for the cache the node count must "
    "not depend on the history length. What is kept outside that list (free lists, slabs, stale fields) is asked of the garbage collector: in generated histories whose peak is far above "
    "the final size (fill, thin out to evenly spread survivors, Clear and re-use; maps with parked iterators; all three caches) the keys/values/PKs of removed entries, held by the harness through "
    "weak pointers only, must be collected - all values and primary keys, all but 8 keys, plus the open iterators, whatever the size - while the container is alive; the histories also end right after a removal or eviction followed by exactly one insertion, "
    "and the caches also serve creations that are overtaken by Remove/Clear while in flight and then fail. Under concurrency (creations parked on gates, critical sections ordered through the cache's own mutex so that "
    "evictions, Remove and Clear land between a creator's publication and the wake-up of its waiters) the cache's resident count must stay within the capacity and its list must hold exactly the residents at every quiescent point. Evidence = cases, walks, long histories, measurements; not a proof for longer histories."
)
