PROPS["C11"] = dict(
    pkg="p_map", hooks=["iterable"], level="exploration", design="DESIGN.md §4 C11",
    technique="structural-invariant PBT: the internal list of the ordered map / of the cache's recency list is walked through an overlay accessor after every generated step (node count, reference counts, deleted nodes), over C10's and C08's generators plus long cache histories",
    rule="map part: C10's cases (canonical exhaustive lists for (2 keys, 2 iterators) and (3 keys, 3 iterators) to the depths in exhaustive_parts, plus rapid "
         "lists with 2..300 (one case in 40, thorough 80: 1500..5000) keys, up to 24 open iterators and bulk ops that Run expands into single calls); VerifWalk must show: list well linked and ending "
         "in the sentinel, nodes == Len()+1+deleted, deleted <= open iterators, refSum == open iterators, and with no iterator open nodes == Len()+1 and "
         "deleted == 0. The walk is O(nodes): on a small map (<= 8 keys and <= 8 open iterators) it follows every single call; on a bigger one it follows "
         "every max(16, live/4)-th single call, every op of the list (beyond 1024 keys: every bulk op; a bulk op stands for up to Keys calls, a churn up to 9*Keys), every "
         "final Close and the end of the case. non-trivial = an "
         "iterator was closed on, or advanced off, an entry that was removed while it was parked there. "
         "LRU part: the C08 case generator (all three cache shapes, capacities 1-8 and 64) plus long histories = a drawn pattern of up to 61 calls heavy on "
         "Clear/Remove/re-insert, repeated with a rotating key shift to 10^3..10^5 calls (quick at most 2*10^4), capacities 1..8, including re-entrant create functions (nested calls on other keys, as in C08) and caller-recycled PK buffers in the ecache shape; after construction, after "
         "every call and after every epilogue call VerifWalk must report: list well formed, refSum==0, deleted==0, nodes==resident+1, resident<=capacity, "
         "in-flight table empty; at every 1000th call nodes<=capacity+1 (independent of the history length). non-trivial = a Clear of a non-empty cache "
         "followed by an insertion and an eviction. A disagreement of the functional oracle is left to C10/C08; the case continues on structure only. "
         "distinct = hash of the case",
    assumptions=["'retains nothing' and 'cost does not grow' are decided through the number of list nodes reachable from the head (First() and eviction walk the list from "
                 "the head), not through timing or heap measurements",
                 "invariants are read through the overlay accessors (*Map).VerifWalk and (*ECache).VerifWalk; if they do not compile the units report inconclusive"],
    units=[
        dict(name="map-exhaustive", pkg="p_map", hooks=["iterable"], run="^TestC11MapExhaustive$", shards=(8, 16), timeout=(200, 1500)),
        dict(name="map-rapid", pkg="p_map", hooks=["iterable"], run="^TestC11MapRapid$", checks=(20000, 200000), shards=(2, 16), timeout=(200, 1500)),
        dict(name="lru-rapid", pkg="p_lru", hooks=["iterable", "lru"], run="^TestC11LruRapid$", checks=(20000, 100000), shards=(2, 16), timeout=(200, 900)),
        dict(name="lru-long", pkg="p_lru", hooks=["iterable", "lru"], run="^TestC11LruLong$", checks=(60, 400), shards=(4, 16), timeout=(200, 900)),
    ],
)

LEVEL_TEXT["C11"] = (
    "A leak of one list node per call is invisible to functional assertions, so the check counts nodes: after every step of generated map "
    "histories (exhaustive to a depth, random beyond) and of generated cache histories up to 10^5 calls, the internal list must hold exactly the "
    "live entries, the sentinel and the entries pinned by open iterators, with matching reference counts, and for the cache the node count must "
    "not depend on the history length. Evidence = cases, walks, long histories; not a proof for longer histories."
)
