package container

// VerifRingSlots exposes the backing array and the indices of a ring buffer (read-only use).
// Overlay file of /verif (never part of the repository).
func VerifRingSlots[V any](rb RingBuffer[V]) (buf []V, r, w int, ok bool) {
	b, ok := rb.(*ringBuffer[V])
	if !ok {
		return nil, 0, 0, false
	}
	return b.buf, b.r, b.w, true
}
