package iterable

// VerifWalk walks the internal list from the head (read-only). Overlay file of /verif.
//   nodes   - number of list nodes reachable from head, including the trailing sentinel
//   deleted - nodes in state "deleted" (removed but pinned by an iterator)
//   refSum  - sum of the reference counts of all reachable nodes
//   sane    - the list is well linked (prev/next agree), ends in the sentinel which is Map.last,
//             no negative reference count, every live node is the one indexed by vals, and
//             the number of live nodes equals Len()
func (im *Map[K, V]) VerifWalk() (nodes, deleted, refSum int, sane bool) {
	sane = true
	if im.head == nil {
		return 0, 0, 0, false
	}
	if im.head.prev != nil {
		sane = false
	}
	live := 0
	limit := len(im.vals) + 1000000
	for p := im.head; p != nil; p = p.next {
		nodes++
		if nodes > limit {
			return nodes, deleted, refSum, false // cycle
		}
		refSum += p.refCnt
		if p.refCnt < 0 {
			sane = false
		}
		switch p.state {
		case rlDeleted:
			deleted++
		case rlOk:
			live++
			if q, ok := im.vals[p.key]; !ok || q != p {
				sane = false
			}
		case rlLast:
			if p.next != nil || p != im.last {
				sane = false
			}
		default:
			sane = false
		}
		if p.next != nil && p.next.prev != p {
			sane = false
		}
		if p.next == nil && p.state != rlLast {
			sane = false
		}
	}
	if live != len(im.vals) {
		sane = false
	}
	return
}
