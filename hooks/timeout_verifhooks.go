package timeout

import (
	"sync"
	"container/heap"
	"time"
)

// Overlay file of /verif: test-only access to the package's control block.

var (
	verifProtoOnce               sync.Once
	verifProtoCap, verifProtoMax int
)

// VerifReset installs a fresh control block. Its wake channel is created by the caller's
// goroutine, so a check that runs inside a testing/synctest bubble gets a channel of that bubble.
// Pending futures of the previous block are dropped (their workers exit by their own idle rule).
func VerifReset(maxWorkers int, idle time.Duration) {
	verifProtoOnce.Do(func() { verifProtoCap, verifProtoMax = cap(cc.wakeCh), cc.maxWorkers })
	n := new(callControl)
	n.futures = &futures{}
	n.maxWorkers = maxWorkers
	// the wake channel is dimensioned the way the package's own init() did it: one slot per worker there, or whatever
	// else it chose (the fresh block must not paper over what init() sets up)
	wcap := maxWorkers
	if verifProtoCap != verifProtoMax {
		wcap = verifProtoCap
	}
	n.wakeCh = make(chan bool, wcap)
	n.idleTimeout = idle
	heap.Init(n.futures)
	cc = n
}

// VerifDrain drops every pending future, makes idle workers leave quickly and pokes them.
func VerifDrain() {
	cc.lock.Lock()
	for _, fu := range *cc.futures {
		fu.idx = -1
		fu.f = nil
	}
	*cc.futures = (*cc.futures)[:0]
	cc.idleTimeout = time.Millisecond
	for i := 0; i < cc.maxWorkers; i++ {
		select {
		case cc.wakeCh <- true:
		default:
		}
	}
	cc.lock.Unlock()
}

// VerifSetIdle changes the idle timeout of the worker pool.
func VerifSetIdle(d time.Duration) {
	cc.lock.Lock()
	cc.idleTimeout = d
	cc.lock.Unlock()
}

// VerifWatchers returns the number of live pool goroutines as the package counts them.
func VerifWatchers() int {
	cc.lock.Lock()
	defer cc.lock.Unlock()
	return cc.watchers
}

// VerifPending returns the number of futures in the heap.
func VerifPending() int {
	cc.lock.Lock()
	defer cc.lock.Unlock()
	return cc.futures.Len()
}

// VerifHeapSane checks the heap-index invariant: every queued future knows its own position.
func VerifHeapSane() bool {
	cc.lock.Lock()
	defer cc.lock.Unlock()
	for i, fu := range *cc.futures {
		if fu == nil || fu.idx != i {
			return false
		}
		if i > 0 && cc.futures.Less(i, (i-1)/2) {
			return false // a future that is due before its parent: it would be started late
		}
	}
	return true
}

// VerifWithLock runs f while holding the package lock (schedule control for the checks, see internal/lockstep).
func VerifWithLock(f func()) {
	cc.lock.Lock()
	f()
	// starvation mode, see the in-memory storage's VerifWithLock
	cc.lock.Unlock()
	cc.lock.Lock()
	time.Sleep(time.Millisecond)
	cc.lock.Unlock()
}

// VerifFireTime returns the instant a future is queued for (and whether it is queued): the checks use it to construct
// futures whose fire instants are exactly equal under the real clock.
func VerifFireTime(f Future) (time.Time, bool) {
	fu, ok := f.(*future)
	if !ok {
		return time.Time{}, false
	}
	cc.lock.Lock()
	defer cc.lock.Unlock()
	return fu.fireT, fu.idx >= 0
}
