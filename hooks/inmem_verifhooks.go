package inmem

import (
	"time"

	"github.com/acquirecloud/golibs/kvs"
)

// VerifWaiterTable reports the size of the waiter table of an in-memory storage (read-only):
// number of entries and the sum of their waiter counts. Overlay file of /verif.
func VerifWaiterTable(st kvs.Storage) (entries, waiters int, ok bool) {
	s, ok := st.(*service)
	if !ok {
		return 0, 0, false
	}
	s.lock.Lock()
	defer s.lock.Unlock()
	for _, w := range s.verChange {
		entries++
		waiters += w.waiters
	}
	return entries, waiters, true
}

// VerifWithLock runs f while holding the storage's mutex (schedule control for the checks, see internal/lockstep).
func VerifWithLock(st kvs.Storage, f func()) bool {
	s, ok := st.(*service)
	if !ok {
		return false
	}
	s.lock.Lock()
	f()
	// Put the mutex into starvation mode: the goroutines that queued up during f have waited > 1 ms; the first one
	// wakes on this Unlock, finds the mutex taken again and flags starvation, after which every Unlock hands the
	// mutex (and the processor) directly to the next waiter in FIFO order.
	s.lock.Unlock()
	s.lock.Lock()
	time.Sleep(time.Millisecond)
	s.lock.Unlock()
	return true
}
