package inmem

import "github.com/acquirecloud/golibs/kvs"

// VerifWaiterTable reports the size of the waiter table of an in-memory storage (read-only):
// number of entries and the sum of their waiter counts. Overlay file of /verif.
func VerifWaiterTable(st kvs.Storage) (entries, waiters int, ok bool) {
	s, ok := st.(*service)
	if !ok {
		return 0, 0, false
	}
	s.lock.Lock()
	defer s.lock.Unlock()
	for _, w := range s.verChange {
		entries++
		waiters += w.waiters
	}
	return entries, waiters, true
}

// VerifWithLock runs f while holding the storage's mutex (schedule control for the checks, see internal/lockstep).
func VerifWithLock(st kvs.Storage, f func()) bool {
	s, ok := st.(*service)
	if !ok {
		return false
	}
	s.lock.Lock()
	defer s.lock.Unlock()
	f()
	return true
}
