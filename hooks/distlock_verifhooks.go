package dist

import "time"

// VerifSetLease sets the lease period used by providers created afterwards and returns the old one.
// Overlay file of /verif.
func VerifSetLease(d time.Duration) time.Duration {
	old := defaultLeaseTimeout
	defaultLeaseTimeout = d
	return old
}
