package lru

// VerifWalk reports the shape of the recency list under the cache lock (read-only).
// Overlay file of /verif; needs the iterable overlay as well.
func (p *ECache[PK, K, V]) VerifWalk() (nodes, deleted, refSum, resident, inflight int, sane bool) {
	p.lock.Lock()
	defer p.lock.Unlock()
	nodes, deleted, refSum, sane = p.items.VerifWalk()
	return nodes, deleted, refSum, p.items.Len(), len(p.inflight), sane
}
