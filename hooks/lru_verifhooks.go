package lru

import "time"

// VerifWalk reports the shape of the recency list under the cache lock (read-only).
// Overlay file of /verif; needs the iterable overlay as well.
func (p *ECache[PK, K, V]) VerifWalk() (nodes, deleted, refSum, resident, inflight int, sane bool) {
	p.lock.Lock()
	defer p.lock.Unlock()
	nodes, deleted, refSum, sane = p.items.VerifWalk()
	return nodes, deleted, refSum, p.items.Len(), len(p.inflight), sane
}

// VerifWithLock runs f while holding the cache's mutex (schedule control for the checks, see internal/lockstep): calls that
// are started while f runs queue up on the mutex in the order in which they arrive and get their critical sections in that
// order afterwards. Changes nothing in the cache.
func (p *ECache[PK, K, V]) VerifWithLock(f func()) {
	p.lock.Lock()
	f()
	// Put the mutex into starvation mode: the goroutines that queued up during f have waited > 1 ms; the first one
	// wakes on this Unlock, finds the mutex taken again and flags starvation, after which every Unlock hands the
	// mutex (and the processor) directly to the next waiter in FIFO order; a goroutine that arrives later queues at the tail.
	p.lock.Unlock()
	p.lock.Lock()
	time.Sleep(time.Millisecond)
	p.lock.Unlock()
}
