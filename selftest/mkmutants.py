#!/usr/bin/env python3
"""Generates selftest/mutants/<name>/{patch.diff,meta.json} from the table below (hand-written property-breaking
changes against the current /repo tree; each compiles; most pass the library's own tests)."""
import difflib, json, os, sys

VERIF = os.path.dirname(os.path.dirname(os.path.abspath(__file__)))
OUT = os.path.join(VERIF, "selftest", "mutants")
M = []


def m(name, prop, path, old, new, note):
    M.append((name, prop, path, old, new, note))


DL = "kvs/distlock/kvlock.go"
m("c01_trylock_error_is_success", "C01", DL,
  "\t}); err == nil {\n\t\ttn := atomic.LoadInt32(&l.tenure)\n\t\tl.future.Store(timeout.Call(func() { l.supportTimeout(ver, tn) }, l.dlp.leaseTTL/2))\n\t\treturn true\n\t}",
  "\t}); err == nil || !errors.Is(err, errors.ErrExist) {\n\t\ttn := atomic.LoadInt32(&l.tenure)\n\t\tl.future.Store(timeout.Call(func() { l.supportTimeout(ver, tn) }, l.dlp.leaseTTL/2))\n\t\treturn true\n\t}",
  "TryLock treats any storage error except ErrExist as success (needs a fault or a cancelled context on Create)")
m("c01_cancelled_attempt_deletes_record", "C01", DL,
  "\tatomic.StoreInt32(&l.lckCntr, 0)\n\tl.lockCh <- true\n\treturn err\n}",
  "\tif ctx.Err() != nil {\n\t\t_ = l.dlp.Storage.Delete(context.Background(), l.key)\n\t}\n\tatomic.StoreInt32(&l.lckCntr, 0)\n\tl.lockCh <- true\n\treturn err\n}",
  "a LockWithCtx whose context ends 'cleans up' the lock record - of whoever holds it")
m("c04_trylock_failure_keeps_token", "C04", DL,
  "\tatomic.StoreInt32(&l.lckCntr, 0)\n\tl.lockCh <- true\n\treturn false",
  "\tatomic.StoreInt32(&l.lckCntr, 0)\n\treturn false",
  "failed TryLock does not put the local token back: later attempts on the same Locker hang")
m("c04_storage_wait_ignores_ctx", "C04", DL,
  "\t\t\t_ = l.dlp.Storage.WaitForVersionChange(ctx, l.key, ver)",
  "\t\t\t_ = l.dlp.Storage.WaitForVersionChange(context.Background(), l.key, ver)",
  "cancellation is not seen while parked in the storage wait")
m("c05_renewal_not_rearmed_on_even", "C05", DL,
  "\tnewFuture := timeout.Call(func() { l.supportTimeout(r.Version, tn) }, l.dlp.leaseTTL/2)\n\tif !l.future.CompareAndSwap(future, newFuture) {\n\t\t// somebody",
  "\tnewFuture := timeout.Call(func() { l.supportTimeout(r.Version, tn) }, l.dlp.leaseTTL*2)\n\tif !l.future.CompareAndSwap(future, newFuture) {\n\t\t// somebody",
  "second and later renewals are armed at 2*lease instead of lease/2: the record lapses after ~1.5 leases of holding")
m("c05_unlock_does_not_cancel_timer", "C05", DL,
  "\tfuture := l.future.Load().(timeout.Future)\n\tfuture.Cancel()\n\terr := l.dlp.Storage.Delete",
  "\terr := l.dlp.Storage.Delete",
  "EQUIVALENT (control) since fix 503bfdb: Unlock leaves the renewal timer armed, but it has advanced the tenure counter, so the armed attempt returns without a storage call. (Before that fix: harmless with a successful Delete, a refresh of the released lock's record with a failing one - which is how defect 14 was noticed.)")
m("c05_renewal_uses_put", "C05", DL,
  "\tr, err := l.dlp.Storage.CasByVersion(context.Background(), kvs.Record{",
  "\tr, err := l.dlp.Storage.Put(context.Background(), kvs.Record{",
  "the renewal overwrites instead of compare-and-set: a renewal in flight while Unlock runs re-creates the record (needs Unlock racing a renewal)")
IM = "kvs/inmem/inmem.go"
m("c02_inmem_cas_checks_outside_lock", "C02", IM,
  "func (s *service) CasByVersion(ctx context.Context, record kvs.Record) (kvs.Record, error) {\n\ts.lock.Lock()\n\tdefer s.lock.Unlock()\n\tr, ok := s.recs[record.Key]",
  "func (s *service) CasByVersion(ctx context.Context, record kvs.Record) (kvs.Record, error) {\n\ts.lock.Lock()\n\tr, ok := s.recs[record.Key]\n\ts.lock.Unlock()\n\truntimeGosched()\n\ts.lock.Lock()\n\tdefer s.lock.Unlock()",
  "in-memory CAS reads the record, drops the lock, and takes it again before comparing/writing: two CAS against one version can both win")
m("c02_inmem_put_keeps_version", "C02", IM,
  "func (s *service) Put(ctx context.Context, record kvs.Record) (kvs.Record, error) {\n\ts.lock.Lock()\n\tdefer s.lock.Unlock()\n\trecord.Version = ulidutils.NewID()",
  "func (s *service) Put(ctx context.Context, record kvs.Record) (kvs.Record, error) {\n\ts.lock.Lock()\n\tdefer s.lock.Unlock()\n\tif old, ok := s.recs[record.Key]; ok && string(old.Value) == string(record.Value) {\n\t\trecord.Version = old.Version\n\t} else {\n\t\trecord.Version = ulidutils.NewID()\n\t}",
  "Put of an unchanged value keeps the old version")
RD = "kvs/redis/redis.go"
m("c03_redis_delete_missing_is_nil", "C03", RD,
  "\tif cnt == 0 {\n\t\treturn errors.ErrNotExist\n\t}\n\treturn nil",
  "\t_ = cnt\n\treturn nil",
  "redis Delete of a missing key reports nil")
m("c03_redis_listkeys_drops_last_char_keys", "C03", RD,
  "func key(rKey string) string {\n\tif len(rKey) > 5 {",
  "func key(rKey string) string {\n\tif len(rKey) > 6 {",
  "ListKeys returns \"\" for one-character keys")
m("c06_inmem_listkeys_ignores_expiry", "C06", IM,
  "\t\tif g.Match(k) && !expired(r) {", "\t\t_ = r\n\t\tif g.Match(k) {",
  "ListKeys lists expired records again")
m("c06_inmem_delete_expired_is_nil", "C06", IM,
  "\tif expired(r) {\n\t\treturn errors.ErrNotExist\n\t}\n\treturn nil\n}", "\t_ = r\n\treturn nil\n}",
  "Delete of an expired record reports nil")
m("c07_cancel_closes_shared_channel", "C07", IM,
  "\t\t\tws.waiters--\n\t\t\tif ws.waiters == 0 {\n\t\t\t\tclose(ws.done)\n\t\t\t\tdelete(s.verChange, key)\n\t\t\t}\n\t\t\treturn ctx.Err()",
  "\t\t\tws.waiters--\n\t\t\tclose(ws.done)\n\t\t\tdelete(s.verChange, key)\n\t\t\treturn ctx.Err()",
  "EQUIVALENT (control): a cancelled waiter tears the shared waiter record down although others still wait; they wake spuriously, re-check and re-register - no observable difference, expected to survive")
m("c07_notify_forgets_delete", "C07", IM,
  "\tclose(ws.done)\n\tdelete(s.verChange, key)\n}", "\tclose(ws.done)\n}",
  "notifyWaiters leaves the closed waiter record in the table: the next mutation closes it again (panic) / waiters spin")
LR = "container/lru/ecache.go"
m("c08_hit_does_not_refresh", "C08", LR,
  "\t\t\tp.items.Remove(k)\n\t\t\tp.items.Add(k, res)\n\t\t\tp.lock.Unlock()\n\t\t\treturn res.v, nil",
  "\t\t\tp.lock.Unlock()\n\t\t\treturn res.v, nil", "a hit does not make the entry most recently used")
m("c08_eviction_skips_callback_for_first", "C08", LR,
  "\t\t\t\tp.items.Remove(k)\n\t\t\t\tif p.onDeleteF != nil {\n\t\t\t\t\tp.onDeleteF(v.pk, v.v)\n\t\t\t\t}",
  "\t\t\t\tp.items.Remove(k)\n\t\t\t\tif p.onDeleteF != nil && p.items.Len() > 1 {\n\t\t\t\t\tp.onDeleteF(v.pk, v.v)\n\t\t\t\t}",
  "eviction callback skipped for capacity-1 caches")
m("c09_failed_creation_keeps_inflight", "C09", LR,
  "\t\tp.lock.Lock()\n\t\tclose(ch)\n\t\tdelete(p.inflight, k)\n\t\tif err == nil {",
  "\t\tp.lock.Lock()\n\t\tif err == nil {\n\t\t\tclose(ch)\n\t\t\tdelete(p.inflight, k)",
  "a failed creation never releases the goroutines waiting for it")
m("c09_waiter_creates_too", "C09", LR,
  "\t\tif watcher {\n\t\t\t<-ch\n\t\t\tcontinue\n\t\t}", "\t\tif watcher && p.maxSize > 1 {\n\t\t\t<-ch\n\t\t\tcontinue\n\t\t}",
  "with capacity 1 a second caller does not wait for the creation in flight")
MP = "container/iterable/map.go"
m("c10_release_forgets_head", "C10", MP,
  "\t\tif head := p.delete(); head != nil {\n\t\t\tim.head = head\n\t\t}\n\t\tif p.refCnt == 0 {",
  "\t\tp.delete()\n\t\tif p.refCnt == 0 {", "the repaired defect re-introduced: Close on a removed head entry leaves Map.head dangling")
m("c10_next_forgets_refcount", "C10", MP,
  "\t\t\tp = p.next\n\t\t\tp.refCnt++\n\t\t}\n\t\tif p.state != rlDeleted {",
  "\t\t\tp = p.next\n\t\t}\n\t\tif p.state != rlDeleted {", "an iterator moving to a live entry does not pin it")
m("c11_first_leaks_iterator", "C11", MP,
  "\tit := im.Iterator()\n\tdefer it.Close()\n\te, res := it.Next()", "\tit := im.Iterator()\n\te, res := it.Next()",
  "First() never closes its iterator: every eviction pins a node")
m("c11_clear_without_close", "C11", LR,
  "\tit := p.items.Iterator()\n\tdefer it.Close()\n\tremoved := 0", "\tit := p.items.Iterator()\n\tremoved := 0",
  "the repaired Clear leak re-introduced")
TM = "timeout/timeout.go"
m("c12_swap_forgets_index", "C12", TM, "\t(*fs)[i].idx, (*fs)[j].idx = i, j", "\t(*fs)[i].idx = i",
  "heap Swap updates only one index: Cancel removes a different future")
m("c12_fires_one_ms_early", "C12", TM, "\t\t\tif now.After(fireT) {\n\t\t\t\tfu := heap.Pop",
  "\t\t\tif !now.Before(fireT.Add(-time.Millisecond)) {\n\t\t\t\tfu := heap.Pop", "futures may start up to 1 ms early")
m("c13_add_without_notify", "C13", TM, "\t} else {\n\t\tcc.notifyWatcher()\n\t}\n}", "\t}\n}",
  "a new earlier deadline does not wake the sleeping dispatcher")
m("c13_exit_forgets_counter", "C13", TM,
  "\t\t\tif misCount > 1 {\n\t\t\t\tcc.watchers--\n\t\t\t\tcc.lock.Unlock()\n\t\t\t\treturn\n\t\t\t}\n\t\t\t// if the worker did the job",
  "\t\t\tif misCount > 1 {\n\t\t\t\tcc.lock.Unlock()\n\t\t\t\treturn\n\t\t\t}\n\t\t\t// if the worker did the job",
  "an idle worker leaves without decrementing the worker count: the pool never restarts")
RB = "container/ringbuffer.go"
m("c14_readn_wrap_end", "C14", RB, "\t\tendIdx := len(r.buf)\n\t\tif r.r < r.w {\n\t\t\tendIdx = r.w\n\t\t}\n\t\tcnt := copy(dst",
  "\t\tendIdx := len(r.buf)\n\t\tif r.r <= r.w {\n\t\t\tendIdx = r.w\n\t\t}\n\t\tcnt := copy(dst", "EQUIVALENT (control): differs only when r == w, i.e. Len()==0, where the loop is never entered - expected to survive")
m("c14_skip_leaves_last_slot", "C14", RB, "\t\tSliceFill(r.buf[r.r:endIdx], nilVal)\n\t\tres += cnt",
  "\t\tSliceFill(r.buf[r.r:endIdx-1], nilVal)\n\t\tres += cnt", "Skip does not clear the last slot of each segment")
XB = "xbinary/xbinary.go"
m("c15_size_table_typo", "C15", XB, "\tbit42 = 1 << 42", "\tbit42 = 1 << 41", "size table threshold typo")
m("c15_bytes_prefix_len_minus_one", "C15", XB, "\tidx, err := MarshalUint(uint(ln), buf)\n\tif err != nil {\n\t\treturn 0, err\n\t}\n\n\tbuf = buf[idx:]",
  "\tidx, err := MarshalUint(uint(ln), buf)\n\tif err != nil {\n\t\treturn 0, err\n\t}\n\tif ln == 128 {\n\t\tidx, _ = MarshalUint(uint(ln-1), buf)\n\t}\n\n\tbuf = buf[idx:]",
  "length prefix wrong exactly at the 1->2 byte prefix boundary")
m("c16_signed_length_compare", "C16", XB, "\tif uln > uint(len(buf)-idx) {\n\t\treturn 0, nil, noBufErr(\"UnmarshalBytes-size-body\", len(buf)-idx, int(uln))\n\t}\n\tln := int(uln)",
  "\tln := int(uln)\n\tif len(buf) < ln+idx {\n\t\treturn 0, nil, noBufErr(\"UnmarshalBytes-size-body\", len(buf)-idx, ln)\n\t}", "the repaired overflow re-introduced")
m("c16_uint32_short_check", "C16", XB, "\tif len(buf) < 4 {\n\t\treturn 0, 0, noBufErr(\"UnmarshalUint32\"", "\tif len(buf) < 3 {\n\t\treturn 0, 0, noBufErr(\"UnmarshalUint32\"", "UnmarshalUint32 reads 4 bytes from a 3-byte input")
BL = "container/bytes/blocks.go"
m("c17_free_hint_raised", "C17", BL, "\tif bks.freeIdx > idx {\n\t\tbks.freeIdx = idx\n\t}", "\tif bks.freeIdx < idx {\n\t\tbks.freeIdx = idx\n\t}", "free hint raised instead of lowered")
m("c17_block_offset_overlaps_header", "C17", BL, "\toffs := int64((idx + segm + 1) * bks.blkSize)", "\toffs := int64((idx + segm) * bks.blkSize)", "block 0 of each segment is the header")
MX = "container/iterable/mixer.go"
m("c18_tie_preference_flipped", "C18", MX, "\tif !mr.src2.load || mr.testFunc() {\n\t\tmr.st = 1\n\t\treturn\n\t}\n\tmr.st = 2",
  "\tif !mr.src2.load || (mr.testFunc() && !mr.sf(mr.src2.e, mr.src1.e)) {\n\t\tmr.st = 1\n\t\treturn\n\t}\n\tmr.st = 2", "ties go to the second input")
m("c18_reset_keeps_state", "C18", MX, "\tmr.st = 0\n\treturn nil\n}", "\treturn nil\n}", "Reset keeps the selector state")
GR = "errors/grpc.go"
m("c19_codes_swapped", "C19", GR, "\tErrDataLoss:      codes.DataLoss,\n\tErrExhausted:     codes.ResourceExhausted,",
  "\tErrDataLoss:      codes.ResourceExhausted,\n\tErrExhausted:     codes.DataLoss,", "two codes swapped in the class->code table")
m("c19_aborted_maps_to_nil", "C19", GR, "\tcodes.FailedPrecondition: ErrConflict,\n}", "\tcodes.FailedPrecondition: ErrConflict,\n\tcodes.Aborted:            nil,\n}", "a non-OK code maps to nil")
FL = "files/files.go"
m("c20_containment_prefix_only", "C20", FL,
  "err != nil || rel == \"..\" || strings.HasPrefix(rel, \"..\"+string(filepath.Separator)) {",
  "err != nil || strings.HasPrefix(z.Name, \"../\") && rel == \"..\" {", "containment check weakened: escaping entries pass")
m("c20_nonrecursive_guard_inverted", "C20", FL, "\t\t\tif dir != srcDir {\n\t\t\t\t// skipping subfolders", "\t\t\tif dir == srcDir && strings.Contains(info.Name(), \" \") {\n\t\t\t\t// skipping subfolders",
  "non-recursive mode keeps sub-directories and drops top-level files with a space in the name")


def main():
    os.makedirs(OUT, exist_ok=True)
    bad = 0
    for name, prop, path, old, new, note in M:
        src = open(os.path.join("/repo", path)).read()
        if src.count(old) != 1:
            print("!! %s: anchor found %d times in %s" % (name, src.count(old), path))
            bad += 1
            continue
        dst = src.replace(old, new)
        if name == "c02_inmem_cas_checks_outside_lock":
            dst = dst.replace('\t"sync"\n', '\t"runtime"\n\t"sync"\n').replace("runtimeGosched()", "runtime.Gosched()")
        diff = "".join(difflib.unified_diff(src.splitlines(True), dst.splitlines(True), "a/" + path, "b/" + path))
        d = os.path.join(OUT, name)
        os.makedirs(d, exist_ok=True)
        open(os.path.join(d, "patch.diff"), "w").write(diff)
        json.dump(dict(property=prop, title=name, needs_to_manifest=note, origin="hand-written (selftest/mkmutants.py)"),
                  open(os.path.join(d, "meta.json"), "w"), indent=1)
    print("%d mutants written, %d anchors not found" % (len(M) - bad, bad))
    return 1 if bad else 0


if __name__ == "__main__":
    sys.exit(main())
