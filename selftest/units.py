#!/usr/bin/env python3
"""Prints (or with --update writes into DESIGN.md between <!-- UNITS:BEGIN/END -->) the table of units per property from checks.d."""
import os, sys
VERIF = os.path.dirname(os.path.dirname(os.path.abspath(__file__)))
sys.path.insert(0, VERIF)
from checks import PROPS
rows = ["| id | package(s) | hooks | units: name (quick / thorough: shards x rapid cases) | level |", "|---|---|---|---|---|"]
def tp(v, i):
    return v[i] if isinstance(v, (tuple, list)) else v
for pid in sorted(PROPS):
    c = PROPS[pid]
    us = []
    pk = {c["pkg"]}
    for u in c["units"]:
        pk.add(u.get("pkg", c["pkg"]))
        parts = []
        for i, t in enumerate(("q", "t")):
            if not tp(u.get("enabled", True), i):
                parts.append("-")
                continue
            sh, ck = tp(u.get("shards", 1), i), tp(u.get("checks"), i)
            parts.append("%sx%s" % (sh, ck) if ck is not None else "%s shard(s)" % sh)
        flags = "".join([" race" if tp(u.get("race", False), 1) else "", " fuzz" if u.get("fuzz") else ""])
        us.append("%s (%s / %s%s)" % (u["name"], parts[0], parts[1], flags))
    hooks = sorted(set(c.get("hooks", [])) | {h for u in c["units"] for h in u.get("hooks", [])})
    rows.append("| %s | %s | %s | %s | %s |" % (pid, ", ".join(sorted(pk)), ", ".join(hooks) or "-", "; ".join(us), c["level"]))
table = "\n".join(rows) + "\n"
if "--update" in sys.argv:
    p = os.path.join(VERIF, "DESIGN.md")
    s = open(p).read()
    a, b = s.index("<!-- UNITS:BEGIN -->"), s.index("<!-- UNITS:END -->")
    open(p, "w").write(s[:a] + "<!-- UNITS:BEGIN -->\n" + table + s[b:])
    print("DESIGN.md units table updated")
else:
    print(table)
