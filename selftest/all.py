#!/usr/bin/env python3
"""Runs every check of a tier on the unchanged tree (optionally for several VERIF_SEED values) and prints rc / wall time.
usage: selftest/all.py quick|thorough [seed ...]     (exit 1 if any check did not exit 0)"""
import os, subprocess, sys, time
VERIF = os.path.dirname(os.path.dirname(os.path.abspath(__file__)))
sys.path.insert(0, VERIF)
from checks import PROPS
tier = sys.argv[1] if len(sys.argv) > 1 else "quick"
seeds = sys.argv[2:] or ["1"]
bad = 0
for seed in seeds:
    for pid in sorted(PROPS):
        t0 = time.time()
        r = subprocess.run([os.path.join(VERIF, "check"), pid, tier], cwd=VERIF, env=dict(os.environ, VERIF_SEED=seed), capture_output=True, text=True)
        last = (r.stdout.strip().splitlines() or [""])
        summary = [l for l in last if l.startswith(pid)][:1]
        print("seed=%s %s rc=%d %.0fs %s" % (seed, pid, r.returncode, time.time() - t0, summary[0] if summary else last[-1][:200]), flush=True)
        if r.returncode != 0:
            bad += 1
            print("\n".join(last[-15:]))
sys.exit(1 if bad else 0)
