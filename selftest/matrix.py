#!/usr/bin/env python3
"""Prints the detection matrix (markdown) from selftest/results.jsonl (latest result per change and tier) and the meta.json files.
With --update it rewrites the part of DESIGN.md between the markers <!-- MATRIX:BEGIN --> and <!-- MATRIX:END -->."""
import json, os, sys
VERIF = os.path.dirname(os.path.dirname(os.path.abspath(__file__)))
paths = [os.path.join(VERIF, "selftest", "results.jsonl")] + [a for a in sys.argv[1:] if a.endswith(".jsonl")]
latest = {}
cross = {}  # (change, tier) -> {other property: (at, rc)}: the latest run of every OTHER property's check against the change
for p in paths:
    if not os.path.exists(p):
        continue
    for line in open(p):
        try:
            r = json.loads(line)
        except Exception:
            continue
        key = (r["change"], r.get("tier", "quick"))
        for k, v in r.get("checks", {}).items():
            if k != r["property"] and (k not in cross.setdefault(key, {}) or r.get("at", "") >= cross[key][k][0]):
                cross[key][k] = (r.get("at", ""), v.get("rc"))
        if r["property"] not in r.get("checks", {}) and r.get("result") not in ("retired", "patch-does-not-apply", "does-not-compile"):
            continue  # a run of other properties' checks only (cross-detection)
        if key not in latest or r.get("at", "") >= latest[key].get("at", ""):
            latest[key] = r
rows = []
for (change, tier), r in sorted(latest.items()):
    if tier != "quick":
        continue
    d = os.path.join(VERIF, change)
    try:
        meta = json.load(open(os.path.join(d, "meta.json")))
    except Exception:
        continue
    prop = r["property"]
    chk = r.get("checks", {}).get(prop, {})
    first = chk.get("first", "").strip()
    unit = ""
    if first.startswith("Test") or first[:1].isalpha():
        unit = first.split(" ")[0] + " " + (first.split("[")[1].split("]")[0] if "[" in first else "")
    others = sorted(k for k, (at, rc) in cross.get((change, tier), {}).items() if rc == 1)
    needs = (meta.get("needs_to_manifest") or "").replace("\n", " ").replace("|", "/")
    if len(needs) > 230:
        needs = needs[:227] + "..."
    title = (meta.get("title") or os.path.basename(change)).replace("|", "/")
    rows.append("| %s | %s | %s | %s | %s%s | %s |" % (os.path.basename(change), prop, title[:110], needs, r["result"],
                                                   (" (%ss)" % int(chk.get("wall_s", 0))) if chk else "", unit.strip() + ((" ; also " + ",".join(others)) if others else "")))
hdr = "| change | property | what it is | needs to manifest | quick tier | caught by (unit [signature]) |\n|---|---|---|---|---|---|\n"
table = hdr + "\n".join(rows) + "\n"
if "--update" in sys.argv:
    p = os.path.join(VERIF, "DESIGN.md")
    s = open(p).read()
    a, b = s.index("<!-- MATRIX:BEGIN -->"), s.index("<!-- MATRIX:END -->")
    s = s[:a] + "<!-- MATRIX:BEGIN -->\n" + table + s[b:]
    open(p, "w").write(s)
    print("DESIGN.md updated with %d rows" % len(rows))
else:
    print(table)
