#!/usr/bin/env python3
"""Sensitivity self-test: runs the checks against scratch copies of the repository with one change applied.

  selftest/run.py [--tier quick|thorough] [--all-props] <dir>...     each <dir> holds patch.diff + meta.json
  selftest/run.py --seeded                                           all of /verif/seeded/*
  selftest/run.py --mutants                                          all of /verif/selftest/mutants/*

For each change: copy /repo (working tree) to a scratch directory outside /repo and /verif, apply the patch,
make sure it compiles, run `VERIF_REPO=<scratch> ./check <property> <tier>` and expect exit 1 (violation).
The scratch copy and its build output are removed afterwards. Results are appended to selftest/results.jsonl.
Not part of MANIFEST.json: this is how the checks themselves are tested.
"""
import json, os, shutil, subprocess, sys, tempfile, time

VERIF = os.path.dirname(os.path.dirname(os.path.abspath(__file__)))


def run_one(d, tier, props=None):
    meta = json.load(open(os.path.join(d, "meta.json")))
    prop = meta["property"]
    if meta.get("retired"):
        return dict(change=os.path.relpath(d, VERIF), property=prop, tier=tier, at=time.strftime("%Y-%m-%dT%H:%M:%S"), result="retired", detail=meta["retired"][:200])
    scratch = tempfile.mkdtemp(prefix="verif_selftest_", dir="/tmp")
    repo = os.path.join(scratch, "repo")
    res = dict(change=os.path.relpath(d, VERIF), property=prop, tier=tier, at=time.strftime("%Y-%m-%dT%H:%M:%S"))
    try:
        subprocess.run(["rsync", "-a", "--exclude", ".git", "/repo/", repo + "/"], check=True)
        p = subprocess.run(["patch", "-p1", "--no-backup-if-mismatch", "-d", repo, "-i", os.path.join(os.path.abspath(d), "patch.diff")],
                           capture_output=True, text=True)
        if p.returncode != 0:
            res.update(result="patch-does-not-apply", detail=(p.stdout + p.stderr)[-500:])
            return res
        env = dict(os.environ, GOFLAGS="-mod=mod", GOPROXY="off", GOSUMDB="off")
        b = subprocess.run(["go", "build", "./..."], cwd=repo, env=env, capture_output=True, text=True)
        if b.returncode != 0:
            res.update(result="does-not-compile", detail=b.stderr[-500:])
            return res
        out = {}
        for pid in (props or [prop]):
            t0 = time.time()
            env2 = dict(os.environ, VERIF_REPO=repo)
            r = subprocess.run([os.path.join(VERIF, "check"), pid, tier], cwd=VERIF, env=env2, capture_output=True, text=True)
            lines = [l for l in r.stdout.splitlines() if l.startswith("  ") or l.startswith("VIOLATION") or l.startswith("INFRA")]
            out[pid] = dict(rc=r.returncode, wall_s=round(time.time() - t0, 1), first=(lines[0][:400] if lines else ""))
        res["checks"] = out
        own = out.get(prop)
        if own is None:
            res["result"] = "cross-only"
        else:
            res["result"] = "detected" if own["rc"] == 1 else ("inconclusive" if own["rc"] == 2 else "MISSED")
        return res
    finally:
        shutil.rmtree(scratch, ignore_errors=True)


def main():
    args = sys.argv[1:]
    tier, allp, dirs, only = "quick", False, [], None
    while args:
        a = args.pop(0)
        if a == "--tier":
            tier = args.pop(0)
        elif a == "--all-props":
            allp = True
        elif a.startswith("--props="):
            only = a.split("=", 1)[1].split(",")
        elif a == "--seeded":
            base = os.path.join(VERIF, "seeded")
            dirs += sorted(os.path.join(base, x) for x in os.listdir(base) if os.path.exists(os.path.join(base, x, "patch.diff")))
        elif a == "--mutants":
            base = os.path.join(VERIF, "selftest", "mutants")
            dirs += sorted(os.path.join(base, x) for x in os.listdir(base) if os.path.exists(os.path.join(base, x, "patch.diff")))
        else:
            dirs.append(a)
    props = None
    if only:
        props = only
    if allp:
        sys.path.insert(0, VERIF)
        from checks import PROPS
        props = sorted(PROPS)
    rc = 0
    for d in dirs:
        r = run_one(d, tier, props)
        with open(os.path.join(VERIF, "selftest", "results.jsonl"), "a") as f:
            f.write(json.dumps(r) + "\n")
        print("%-40s %-4s %-8s %s" % (r["change"], r["property"], r["result"],
                                       " ".join("%s:rc%d/%.0fs" % (k, v["rc"], v["wall_s"]) for k, v in r.get("checks", {}).items())), flush=True)
        if r["result"] != "detected":
            rc = 1
            print("    " + str(r.get("detail") or (r.get("checks", {}).get(r["property"], {}) or {}).get("first", "")))
    return rc


if __name__ == "__main__":
    sys.exit(main())
