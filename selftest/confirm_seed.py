#!/usr/bin/env python3
"""Confirms a seeded change produced by an independent sub-agent before it is kept under /verif/seeded/:
in the sub-agent's own scratch worktree (/tmp/seed_<P>) - never in /repo -
  1. the patch applies and `go build ./...` works,
  2. the library's own tests of the touched package(s) and their dependants pass with the patch (3 runs; the timeout
     package's known-flaky tests are reported separately),
  3. the demonstration fails with the patch,
  4. the demonstration passes without it,
then copies patch.diff, the demonstration and an extended meta.json to /verif/seeded/<P>-<n>/.
usage: confirm_seed.py C01 1 [C01 2 ...]
"""
import json, os, re, shutil, subprocess, sys

ENV = dict(os.environ, GOFLAGS="-mod=mod", GOPROXY="off", GOSUMDB="off")


def sh(cmd, cwd, timeout=900):
    r = subprocess.run(cmd, cwd=cwd, env=ENV, shell=True, capture_output=True, text=True, timeout=timeout)
    return r.returncode, (r.stdout + r.stderr)


def confirm(prop, n):
    wt = "/tmp/seed_%s" % prop
    out = "/tmp/seed_%s_out/%s" % (prop, n)
    meta = json.load(open(os.path.join(out, "meta.json")))
    rc, txt = sh("git checkout -- . && git clean -fdq && git status --short", wt)
    assert rc == 0 and txt.strip() == "", "worktree not clean: " + txt
    pkgdir = re.match(r"[\w/]+", meta["demo_package_dir"]).group(0).rstrip("/")
    demo_src = [f for f in os.listdir(out) if f.endswith(".go")]
    assert demo_src, "no demo"
    res = dict(confirmed_by="selftest/confirm_seed.py in the scratch worktree " + wt, ran=[])

    def note(cmd, rc, extra=""):
        res["ran"].append("%s -> rc=%d %s" % (cmd, rc, extra))

    def put_demo():
        for f in demo_src:
            shutil.copy(os.path.join(out, f), os.path.join(wt, pkgdir, "zz_" + f if not f.startswith("zz_") else f))

    def del_demo():
        sh("git clean -fdq", wt)

    # 4. demo passes without the patch
    put_demo()
    rc, txt = sh("go test -vet=off -count=1 -run 'Demo|DEMO|demo|ZZ' ./%s/" % pkgdir, wt)
    note("demo without patch", rc)
    res["demo_passes_without_patch"] = rc == 0
    del_demo()
    # 1. patch applies, builds
    rc, txt = sh("git apply %s/patch.diff && go build ./..." % out, wt)
    note("git apply && go build ./...", rc, txt[-300:] if rc else "")
    res["compiles"] = rc == 0
    if rc == 0:
        # 2. existing suite (touched packages and everything that depends on them), 3 runs
        rc0, files = sh("git diff --name-only", wt)
        pkgs = sorted({os.path.dirname(f) for f in files.split() if f.endswith(".go")})
        deps = set()
        rcl, lst = sh("go list -f '{{.ImportPath}} {{join .Deps \" \"}}' ./...", wt)
        for line in lst.splitlines():
            parts = line.split()
            if not parts:
                continue
            for p in pkgs:
                full = "github.com/acquirecloud/golibs/" + p
                if parts[0] == full or full in parts[1:]:
                    deps.add("./" + parts[0][len("github.com/acquirecloud/golibs/"):])
        fails = []
        for i in range(3):
            rc, txt = sh("go test -vet=off -count=1 %s" % " ".join(sorted(deps)), wt)
            failed = re.findall(r"^--- FAIL: (\S+)", txt, re.M)
            fails.append(failed)
            note("existing tests of %s (run %d)" % (" ".join(sorted(deps)), i + 1), rc, "failed: %s" % failed if failed else "")
        flaky_ok = {"TestBunch2", "TestCancelMany", "TestBunch", "TestKvDistLock_Timeout"}
        hard = [f for fl in fails for f in fl if f not in flaky_ok]
        always = set(fails[0]).intersection(*map(set, fails[1:])) - {"TestBunch2"}
        res["existing_suite_passes"] = not hard and not always
        res["existing_suite_failures_seen"] = fails
        # 3. demo fails with the patch
        put_demo()
        rc, txt = sh("go test -vet=off -count=1 -run 'Demo|DEMO|demo|ZZ' ./%s/" % pkgdir, wt)
        note("demo with patch", rc, txt[-300:].replace("\n", " | ") if rc else "")
        res["demo_fails_with_patch"] = rc != 0 and "FAIL" in txt and "build failed" not in txt
        del_demo()
    sh("git checkout -- . && git clean -fdq", wt)
    ok = all(res.get(k) for k in ("compiles", "existing_suite_passes", "demo_fails_with_patch", "demo_passes_without_patch"))
    res["kept"] = ok
    print("%s-%s: %s  %s" % (prop, n, "CONFIRMED" if ok else "REJECTED", {k: v for k, v in res.items() if isinstance(v, bool)}), flush=True)
    if ok:
        dst = "/verif/seeded/%s-%s" % (prop, n)
        os.makedirs(dst, exist_ok=True)
        shutil.copy(os.path.join(out, "patch.diff"), dst)
        for f in demo_src:
            shutil.copy(os.path.join(out, f), os.path.join(dst, f + ".txt"))  # .txt: not part of any Go package here
        meta["confirmation"] = res
        meta["demo_files"] = [f + ".txt" for f in demo_src]
        json.dump(meta, open(os.path.join(dst, "meta.json"), "w"), indent=1)
    else:
        json.dump(res, open(os.path.join(out, "rejected.json"), "w"), indent=1)
    return ok


if __name__ == "__main__":
    a = sys.argv[1:]
    for i in range(0, len(a), 2):
        try:
            confirm(a[i], a[i + 1])
        except Exception as e:
            print("%s-%s: ERROR %s" % (a[i], a[i + 1], e))
