#!/usr/bin/env python3
"""Generates MANIFEST.json from checks.py (run after editing checks.py)."""
import json, os, sys
VERIF = os.path.dirname(os.path.abspath(__file__))
sys.path.insert(0, VERIF)
from checks import PROPS, NOT_APPLICABLE, LEVEL_TEXT  # noqa

only = set(sys.argv[1:])
if only:
    for pid in list(PROPS):
        if pid not in only:
            del PROPS[pid]
    NOT_APPLICABLE = [dict(property_id=p, reason="check not built yet in this revision of /verif (planned, DESIGN.md §4); no claim is made")
                      for p in ["C%02d" % i for i in range(1, 21)] if p not in PROPS]
checks = []
for pid in sorted(PROPS):
    c = PROPS[pid]
    checks.append(dict(
        property_id=pid,
        quick_cmd="./check %s quick" % pid,
        thorough_cmd="./check %s thorough" % pid,
        evidence_file="/verif/evidence/%s.json" % pid,
        replay_cmd_template="./check %s --replay {path}" % pid,
        engine="harness/" + c["pkg"],
        level_claimed=dict(category=c["level"], text=LEVEL_TEXT[pid], design_ref=c["design"]),
        level_note=c.get("level_note", "; ".join(c.get("assumptions", []))),
        technique=c["technique"],
    ))
engines = {}
for pid in sorted(PROPS):
    engines.setdefault(PROPS[pid]["pkg"], []).append(pid)
m = dict(
    version=1,
    setup_cmd="./check --setup",
    hooks=dict(
        guard="overlay:/verif/hooks (go test -overlay; nothing is added to the repository, so the guard is off whenever the overlay flag is absent)",
        enable="go1.26.8 test -c -vet=off -overlay=<generated overlay.json mapping /repo/<pkg>/zz_verifhooks.go to /verif/hooks/<pkg>_verifhooks.go>",
        baseline_off_cmd="cd /repo && GOFLAGS=-mod=mod GOPROXY=off GOSUMDB=off go test -vet=off -count=1 -timeout 25m ./...",
        source_commits=[],
        add_only=True,
    ),
    engines=[dict(name=k, path="/verif/harness/" + k, serves_properties=v,
                  kind_free_text="Go test package: rapid property-based tests, bounded-exhaustive enumerators and replay loader") for k, v in sorted(engines.items())],
    checks=checks,
    notes="All checks are property-based tests / fuzzers driven by /verif/check (python3) over the Go module /verif/harness; "
          "see DESIGN.md. Exit 2 of a command means infrastructure trouble or an inconclusive budget, never a violation.",
    not_applicable=NOT_APPLICABLE,
)
json.dump(m, open(os.path.join(VERIF, "MANIFEST.json"), "w"), indent=1)
print("MANIFEST.json written with %d checks, %d not_applicable" % (len(checks), len(NOT_APPLICABLE)))
